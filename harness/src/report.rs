//! What a harness binary hands back to the check script (one JSON object on a result file).
use serde::Serialize;
use std::collections::BTreeMap;

#[derive(Serialize, Default)]
pub struct Violation {
    /// "property": the implementation breaks the property on a concrete input (replay has it);
    /// "model-mismatch": model and implementation disagree but no property failure was found
    pub kind: String,
    pub summary: String,
    pub replay: serde_json::Value,
    /// id of the known finding this instance matches, if any
    pub known: Option<String>,
}

#[derive(Serialize, Default)]
pub struct Report {
    pub property: String,
    pub evaluations: u64,
    pub distinct_nontrivial: u64,
    pub rule: String,
    pub samples: Vec<serde_json::Value>,
    pub histogram: BTreeMap<String, u64>,
    /// model vs implementation comparisons made / that differed
    pub model_comparisons: u64,
    pub model_disagreements: u64,
    /// direct oracle (property evaluated on the implementation's own results) evaluations / failures
    pub oracle_checks: u64,
    pub oracle_failures: u64,
    pub exhaustive: bool,
    pub violations: Vec<Violation>,
    pub notes: Vec<String>,
}

impl Report {
    pub fn new(property: &str) -> Self {
        Report { property: property.to_string(), ..Default::default() }
    }
    pub fn count(&mut self, key: &str) {
        *self.histogram.entry(key.to_string()).or_insert(0) += 1;
    }
    pub fn count_n(&mut self, key: &str, n: u64) {
        *self.histogram.entry(key.to_string()).or_insert(0) += n;
    }
    pub fn sample(&mut self, v: serde_json::Value) {
        if self.samples.len() < 12 {
            self.samples.push(v);
        }
    }
    pub fn violation(&mut self, kind: &str, summary: String, replay: serde_json::Value) {
        if self.violations.len() < 20 {
            self.violations.push(Violation { kind: kind.into(), summary, replay, known: None });
        }
    }
    pub fn write(&self, path: &str) {
        std::fs::write(path, serde_json::to_string_pretty(self).unwrap()).expect("write report");
    }
}

/// `--out <path>` argument of every harness binary
pub fn out_path() -> String {
    let args: Vec<String> = std::env::args().collect();
    args.iter()
        .position(|a| a == "--out")
        .and_then(|i| args.get(i + 1).cloned())
        .unwrap_or_else(|| "/dev/stdout".into())
}

/// `--replay <path>` argument: re-run exactly the case stored in a replay file
pub fn replay_path() -> Option<String> {
    let args: Vec<String> = std::env::args().collect();
    args.iter().position(|a| a == "--replay").and_then(|i| args.get(i + 1).cloned())
}
