//! SplitMix64: every random choice of a run derives from one seed so failures replay exactly.
#[derive(Clone)]
pub struct Rng(pub u64);

impl Rng {
    pub fn new(seed: u64) -> Self {
        Rng(seed ^ 0x9e3779b97f4a7c15)
    }
    pub fn next_u64(&mut self) -> u64 {
        self.0 = self.0.wrapping_add(0x9e3779b97f4a7c15);
        let mut z = self.0;
        z = (z ^ (z >> 30)).wrapping_mul(0xbf58476d1ce4e5b9);
        z = (z ^ (z >> 27)).wrapping_mul(0x94d049bb133111eb);
        z ^ (z >> 31)
    }
    pub fn next_u128(&mut self) -> u128 {
        ((self.next_u64() as u128) << 64) | self.next_u64() as u128
    }
    /// uniform in 0..n (n > 0)
    pub fn below(&mut self, n: usize) -> usize {
        (self.next_u64() % n as u64) as usize
    }
    pub fn range(&mut self, lo: i64, hi: i64) -> i64 {
        lo + (self.next_u64() % ((hi - lo + 1) as u64)) as i64
    }
    pub fn chance(&mut self, num: u32, den: u32) -> bool {
        (self.next_u64() % den as u64) < num as u64
    }
    pub fn pick<'a, T>(&mut self, xs: &'a [T]) -> &'a T {
        &xs[self.below(xs.len())]
    }
    pub fn fork(&mut self) -> Rng {
        Rng(self.next_u64())
    }
}
