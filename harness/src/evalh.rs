//! C03 — control flow, scoping, captures, includes; and the evaluation half of C02
//! (short-circuit, lazy ternary, one level of undefined, operand kind errors).
//!
//! Every generated program is rendered by the real engine and by the Lean evaluator
//! (`drv_c03`, fed with the REAL parser's AST through `verif_hooks::ast_wire`) — correspondence —
//! and a set of direct oracles that do not depend on the model evaluates the property on the
//! engine's own results (see `oracles`).
use std::collections::BTreeMap;

use tera::{Context, Delimiters, Tera, Value};
use crate::report::{out_path, replay_path, Report};
use crate::rng::Rng;
use crate::wire::{decode, encode, hex, unhex};
use crate::{catch, driver, quiet_panics, Env};

/// property the running binary reports under ("C03": everything; "C02": the evaluation-rule streams)
static PROPERTY: std::sync::OnceLock<String> = std::sync::OnceLock::new();
fn property() -> &'static str {
    PROPERTY.get().map(|s| s.as_str()).unwrap_or("C03")
}
fn rerun_hint() -> String {
    format!("harness/target/release/{} --replay <this file>", match property() { "C02" => "c02e", "C04" => "c04e", _ => "c03" })
}

// ------------------------------------------------------------------ program trees

#[derive(Clone, Debug, PartialEq)]
enum Ex {
    /// source text of an atom (literal, variable, `loop.index`)
    Atom(String),
    Bin(&'static str, Box<Ex>, Box<Ex>),
    Un(&'static str, Box<Ex>),
    Attr(Box<Ex>, String, bool),
    Index(Box<Ex>, Box<Ex>, bool),
    Slice(Box<Ex>, Option<Box<Ex>>, Option<Box<Ex>>, Option<Box<Ex>>, bool),
    Filter(Box<Ex>, String, Vec<(String, Ex)>),
    Test(Box<Ex>, String, bool),
    Call(String, Vec<(String, Ex)>),
    Ternary(Box<Ex>, Box<Ex>, Box<Ex>),
    Array(Vec<(bool, Ex)>),
    MapLit(Vec<(String, Ex)>),
    Compr(Box<Ex>, String, Box<Ex>, Option<Box<Ex>>),
}

#[derive(Clone, Debug, PartialEq)]
enum St {
    Text(String),
    Print(Ex),
    Set(String, Ex, bool),
    SetBlock(String, Vec<String>, Vec<St>, bool),
    If(Vec<(Ex, Vec<St>)>, Option<Vec<St>>),
    For(Option<String>, String, Ex, Vec<St>, Vec<St>),
    Break,
    Continue,
    Include(String),
    FilterSection(String, Vec<St>),
}

fn b(e: Ex) -> Box<Ex> {
    Box::new(e)
}
/// `?.` / `?[` are only accepted after a name or another postfix access
fn postfix_base(e: &Ex) -> bool {
    match e {
        Ex::Atom(a) => a.chars().next().is_some_and(|c| c.is_ascii_alphabetic()) && !matches!(a.as_str(), "none" | "true" | "false"),
        Ex::Attr(x, ..) | Ex::Index(x, ..) | Ex::Slice(x, ..) => postfix_base(x),
        _ => false,
    }
}
/// the parser rejects a unary operation as the right operand of `~` (also through parentheses,
/// and `not in` / `is not` are unary `not`s)
fn concat_rhs(e: Ex) -> Ex {
    match &e {
        Ex::Un(..) => Ex::Filter(b(e), "str".into(), vec![]),
        Ex::Bin(op, ..) if *op == "not in" => Ex::Filter(b(e), "str".into(), vec![]),
        Ex::Test(_, _, true) => Ex::Filter(b(e), "str".into(), vec![]),
        _ => e,
    }
}
/// normalise a generated expression so that the parser accepts it
fn legal(e: Ex) -> Ex {
    match e {
        Ex::Attr(x, n, o) => { let x = legal(*x); let o = o && postfix_base(&x); Ex::Attr(b(x), n, o) }
        Ex::Index(x, i, o) => { let x = legal(*x); let o = o && postfix_base(&x); Ex::Index(b(x), b(legal(*i)), o) }
        Ex::Slice(x, a, c, d, o) => { let x = legal(*x); let o = o && postfix_base(&x); Ex::Slice(b(x), a.map(|e| b(legal(*e))), c.map(|e| b(legal(*e))), d.map(|e| b(legal(*e))), o) }
        Ex::Bin(op, l, r) => { let r = legal(*r); Ex::Bin(op, b(legal(*l)), b(if op == "~" { concat_rhs(r) } else { r })) }
        Ex::Un(op, x) => Ex::Un(op, b(legal(*x))),
        Ex::Test(x, n, o) => Ex::Test(b(legal(*x)), n, o),
        Ex::Filter(x, n, kw) => Ex::Filter(b(legal(*x)), n, kw.into_iter().map(|(k, e)| (k, legal(e))).collect()),
        Ex::Call(n, kw) => Ex::Call(n, kw.into_iter().map(|(k, e)| (k, legal(e))).collect()),
        Ex::Ternary(c, t, f) => Ex::Ternary(b(legal(*c)), b(legal(*t)), b(legal(*f))),
        Ex::Array(items) => Ex::Array(items.into_iter().map(|(s, e)| (s, legal(e))).collect()),
        Ex::MapLit(items) => Ex::MapLit(items.into_iter().map(|(k, e)| (k, legal(e))).collect()),
        Ex::Compr(bd, v, t, c) => Ex::Compr(b(legal(*bd)), v, b(legal(*t)), c.map(|e| b(legal(*e)))),
        a => a,
    }
}
fn atom(s: &str) -> Ex {
    Ex::Atom(s.to_string())
}
fn str_lit(s: &str) -> Ex {
    // only characters that need no escaping in a template string literal are generated
    Ex::Atom(format!("\"{s}\""))
}

fn kwargs_src(kw: &[(String, Ex)]) -> String {
    kw.iter().map(|(k, v)| format!("{k}={}", ex_src(v))).collect::<Vec<_>>().join(", ")
}

fn ex_src(e: &Ex) -> String {
    match e {
        Ex::Atom(s) => s.clone(),
        Ex::Bin(op, l, r) => format!("({} {op} {})", ex_src(l), ex_src(r)),
        Ex::Un(op, x) => format!("({op} {})", ex_src(x)),
        Ex::Attr(x, n, opt) => format!("{}{}{n}", ex_src(x), if *opt { "?." } else { "." }),
        Ex::Index(x, i, opt) => format!("{}{}{}]", ex_src(x), if *opt { "?[" } else { "[" }, ex_src(i)),
        Ex::Slice(x, a, bb, c, opt) => {
            let p = |o: &Option<Box<Ex>>| o.as_ref().map(|e| ex_src(e)).unwrap_or_default();
            let mut s = format!("{}{}{}:{}", ex_src(x), if *opt { "?[" } else { "[" }, p(a), p(bb));
            if c.is_some() {
                s.push(':');
                s.push_str(&p(c));
            }
            s.push(']');
            s
        }
        Ex::Filter(x, n, kw) => {
            if kw.is_empty() {
                format!("({} | {n})", ex_src(x))
            } else {
                format!("({} | {n}({}))", ex_src(x), kwargs_src(kw))
            }
        }
        Ex::Test(x, n, neg) => format!("({} is {}{n})", ex_src(x), if *neg { "not " } else { "" }),
        Ex::Call(n, kw) => format!("{n}({})", kwargs_src(kw)),
        Ex::Ternary(c, t, f) => format!("({} if {} else {})", ex_src(t), ex_src(c), ex_src(f)),
        Ex::Array(items) => format!(
            "[{}]",
            items.iter().map(|(sp, e)| format!("{}{}", if *sp { "..." } else { "" }, ex_src(e))).collect::<Vec<_>>().join(", ")
        ),
        Ex::MapLit(items) => format!(
            "{{ {} }}",
            items.iter().map(|(k, e)| if k == "..." { format!("...{}", ex_src(e)) } else { format!("\"{k}\": {}", ex_src(e)) }).collect::<Vec<_>>().join(", ")
        ),
        Ex::Compr(body, var, target, cond) => match cond {
            Some(c) => format!("[{} for {var} in {} if {}]", ex_src(body), ex_src(target), ex_src(c)),
            None => format!("[{} for {var} in {}]", ex_src(body), ex_src(target)),
        },
    }
}

fn stmts_src(ss: &[St], out: &mut String) {
    for s in ss {
        match s {
            St::Text(t) => out.push_str(t),
            St::Print(e) => out.push_str(&format!("{{{{ {} }}}}", ex_src(e))),
            St::Set(n, e, g) => out.push_str(&format!("{{% {} {n} = {} %}}", if *g { "set_global" } else { "set" }, ex_src(e))),
            St::SetBlock(n, filters, body, g) => {
                let f: String = filters.iter().map(|f| format!(" | {f}")).collect();
                out.push_str(&format!("{{% {} {n}{f} %}}", if *g { "set_global" } else { "set" }));
                stmts_src(body, out);
                out.push_str("{% endset %}");
            }
            St::If(branches, els) => {
                for (i, (c, body)) in branches.iter().enumerate() {
                    out.push_str(&format!("{{% {} {} %}}", if i == 0 { "if" } else { "elif" }, ex_src(c)));
                    stmts_src(body, out);
                }
                if let Some(e) = els {
                    out.push_str("{% else %}");
                    stmts_src(e, out);
                }
                out.push_str("{% endif %}");
            }
            St::For(k, v, target, body, els) => {
                match k {
                    Some(k) => out.push_str(&format!("{{% for {k}, {v} in {} %}}", ex_src(target))),
                    None => out.push_str(&format!("{{% for {v} in {} %}}", ex_src(target))),
                }
                stmts_src(body, out);
                if !els.is_empty() {
                    out.push_str("{% else %}");
                    stmts_src(els, out);
                }
                out.push_str("{% endfor %}");
            }
            St::Break => out.push_str("{% break %}"),
            St::Continue => out.push_str("{% continue %}"),
            St::Include(n) => out.push_str(&format!("{{% include \"{n}\" %}}")),
            St::FilterSection(f, body) => {
                out.push_str(&format!("{{% filter {f} %}}"));
                stmts_src(body, out);
                out.push_str("{% endfilter %}");
            }
        }
    }
}

fn src_of(ss: &[St]) -> String {
    let mut s = String::new();
    stmts_src(ss, &mut s);
    s
}

/// number of statements and expression nodes (size measure for the histogram and the shrinker)
fn ex_size(e: &Ex) -> usize {
    1 + match e {
        Ex::Atom(_) => 0,
        Ex::Bin(_, l, r) => ex_size(l) + ex_size(r),
        Ex::Un(_, x) | Ex::Attr(x, _, _) | Ex::Test(x, _, _) => ex_size(x),
        Ex::Index(x, i, _) => ex_size(x) + ex_size(i),
        Ex::Slice(x, a, bb, c, _) => ex_size(x) + [a, bb, c].iter().map(|o| o.as_ref().map(|e| ex_size(e)).unwrap_or(0)).sum::<usize>(),
        Ex::Filter(x, _, kw) => ex_size(x) + kw.iter().map(|(_, e)| ex_size(e)).sum::<usize>(),
        Ex::Call(_, kw) => kw.iter().map(|(_, e)| ex_size(e)).sum::<usize>(),
        Ex::Ternary(c, t, f) => ex_size(c) + ex_size(t) + ex_size(f),
        Ex::Array(items) => items.iter().map(|(_, e)| ex_size(e)).sum::<usize>(),
        Ex::MapLit(items) => items.iter().map(|(_, e)| ex_size(e)).sum::<usize>(),
        Ex::Compr(bd, _, t, c) => ex_size(bd) + ex_size(t) + c.as_ref().map(|e| ex_size(e)).unwrap_or(0),
    }
}
fn stmts_size(ss: &[St]) -> usize {
    ss.iter()
        .map(|s| {
            1 + match s {
                St::Text(_) | St::Break | St::Continue | St::Include(_) => 0,
                St::Print(e) => ex_size(e),
                St::Set(_, e, _) => ex_size(e),
                St::SetBlock(_, _, body, _) | St::FilterSection(_, body) => stmts_size(body),
                St::If(br, els) => br.iter().map(|(c, bd)| ex_size(c) + stmts_size(bd)).sum::<usize>() + els.as_ref().map(|e| stmts_size(e)).unwrap_or(0),
                St::For(_, _, t, body, els) => ex_size(t) + stmts_size(body) + stmts_size(els),
            }
        })
        .sum()
}

// ------------------------------------------------------------------ a case

#[derive(Clone, Debug)]
struct Case {
    /// (name, body); the first one is rendered
    templates: Vec<(String, Vec<St>)>,
    ctx: Vec<(String, Value)>,
    global: Vec<(String, Value)>,
    /// stream the case came from (histogram / replay)
    stream: String,
}

impl Case {
    fn sources(&self) -> Vec<(String, String)> {
        self.templates.iter().map(|(n, b)| (n.clone(), src_of(b))).collect()
    }
    fn size(&self) -> usize {
        self.templates.iter().map(|(_, b)| stmts_size(b)).sum()
    }
}

fn autoescapes(name: &str) -> bool {
    name.ends_with(".html") || name.ends_with(".htm") || name.ends_with(".xml")
}

/// "ok <hex text>" | "err <class>" | "adderr <msg>" | "panic <msg>"
fn classify(msg: &str) -> &'static str {
    if msg.contains("THROWN") {
        "thrown"
    } else if msg.contains("is not defined") || msg.contains("an undefined value") || msg.contains("is undefined") {
        "undefined"
    } else if msg.contains("Cannot compare") {
        "notcomparable"
    } else if msg.contains("out of range for integer arithmetic") {
        "operandrange"
    } else if msg.contains("divide by 0") {
        "divzero"
    } else if msg.contains("Exponent") && msg.contains("out of range") {
        "exprange"
    } else if msg.contains("Unable to perform") || msg.contains("would overflow") {
        "overflow"
    } else if msg.contains("can only be done on numbers") || msg.contains("requires both operands to be numbers") || msg.contains("Only numbers can be") {
        "notnumber"
    } else if msg.contains("Iteration not possible") || msg.contains("Key/value iteration") {
        "iteration"
    } else if msg.contains("`in` cannot be used") {
        "incontainer"
    } else if msg.contains("index must be an integer") || msg.contains("Map keys must be") || msg.contains("must be an integer, got") || msg.contains("Slicing can only") || msg.contains("Slicing step") {
        "index"
    } else if msg.contains("Spread operator") {
        "spread"
    } else {
        "call"
    }
}

/// Fallback-prefix cases: `prefixes|<p1;p2;…>|<render|str>|<template name to render>`; the template
/// called `__str` is not registered, it is the source handed to `render_str`
fn prefix_spec(case: &Case) -> Option<(Vec<String>, String, String)> {
    let mut it = case.stream.split('|');
    if it.next()? != "prefixes" {
        return None;
    }
    let prefixes = it.next()?.split(';').filter(|p| !p.is_empty()).map(|p| p.to_string()).collect();
    Some((prefixes, it.next()?.to_string(), it.next().unwrap_or("").to_string()))
}

/// The documented resolution: the exact name first, then the fallback prefixes in order
fn resolve_by_rule(prefixes: &[String], names: &[String], name: &str) -> Option<String> {
    if names.iter().any(|n| n == name) {
        return Some(name.to_string());
    }
    prefixes.iter().map(|p| format!("{p}{name}")).find(|c| names.contains(c))
}

/// Custom function / filter / test that read a variable the way user code does: `State::get`
fn register_peek(tera: &mut Tera) {
    tera.register_function("peek", |kwargs: tera::Kwargs, state: &tera::State| -> tera::TeraResult<Value> {
        let name = kwargs.must_get::<&str>("name")?;
        Ok(state.get::<Value>(name)?.unwrap_or_else(|| Value::from("~")))
    });
    tera.register_filter("peekf", |name: &str, _: tera::Kwargs, state: &tera::State| -> tera::TeraResult<Value> {
        Ok(state.get::<Value>(name)?.unwrap_or_else(|| Value::from("~")))
    });
    tera.register_test("same_as_var", |v: Value, kwargs: tera::Kwargs, state: &tera::State| -> tera::TeraResult<bool> {
        let name = kwargs.must_get::<&str>("name")?;
        Ok(state.get::<Value>(name)?.unwrap_or_else(|| Value::from("~")) == v)
    });
}

fn build_engine_raw(case: &Case) -> Result<Tera, String> {
    let mut tera = Tera::default();
    register_peek(&mut tera);
    if let Some((prefixes, _, _)) = prefix_spec(case) {
        tera.set_fallback_prefixes(prefixes).map_err(|e| format!("{e}"))?;
        tera.add_raw_templates(case.sources().into_iter().filter(|(n, _)| n != "__str")).map_err(|e| format!("{e}"))?;
        for (k, v) in &case.global {
            tera.global_context().insert_value(k.clone(), v.clone());
        }
        return Ok(tera);
    }
    tera.add_raw_templates(case.sources()).map_err(|e| format!("{e}"))?;
    for (k, v) in &case.global {
        tera.global_context().insert_value(k.clone(), v.clone());
    }
    Ok(tera)
}

/// Registration (and the display of a registration error) may panic: that is an outcome
fn build_engine(case: &Case) -> Result<Tera, String> {
    match catch(std::panic::AssertUnwindSafe(|| build_engine_raw(case))) {
        Ok(r) => r,
        Err(p) => Err(format!("panic {p}")),
    }
}

/// `oracle.ctx_extend` cases give two contexts in `ctx`: keys `t:<name>` are inserted into the
/// target, keys `s:<name>` into the source, and the render context is `target.extend(source)`
fn context_of(case: &Case) -> Context {
    let mut ctx = Context::new();
    if case.stream == "oracle.ctx_extend" {
        let mut source = Context::new();
        for (k, v) in &case.ctx {
            if let Some(n) = k.strip_prefix("t:") {
                ctx.insert_value(n.to_string(), v.clone());
            } else if let Some(n) = k.strip_prefix("s:") {
                source.insert_value(n.to_string(), v.clone());
            }
        }
        ctx.extend(source);
        return ctx;
    }
    for (k, v) in &case.ctx {
        ctx.insert_value(k.clone(), v.clone());
    }
    ctx
}

/// The render context by the documented rule (for the model): `extend` = the source wins on shared keys
fn ctx_by_rule(case: &Case) -> Vec<(String, Value)> {
    if case.stream != "oracle.ctx_extend" {
        return case.ctx.clone();
    }
    let mut out: Vec<(String, Value)> = Vec::new();
    for pass in ["t:", "s:"] {
        for (k, v) in &case.ctx {
            if let Some(n) = k.strip_prefix(pass) {
                out.push((n.to_string(), v.clone()));
            }
        }
    }
    out
}

fn render_outcome(tera: &Tera, name: &str, ctx: &Context) -> String {
    match catch(std::panic::AssertUnwindSafe(|| tera.render(name, ctx))) {
        Err(p) => format!("panic {p}"),
        Ok(Ok(text)) => format!("ok {}", hex(text.as_bytes())),
        Ok(Err(e)) => {
            let msg = match e.kind() {
                tera::ErrorKind::RenderingError(r) => r.message().to_string(),
                _ => e.to_string(),
            };
            format!("err {}", classify(&msg))
        }
    }
}

/// Inheritance cases say which template (and block) to render in their stream name:
/// `inherit|<template>|<block or empty>`
fn inherit_target(case: &Case) -> Option<(String, Option<String>)> {
    let mut it = case.stream.split('|');
    if it.next()? != "inherit" {
        return None;
    }
    let name = it.next()?.to_string();
    let block = it.next().filter(|b| !b.is_empty()).map(|b| b.to_string());
    Some((name, block))
}

fn run_real(case: &Case) -> String {
    match build_engine(case) {
        Err(e) if e.starts_with("panic ") => e,
        Err(e) => format!("adderr {}", e.lines().next().unwrap_or("")),
        Ok(tera) => match inherit_target(case) {
            None if prefix_spec(case).is_some() => {
                let (_, mode, target) = prefix_spec(case).unwrap();
                if mode == "str" {
                    let src = case.sources().into_iter().find(|(n, _)| n == "__str").map(|(_, s)| s).unwrap_or_default();
                    let ctx = context_of(case);
                    match catch(std::panic::AssertUnwindSafe(|| tera.render_str(&src, &ctx, false))) {
                        Err(p) => format!("panic {p}"),
                        Ok(Ok(text)) => format!("ok {}", hex(text.as_bytes())),
                        Ok(Err(e)) => {
                            let msg = match e.kind() {
                                tera::ErrorKind::RenderingError(r) => r.message().to_string(),
                                _ => e.to_string(),
                            };
                            format!("err {}", classify(&msg))
                        }
                    }
                } else {
                    render_outcome(&tera, &target, &context_of(case))
                }
            }
            None if case.stream == "oracle.entry.render_to" => {
                // the WRITER entry point
                let ctx = context_of(case);
                let mut buf: Vec<u8> = Vec::new();
                match catch(std::panic::AssertUnwindSafe(|| tera.render_to(&case.templates[0].0, &ctx, &mut buf))) {
                    Err(p) => format!("panic {p}"),
                    Ok(Ok(())) => format!("ok {}", hex(&buf)),
                    Ok(Err(e)) => {
                        let msg = match e.kind() {
                            tera::ErrorKind::RenderingError(r) => r.message().to_string(),
                            _ => e.to_string(),
                        };
                        format!("err {}", classify(&msg))
                    }
                }
            }
            None => render_outcome(&tera, &case.templates[0].0, &context_of(case)),
            Some((name, None)) => render_outcome(&tera, &name, &context_of(case)),
            Some((name, Some(block))) => {
                let ctx = context_of(case);
                match catch(std::panic::AssertUnwindSafe(|| tera.render_block(&name, &block, &ctx))) {
                    Err(p) => format!("panic {p}"),
                    Ok(Ok(text)) => format!("ok {}", hex(text.as_bytes())),
                    Ok(Err(e)) => {
                        let msg = match e.kind() {
                            tera::ErrorKind::RenderingError(r) => r.message().to_string(),
                            _ => e.to_string(),
                        };
                        format!("err {}", classify(&msg))
                    }
                }
            }
        },
    }
}

fn show_outcome(o: &str) -> String {
    match o.strip_prefix("ok ") {
        Some(h) => format!("ok {:?}", String::from_utf8_lossy(&unhex(h).unwrap_or_default())),
        None => o.to_string(),
    }
}

/// The request line for the model: the REAL parser's AST of every template
fn model_request(case: &Case) -> Result<String, String> {
    if let Some((prefixes, mode, target)) = prefix_spec(case) {
        let sources = case.sources();
        let registered: Vec<String> = sources.iter().map(|(n, _)| n.clone()).filter(|n| n != "__str").collect();
        let main = if mode == "str" { "__str".to_string() } else { target.clone() };
        // every name an include (or the render call) uses that is not an exact name becomes an alias entry
        let mut wanted: Vec<String> = vec![main.clone()];
        for (_, src) in &sources {
            let mut rest = src.as_str();
            while let Some(i) = rest.find("include \"") {
                let after = &rest[i + 9..];
                if let Some(j) = after.find('"') {
                    wanted.push(after[..j].to_string());
                    rest = &after[j..];
                } else {
                    break;
                }
            }
        }
        let mut entries: Vec<(String, String)> = sources.clone();
        for w in wanted {
            if entries.iter().any(|(n, _)| *n == w) {
                continue;
            }
            if let Some(r) = resolve_by_rule(&prefixes, &registered, &w) {
                let src = sources.iter().find(|(n, _)| *n == r).unwrap().1.clone();
                entries.push((w, src));
            }
        }
        let mut s = format!("render n:{} T{}", hex(main.as_bytes()), entries.len());
        for (name, src) in entries {
            let ast = match catch(std::panic::AssertUnwindSafe(|| tera::verif_hooks::ast_wire(&src, Delimiters::default()).map_err(|e| format!("{:?}", e.kind())))) {
                Ok(r) => r?,
                Err(p) => return Err(format!("panic {p}")),
            };
            s.push_str(&format!(" n:{} 0 {}", hex(name.as_bytes()), ast));
        }
        let mut m: BTreeMap<&str, &Value> = BTreeMap::new();
        for (k, v) in &case.ctx {
            m.insert(k, v);
        }
        s.push_str(&format!(" X{}", m.len()));
        for (k, v) in m {
            s.push_str(&format!(" n:{} {}", hex(k.as_bytes()), encode(v)));
        }
        let mut g: BTreeMap<&str, &Value> = BTreeMap::new();
        for (k, v) in &case.global {
            g.insert(k, v);
        }
        s.push_str(&format!(" G{}", g.len()));
        for (k, v) in g {
            s.push_str(&format!(" n:{} {}", hex(k.as_bytes()), encode(v)));
        }
        return Ok(s);
    }
    let target = inherit_target(case);
    let mut s = match &target {
        None => format!("render n:{} T{}", hex(case.templates[0].0.as_bytes()), case.templates.len()),
        Some((name, block)) => format!(
            "renderx n:{} {} R{}",
            hex(name.as_bytes()),
            match block { Some(b) => format!("O1 n:{}", hex(b.as_bytes())), None => "O0".to_string() },
            case.templates.len()
        ),
    };
    for (name, src) in case.sources() {
        if target.is_some() {
            // `T ostr(parent) nodes components`: the whole ParserOutput (no component definitions here)
            let tw = match catch(std::panic::AssertUnwindSafe(|| tera::verif_hooks::template_wire(&src, Delimiters::default()).map_err(|e| format!("{:?}", e.kind())))) {
                Ok(r) => r?,
                Err(p) => return Err(format!("panic {p}")),
            };
            let body = tw.strip_prefix("T ").and_then(|t| t.strip_suffix(" Cs0")).ok_or_else(|| "template with component definitions".to_string())?;
            s.push_str(&format!(" n:{} {} {}", hex(name.as_bytes()), if autoescapes(&name) { 1 } else { 0 }, body));
            continue;
        }
        let ast = match catch(std::panic::AssertUnwindSafe(|| tera::verif_hooks::ast_wire(&src, Delimiters::default()).map_err(|e| format!("{:?}", e.kind())))) {
            Ok(r) => r?,
            Err(p) => return Err(format!("panic {p}")),
        };
        s.push_str(&format!(" n:{} {} {}", hex(name.as_bytes()), if autoescapes(&name) { 1 } else { 0 }, ast));
    }
    let enc_ctx = |tag: &str, c: &[(String, Value)]| {
        // later inserts win, as in Context::insert
        let mut m: BTreeMap<&str, &Value> = BTreeMap::new();
        for (k, v) in c {
            m.insert(k, v);
        }
        let mut s = format!(" {tag}{}", m.len());
        for (k, v) in m {
            s.push_str(&format!(" n:{} {}", hex(k.as_bytes()), encode(v)));
        }
        s
    };
    s.push_str(&enc_ctx("X", &ctx_by_rule(case)));
    s.push_str(&enc_ctx("G", &case.global));
    Ok(s)
}

// ------------------------------------------------------------------ generators

#[derive(Clone, Copy, PartialEq, Eq, Debug)]
enum K {
    Int,
    Float,
    Str,
    Bool,
    ArrInt,
    ArrStr,
    Map,
    Bytes,
    NoneK,
    Undef,
}
const ALL_K: [K; 10] = [K::Int, K::Float, K::Str, K::Bool, K::ArrInt, K::ArrStr, K::Map, K::Bytes, K::NoneK, K::Undef];

const STR_ALPHABET: [&str; 20] = ["a", "b", "Z", "q", "0", "7", " ", " ", "<", "&", "\"", "'", "日", "本", "🦀", "€", "x", "y", "\n", "-"];
/// characters allowed inside a template string literal (no quote, no backslash)
const LIT_ALPHABET: [&str; 14] = ["a", "b", "Z", "q", "0", "7", " ", "<", "&", "日", "🦀", "x", "'", "-"];
const MAP_KEYS: [&str; 5] = ["a", "b", "k1", "zip", "name"];
const POOL: [&str; 4] = ["p0", "p1", "p2", "p3"];

fn gen_string(rng: &mut Rng, alphabet: &[&str]) -> String {
    let n = if rng.chance(1, 8) { 0 } else { rng.below(6) + 1 };
    (0..n).map(|_| *rng.pick(alphabet)).collect()
}

fn gen_int_value(rng: &mut Rng) -> Value {
    match rng.below(20) {
        0 => Value::from(i64::MAX),
        1 => Value::from(u64::MAX),
        2 => Value::from(i128::MIN),
        3 => Value::from(u128::MAX),
        4 => Value::from(0u64),
        5 => Value::from(rng.range(-1000, 1000) as i128),
        6..=12 => Value::from(rng.range(-3, 12)),
        _ => Value::from(rng.below(9) as u64),
    }
}

fn gen_float_value(rng: &mut Rng) -> Value {
    const FS: [f64; 17] = [0.5, 1.5, -2.25, 0.1, 3.0, 1e20, 1e-7, 0.0, -0.0, 2.0, 123456.789, 1e16, 1e-17, -2e-16, 1e-300, 5e-324, 2.220446049250313e-16];
    match rng.below(24) {
        0 => Value::from(f64::NAN),
        1 => Value::from(f64::INFINITY),
        2 => Value::from(f64::from_bits(rng.next_u64())),
        _ => Value::from(*rng.pick(&FS)),
    }
}

fn gen_value(rng: &mut Rng, k: K) -> Value {
    match k {
        K::Int => gen_int_value(rng),
        K::Float => gen_float_value(rng),
        K::Str => {
            let s = gen_string(rng, &STR_ALPHABET);
            if rng.chance(1, 6) { Value::safe_string(&s) } else { Value::from(s) }
        }
        K::Bool => Value::from(rng.chance(1, 2)),
        K::ArrInt => {
            let n = if rng.chance(1, 6) { 0 } else { rng.below(4) + 1 };
            Value::from((0..n).map(|_| Value::from(rng.range(0, 6))).collect::<Vec<_>>())
        }
        K::ArrStr => {
            let n = if rng.chance(1, 6) { 0 } else { rng.below(3) + 1 };
            Value::from((0..n).map(|_| Value::from(gen_string(rng, &STR_ALPHABET))).collect::<Vec<_>>())
        }
        K::Map => {
            let mut m = tera::Map::new();
            let n = if rng.chance(1, 6) { 0 } else { rng.below(4) + 1 };
            for _ in 0..n {
                if rng.chance(1, 6) {
                    m.insert(tera::value::Key::I64(rng.range(-2, 5)), Value::from(rng.range(0, 9)));
                } else {
                    m.insert(tera::value::Key::from(rng.pick(&MAP_KEYS).to_string()), if rng.chance(1, 4) { Value::from(gen_string(rng, &STR_ALPHABET)) } else { Value::from(rng.range(0, 9)) });
                }
            }
            Value::from(m)
        }
        K::Bytes => {
            let n = rng.below(5);
            let bs: Vec<u8> = (0..n).map(|_| *rng.pick(&[0x41u8, 0x62, 0xe6, 0x97, 0xa5, 0xff, 0xc2, 0x28, 0xf0, 0x9f])).collect();
            Value::bytes(bs)
        }
        K::NoneK => Value::none(),
        K::Undef => Value::undefined(),
    }
}

/// names of the generated contexts and the kind a directed context binds them to
const CTX_VARS: [(&str, K); 14] = [
    ("i", K::Int),
    ("j", K::Int),
    ("f", K::Float),
    ("s", K::Str),
    ("t", K::Str),
    ("b", K::Bool),
    ("c", K::Bool),
    ("xs", K::ArrInt),
    ("ys", K::ArrStr),
    ("m", K::Map),
    ("by", K::Bytes),
    ("n", K::NoneK),
    ("g", K::Str),   // only in the global context
    ("gi", K::Int),  // only in the global context
];
const UNBOUND: [&str; 2] = ["u", "w"];

fn gen_contexts(rng: &mut Rng, adversarial: bool) -> (Vec<(String, Value)>, Vec<(String, Value)>) {
    let mut ctx = Vec::new();
    let mut global = Vec::new();
    for (name, k) in CTX_VARS.iter() {
        let kind = if adversarial && rng.chance(1, 3) { *rng.pick(&ALL_K) } else { *k };
        let v = gen_value(rng, kind);
        if *name == "g" || *name == "gi" {
            global.push((name.to_string(), v));
        } else {
            if adversarial && rng.chance(1, 8) {
                continue; // left unbound
            }
            ctx.push((name.to_string(), v));
            // shadowing between context and global context
            if rng.chance(1, 5) {
                global.push((name.to_string(), gen_value(rng, *k)));
            }
        }
    }
    // a nested map for `user.name`, `user.zip` (missing), `user.tags`
    let mut user = tera::Map::new();
    user.insert("name".into(), Value::from(gen_string(rng, &STR_ALPHABET)));
    user.insert("age".into(), Value::from(rng.range(0, 99)));
    user.insert("tags".into(), gen_value(rng, K::ArrStr));
    if rng.chance(1, 4) {
        user.insert("nick".into(), Value::undefined());
    }
    ctx.push(("user".into(), Value::from(user)));
    // pool names sometimes pre-exist in a context (shadowed later by assignments)
    for p in POOL.iter() {
        if rng.chance(1, 6) {
            let k = *rng.pick(&[K::Int, K::Str]);
            ctx.push((p.to_string(), gen_value(rng, k)));
        } else if rng.chance(1, 10) {
            let k = *rng.pick(&[K::Int, K::Str]);
            global.push((p.to_string(), gen_value(rng, k)));
        }
    }
    (ctx, global)
}

/// names the generator assigns to (pool names, shadowed context names, loop variables)
fn is_assignable(n: &str) -> bool {
    POOL.contains(&n) || matches!(n, "s" | "i" | "g") || ((n.starts_with('x') || n.starts_with('k') || n.starts_with('e')) && n.len() == 2 && n.as_bytes()[1].is_ascii_digit())
}

/// A render-wide assignment inside a loop whose value reads an assigned name can carry a growing
/// value from one iteration to the next (exponential work in the nesting depth): such programs are
/// not generated, and a non-returning render of one (e.g. a shrink variant) is not a verdict
fn has_growth_carrier(ss: &[St], in_loop: bool) -> bool {
    ss.iter().any(|s| match s {
        St::Set(_, e, true) if in_loop => ["p0", "p1", "p2", "p3", "s", "i", "g", "x0", "x1", "x2", "x3", "k0", "k1", "k2", "cap"].iter().any(|n| ex_mentions(e, n)),
        St::SetBlock(_, _, b, true) if in_loop => ["p0", "p1", "p2", "p3", "s", "i", "g", "cap"].iter().any(|n| stmts_mention(b, n)) || has_assignment(b),
        St::SetBlock(_, _, b, _) | St::FilterSection(_, b) => has_growth_carrier(b, in_loop),
        St::If(br, els) => br.iter().any(|(_, bd)| has_growth_carrier(bd, in_loop)) || els.as_ref().is_some_and(|e| has_growth_carrier(e, in_loop)),
        St::For(_, _, _, b, e) => has_growth_carrier(b, true) || has_growth_carrier(e, in_loop),
        _ => false,
    })
}

#[derive(Clone)]
struct Scope {
    vars: Vec<(String, K)>,
    /// lexically inside a for loop (loop.* available)
    in_loop: bool,
    /// break / continue allowed here (inside a loop with no capture in between)
    can_break: bool,
    loop_depth: usize,
}

impl Scope {
    fn base() -> Scope {
        let mut vars: Vec<(String, K)> = CTX_VARS.iter().map(|(n, k)| (n.to_string(), *k)).collect();
        vars.push(("user".into(), K::Map));
        Scope { vars, in_loop: false, can_break: false, loop_depth: 0 }
    }
    fn of_kind(&self, k: K) -> Vec<&str> {
        // the latest binding of a name decides its kind
        let mut seen = std::collections::HashSet::new();
        let mut out = Vec::new();
        for (n, kk) in self.vars.iter().rev() {
            if seen.insert(n.as_str()) && *kk == k {
                out.push(n.as_str());
            }
        }
        out
    }
    fn bind(&mut self, name: &str, k: K) {
        self.vars.push((name.to_string(), k));
    }
}

/// the PRNG behind a `RefCell` so that generator methods can draw while `self` is borrowed
struct R<'a>(std::cell::RefCell<&'a mut Rng>);
impl<'a> R<'a> {
    fn below(&self, n: usize) -> usize {
        self.0.borrow_mut().below(n)
    }
    fn chance(&self, a: u32, b: u32) -> bool {
        self.0.borrow_mut().chance(a, b)
    }
    fn range(&self, lo: i64, hi: i64) -> i64 {
        self.0.borrow_mut().range(lo, hi)
    }
    fn pick<'b, T>(&self, xs: &'b [T]) -> &'b T {
        &xs[self.below(xs.len())]
    }
    fn string(&self, alphabet: &[&str]) -> String {
        gen_string(&mut self.0.borrow_mut(), alphabet)
    }
}

struct Gen<'a> {
    rng: R<'a>,
    /// percent of expression positions filled with an expression of a random kind
    adv: u32,
    hist: BTreeMap<String, u64>,
    /// templates that may be included from the one being generated
    includable: Vec<String>,
    /// no assignments at all (included templates of the include-equals-inline stream)
    no_assign: bool,
    /// assignments bind literals to pool names only (includer of that stream)
    literal_sets: bool,
    /// never mention `loop.*`
    no_loop_atoms: bool,
}

impl<'a> Gen<'a> {
    fn count(&mut self, key: &str) {
        *self.hist.entry(format!("construct.{key}")).or_insert(0) += 1;
    }

    fn var_of(&mut self, sc: &Scope, k: K) -> Option<Ex> {
        let c = sc.of_kind(k);
        if c.is_empty() { None } else { Some(atom(c[self.rng.below(c.len())])) }
    }

    fn small_int(&mut self) -> Ex {
        let v = match self.rng.below(10) {
            0 => 0,
            1 => -1,
            2 => 100,
            _ => self.rng.range(1, 9),
        };
        if v < 0 { Ex::Un("-", b(atom(&(-v).to_string()))) } else { atom(&v.to_string()) }
    }

    fn expr(&mut self, k: K, d: usize, sc: &Scope) -> Ex {
        legal(self.expr_raw(k, d, sc))
    }

    fn expr_raw(&mut self, k: K, d: usize, sc: &Scope) -> Ex {
        let k = if self.rng.chance(self.adv, 100) { *self.rng.pick(&ALL_K) } else { k };
        match k {
            K::Int => self.int(d, sc),
            K::Float => self.float(d, sc),
            K::Str => self.string(d, sc),
            K::Bool => self.boolean(d, sc),
            K::ArrInt | K::ArrStr => self.array(k, d, sc),
            K::Map => self.map(d, sc),
            K::Bytes => atom("by"),
            K::NoneK => if self.rng.chance(1, 2) { atom("none") } else { atom("n") },
            K::Undef => self.undefined(d, sc),
        }
    }

    fn undefined(&mut self, d: usize, sc: &Scope) -> Ex {
        self.count("expr.undefined");
        match self.rng.below(8) {
            // a second level on an undefined that is not a plain path (unfused LoadAttr / subscript): an error
            7 if self.rng.chance(1, 3) => Ex::Attr(b(Ex::Index(b(atom("xs")), b(atom("99")), false)), "a".into(), self.rng.chance(1, 2)),
            7 => Ex::Attr(b(Ex::Index(b(atom("user")), b(str_lit("name")), false)), "a".into(), false),
            0 => Ex::Attr(b(atom("user")), (*self.rng.pick(&["zip", "nick"])).into(), false),
            1 => Ex::Attr(b(atom(*self.rng.pick(&UNBOUND))), "a".into(), true),
            2 => Ex::Index(b(atom("xs")), b(atom("99")), false),
            3 => Ex::Attr(b(atom("n")), "a".into(), true),
            4 => Ex::Index(b(atom(*self.rng.pick(&UNBOUND))), b(self.int(d.saturating_sub(1), sc)), true),
            _ => atom(*self.rng.pick(&UNBOUND)),
        }
    }

    fn int(&mut self, d: usize, sc: &Scope) -> Ex {
        if d == 0 || self.rng.chance(1, 3) {
            return match self.rng.below(4) {
                0 => self.var_of(sc, K::Int).unwrap_or_else(|| self.small_int()),
                1 if sc.in_loop && !self.no_loop_atoms => atom(*self.rng.pick(&["loop.index", "loop.index0", "loop.length"])),
                _ => self.small_int(),
            };
        }
        self.count("expr.int");
        match self.rng.below(14) {
            0 => Ex::Bin("+", b(self.expr(K::Int, d - 1, sc)), b(self.expr(K::Int, d - 1, sc))),
            1 => Ex::Bin("-", b(self.expr(K::Int, d - 1, sc)), b(self.expr(K::Int, d - 1, sc))),
            2 => Ex::Bin("*", b(self.expr(K::Int, d - 1, sc)), b(self.expr(K::Int, d - 1, sc))),
            3 => {
                let den = if self.rng.chance(1, 12) { self.expr(K::Int, d - 1, sc) } else { atom(&self.rng.range(1, 5).to_string()) };
                Ex::Bin(*self.rng.pick(&["//", "%"]), b(self.expr(K::Int, d - 1, sc)), b(den))
            }
            4 => Ex::Filter(b(self.expr(*self.rng.pick(&[K::ArrInt, K::ArrStr, K::Str, K::Map]), d - 1, sc)), "length".into(), vec![]),
            5 => Ex::Index(b(self.expr(K::ArrInt, d - 1, sc)), b(atom(&self.rng.range(-1, 1).to_string())), self.rng.chance(1, 5)),
            6 => Ex::Un("-", b(self.expr(K::Int, d - 1, sc))),
            7 => Ex::Ternary(b(self.expr(K::Bool, d - 1, sc)), b(self.expr(K::Int, d - 1, sc)), b(self.expr(K::Int, d - 1, sc))),
            8 => Ex::Attr(b(atom("user")), "age".into(), self.rng.chance(1, 5)),
            9 => Ex::Bin("**", b(self.expr(K::Int, d - 1, sc)), b(atom(&self.rng.below(4).to_string()))),
            10 => Ex::Filter(b(self.expr(K::ArrInt, d - 1, sc)), (*self.rng.pick(&["first", "last"])).into(), vec![]),
            11 => Ex::Filter(b(self.undefined(d - 1, sc)), "default".into(), vec![("value".into(), self.expr(K::Int, d - 1, sc))]),
            12 => Ex::Bin("or", b(self.undefined(d - 1, sc)), b(self.expr(K::Int, d - 1, sc))),
            _ => Ex::Index(b(atom("m")), b(str_lit(*self.rng.pick(&MAP_KEYS))), false),
        }
    }

    fn float(&mut self, d: usize, sc: &Scope) -> Ex {
        if d == 0 || self.rng.chance(1, 3) {
            return match self.rng.below(3) {
                0 => atom("f"),
                _ => atom(*self.rng.pick(&["0.5", "1.25", "3.0", "0.1", "10.75"])),
            };
        }
        self.count("expr.float");
        match self.rng.below(5) {
            0 => Ex::Bin("/", b(self.expr(K::Int, d - 1, sc)), b(atom(&self.rng.range(1, 7).to_string()))),
            1 => Ex::Bin(*self.rng.pick(&["+", "-", "*"]), b(self.expr(K::Float, d - 1, sc)), b(self.expr(K::Int, d - 1, sc))),
            2 => Ex::Bin(*self.rng.pick(&["+", "*", "/"]), b(self.expr(K::Float, d - 1, sc)), b(self.expr(K::Float, d - 1, sc))),
            3 => Ex::Un("-", b(self.expr(K::Float, d - 1, sc))),
            _ => Ex::Bin(*self.rng.pick(&["//", "%"]), b(self.expr(K::Float, d - 1, sc)), b(atom(*self.rng.pick(&["2", "0.5", "3"])))),
        }
    }

    fn string(&mut self, d: usize, sc: &Scope) -> Ex {
        if d == 0 || self.rng.chance(1, 3) {
            return match self.rng.below(3) {
                0 => self.var_of(sc, K::Str).unwrap_or_else(|| str_lit("lit")),
                _ => {
                    let s = self.rng.string(&LIT_ALPHABET);
                    str_lit(&s)
                }
            };
        }
        self.count("expr.str");
        match self.rng.below(13) {
            0 => Ex::Bin("~", b(self.expr(K::Str, d - 1, sc)), b(self.expr(K::Str, d - 1, sc))),
            1 => {
                let k = *self.rng.pick(&[K::Int, K::Bool, K::Float, K::NoneK, K::ArrInt, K::Undef]);
                Ex::Bin("~", b(self.expr(k, d - 1, sc)), b(self.expr(K::Str, d - 1, sc)))
            }
            2 => Ex::Filter(b(self.expr(K::Str, d - 1, sc)), (*self.rng.pick(&["upper", "lower", "trim"])).into(), vec![]),
            3 => {
                let a = if self.rng.chance(1, 3) { None } else { Some(b(atom(&self.rng.range(-3, 3).to_string()))) };
                let e = if self.rng.chance(1, 3) { None } else { Some(b(atom(&self.rng.range(-3, 4).to_string()))) };
                let st = if self.rng.chance(2, 3) { None } else { Some(b(atom(*self.rng.pick(&["-1", "2", "1", "-2"])))) };
                Ex::Slice(b(self.expr(K::Str, d - 1, sc)), a, e, st, self.rng.chance(1, 6))
            }
            4 => Ex::Index(b(self.expr(K::Str, d - 1, sc)), b(atom(&self.rng.range(-2, 2).to_string())), false),
            5 => {
                let kw = if self.rng.chance(1, 2) { vec![("sep".to_string(), str_lit(", "))] } else { vec![] };
                Ex::Filter(b(self.expr(*self.rng.pick(&[K::ArrStr, K::ArrInt]), d - 1, sc)), "join".into(), kw)
            }
            6 => Ex::Filter(b(self.expr(*self.rng.pick(&ALL_K), d - 1, sc)), "str".into(), vec![]),
            7 => Ex::Filter(b(self.undefined(d - 1, sc)), "default".into(), vec![("value".into(), self.expr(K::Str, d - 1, sc))]),
            8 => Ex::Ternary(b(self.expr(K::Bool, d - 1, sc)), b(self.expr(K::Str, d - 1, sc)), b(self.expr(K::Str, d - 1, sc))),
            9 => Ex::Attr(b(atom("user")), "name".into(), self.rng.chance(1, 4)),
            10 => Ex::Filter(b(self.expr(K::Str, d - 1, sc)), "safe".into(), vec![]),
            11 => Ex::Bin("or", b(self.expr(K::Str, d - 1, sc)), b(self.expr(K::Str, d - 1, sc))),
            _ => Ex::Index(b(self.expr(K::ArrStr, d - 1, sc)), b(atom("0")), false),
        }
    }

    fn boolean(&mut self, d: usize, sc: &Scope) -> Ex {
        if d == 0 || self.rng.chance(1, 4) {
            return match self.rng.below(4) {
                0 => atom("true"),
                1 => atom("false"),
                2 if sc.in_loop && !self.no_loop_atoms => atom(*self.rng.pick(&["loop.first", "loop.last"])),
                _ => self.var_of(sc, K::Bool).unwrap_or_else(|| atom("true")),
            };
        }
        self.count("expr.bool");
        match self.rng.below(14) {
            0 => Ex::Bin(*self.rng.pick(&["<", ">", "<=", ">=", "==", "!="]), b(self.expr(K::Int, d - 1, sc)), b(self.expr(K::Int, d - 1, sc))),
            1 => Ex::Bin(*self.rng.pick(&["<", ">=", "=="]), b(self.expr(K::Int, d - 1, sc)), b(self.expr(K::Float, d - 1, sc))),
            2 => Ex::Bin(*self.rng.pick(&["==", "!=", "<", ">"]), b(self.expr(K::Str, d - 1, sc)), b(self.expr(K::Str, d - 1, sc))),
            3 => Ex::Un("not", b(self.expr(K::Bool, d - 1, sc))),
            4 => Ex::Bin("and", b(self.expr(K::Bool, d - 1, sc)), b(self.expr(K::Bool, d - 1, sc))),
            5 => Ex::Bin("or", b(self.expr(K::Bool, d - 1, sc)), b(self.expr(K::Bool, d - 1, sc))),
            6 => {
                let k = *self.rng.pick(&ALL_K);
                Ex::Test(b(self.expr(k, d - 1, sc)), (*self.rng.pick(&["defined", "undefined"])).into(), self.rng.chance(1, 4))
            }
            7 => Ex::Test(b(self.expr(K::Int, d - 1, sc)), (*self.rng.pick(&["odd", "even"])).into(), false),
            8 => Ex::Bin(*self.rng.pick(&["in", "not in"]), b(self.expr(K::Str, d - 1, sc)), b(self.expr(K::Str, d - 1, sc))),
            9 => Ex::Bin(*self.rng.pick(&["in", "not in"]), b(self.expr(K::Int, d - 1, sc)), b(self.expr(K::ArrInt, d - 1, sc))),
            10 => Ex::Bin("in", b(str_lit(*self.rng.pick(&MAP_KEYS))), b(self.expr(K::Map, d - 1, sc))),
            11 => {
                let k = *self.rng.pick(&ALL_K);
                Ex::Test(b(self.expr(k, d - 1, sc)), (*self.rng.pick(&["string", "number", "integer", "float", "bool", "array", "map", "iterable", "none"])).into(), false)
            }
            12 => Ex::Bin("==", b(self.expr(K::ArrInt, d - 1, sc)), b(self.expr(K::ArrInt, d - 1, sc))),
            _ => {
                // truthiness of any kind, through a double negation
                let k = *self.rng.pick(&ALL_K);
                Ex::Un("not", b(Ex::Un("not", b(self.expr(k, d - 1, sc)))))
            }
        }
    }

    fn array(&mut self, k: K, d: usize, sc: &Scope) -> Ex {
        let elem = if k == K::ArrInt { K::Int } else { K::Str };
        if d == 0 || self.rng.chance(1, 3) {
            return match self.rng.below(3) {
                0 => {
                    let n = self.rng.below(4);
                    Ex::Array((0..n).map(|_| (false, if elem == K::Int { self.small_int() } else { str_lit(&self.rng.string(&LIT_ALPHABET)) })).collect())
                }
                _ => self.var_of(sc, k).unwrap_or_else(|| Ex::Array(vec![])),
            };
        }
        self.count("expr.array");
        match self.rng.below(8) {
            0 => {
                let n = self.rng.below(4);
                Ex::Array((0..n).map(|_| (false, self.expr(elem, d - 1, sc))).collect())
            }
            1 => Ex::Array(vec![(true, self.array(k, 0, sc)), (false, self.expr(elem, d - 1, sc))]),
            2 if k == K::ArrInt => {
                let mut kw = vec![("end".to_string(), atom(&self.rng.below(5).to_string()))];
                if self.rng.chance(1, 3) {
                    kw.push(("start".to_string(), atom(&self.rng.below(3).to_string())));
                }
                Ex::Call("range".into(), kw)
            }
            3 => {
                let mut inner = sc.clone();
                let var = format!("e{}", self.rng.below(2));
                inner.bind(&var, elem);
                let body = self.expr(elem, d - 1, &inner);
                let cond = if self.rng.chance(1, 2) { Some(b(self.expr(K::Bool, d - 1, &inner))) } else { None };
                Ex::Compr(b(body), var, b(self.expr(k, d - 1, sc)), cond)
            }
            4 => {
                let a = if self.rng.chance(1, 3) { None } else { Some(b(atom(&self.rng.range(-2, 2).to_string()))) };
                let e = if self.rng.chance(1, 2) { None } else { Some(b(atom(&self.rng.range(-2, 3).to_string()))) };
                let st = if self.rng.chance(3, 4) { None } else { Some(b(atom(*self.rng.pick(&["-1", "2"])))) };
                Ex::Slice(b(self.expr(k, d - 1, sc)), a, e, st, false)
            }
            5 => Ex::Ternary(b(self.expr(K::Bool, d - 1, sc)), b(self.expr(k, d - 1, sc)), b(self.expr(k, d - 1, sc))),
            6 if k == K::ArrStr => Ex::Attr(b(atom("user")), "tags".into(), false),
            _ => self.var_of(sc, k).unwrap_or_else(|| Ex::Array(vec![])),
        }
    }

    fn map(&mut self, d: usize, sc: &Scope) -> Ex {
        if d == 0 || self.rng.chance(1, 2) {
            return atom(*self.rng.pick(&["m", "user"]));
        }
        self.count("expr.map");
        let n = self.rng.below(3);
        let mut items: Vec<(String, Ex)> = (0..n).map(|_| (self.rng.pick(&MAP_KEYS).to_string(), self.expr(K::Int, d - 1, sc))).collect();
        if self.rng.chance(1, 2) {
            let pos = self.rng.below(items.len() + 1);
            items.insert(pos, ("...".into(), self.expr(K::Map, d - 1, sc)));
        }
        Ex::MapLit(items)
    }

    /// something that prints (or errors) — any kind
    fn printable(&mut self, d: usize, sc: &Scope) -> Ex {
        let k = *self.rng.pick(&[K::Int, K::Int, K::Str, K::Str, K::Str, K::Bool, K::Float, K::ArrInt, K::ArrStr, K::Map, K::Bytes, K::NoneK]);
        self.expr(k, d, sc)
    }

    /// `[{{ name | default(value="~") }}]`: shows what a name resolves to without ever failing
    fn probe(&mut self, sc: &Scope) -> Vec<St> {
        self.count("stmt.probe");
        let mut names: Vec<String> = POOL.iter().map(|s| s.to_string()).collect();
        names.extend(["s", "i", "g", "gi", "x0", "x1", "k0"].iter().map(|s| s.to_string()));
        let name = names[self.rng.below(names.len())].clone();
        let _ = sc;
        vec![
            St::Text("[".into()),
            St::Print(Ex::Filter(b(atom(&name)), "default".into(), vec![("value".into(), str_lit("~"))])),
            St::Text("]".into()),
        ]
    }

    fn text(&mut self) -> St {
        const T: [&str; 10] = ["a", " ", "\n", "<b>", "x=", "&", "日本", "🦀", "-", "}"];
        let n = self.rng.below(3) + 1;
        St::Text((0..n).map(|_| *self.rng.pick(&T)).collect())
    }

    fn stmts(&mut self, depth: usize, n: usize, sc: &Scope) -> Vec<St> {
        let mut sc = sc.clone();
        let mut out = Vec::new();
        for _ in 0..n {
            let choice = self.rng.below(if depth == 0 { 6 } else { 13 });
            match choice {
                0 => out.push(self.text()),
                1 | 2 => {
                    self.count("stmt.print");
                    out.push(St::Print(self.printable(2, &sc)));
                }
                3 => out.extend(self.probe(&sc)),
                4 | 5 | 6 if self.no_assign => out.extend(self.probe(&sc)),
                4 | 5 if self.literal_sets => {
                    let global = self.rng.chance(1, 3);
                    self.count(if global { "stmt.set_global" } else { "stmt.set" });
                    let name = self.rng.pick(&POOL).to_string();
                    let (e, k) = if self.rng.chance(1, 2) { (self.small_int(), K::Int) } else { (str_lit(&self.rng.string(&LIT_ALPHABET)), K::Str) };
                    let e = match e { Ex::Un(_, x) => *x, e => e };
                    out.push(St::Set(name.clone(), e, global));
                    sc.bind(&name, k);
                }
                4 | 5 => {
                    // assignment; the name may shadow a context variable or a loop variable
                    let global = self.rng.chance(1, 3);
                    self.count(if global { "stmt.set_global" } else { "stmt.set" });
                    let name: String = match self.rng.below(8) {
                        0 => "s".into(),
                        1 => "i".into(),
                        2 if sc.loop_depth > 0 => format!("x{}", sc.loop_depth - 1),
                        3 => "g".into(),
                        _ => self.rng.pick(&POOL).to_string(),
                    };
                    let k = *self.rng.pick(&[K::Int, K::Str, K::Str, K::Bool, K::ArrInt, K::Undef, K::NoneK]);
                    let k = if k == K::Undef && !self.rng.chance(1, 4) { K::Int } else { k };
                    // an assignment that survives the iteration must not feed on assigned names, or a
                    // few nested loops make the value (and the render time) grow exponentially
                    let e = if global && sc.loop_depth > 0 {
                        let mut frozen = sc.clone();
                        frozen.vars.retain(|(n, _)| !is_assignable(n));
                        self.expr(k, 2, &frozen)
                    } else {
                        self.expr(k, 2, &sc)
                    };
                    out.push(St::Set(name.clone(), e, global));
                    sc.bind(&name, k);
                }
                6 => {
                    let global = self.rng.chance(1, 4);
                    self.count(if global { "stmt.set_global_block" } else { "stmt.set_block" });
                    let name = self.rng.pick(&POOL).to_string();
                    let filters: Vec<String> = (0..self.rng.below(3)).map(|_| self.rng.pick(&["upper", "lower", "trim"]).to_string()).collect();
                    let mut inner = sc.clone();
                    inner.can_break = false;
                    let body = if global && sc.loop_depth > 0 {
                        // the block form of set_global inside a loop: its body reads no assignable name
                        // (otherwise the value can grow exponentially from iteration to iteration)
                        self.count("stmt.set_global_block_in_loop");
                        let mut frozen = sc.clone();
                        frozen.vars.retain(|(n, _)| !is_assignable(n) || (n.starts_with('x') && n.len() == 2));
                        let e = self.expr(*self.rng.pick(&[K::Int, K::Str, K::Bool]), 1, &frozen);
                        let mut b2 = vec![self.text(), St::Print(e)];
                        if sc.loop_depth > 0 && self.rng.chance(1, 2) {
                            b2.push(St::Print(atom(&format!("x{}", sc.loop_depth - 1))));
                        }
                        b2
                    } else {
                        self.stmts(depth - 1, self.rng.below(3) + 1, &inner)
                    };
                    out.push(St::SetBlock(name.clone(), filters, body, global));
                    sc.bind(&name, K::Str);
                }
                7 | 8 => {
                    self.count("stmt.if");
                    let nb = self.rng.below(3) + 1;
                    let mut branches = Vec::new();
                    for _ in 0..nb {
                        let cond = if self.rng.chance(1, 3) { self.printable(1, &sc) } else { self.expr(K::Bool, 2, &sc) };
                        let mut body = self.stmts(depth - 1, self.rng.below(3), &sc);
                        if sc.can_break && self.rng.chance(1, 3) {
                            self.count("stmt.break_continue");
                            body.push(if self.rng.chance(1, 2) { St::Break } else { St::Continue });
                        }
                        branches.push((cond, body));
                    }
                    let els = if self.rng.chance(1, 2) { Some(self.stmts(depth - 1, self.rng.below(3), &sc)) } else { None };
                    out.push(St::If(branches, els));
                }
                9 | 10 => {
                    self.count("stmt.for");
                    let mut inner = sc.clone();
                    inner.in_loop = true;
                    inner.can_break = true;
                    inner.loop_depth += 1;
                    let v = format!("x{}", sc.loop_depth);
                    let (key, target) = match self.rng.below(8) {
                        0 => {
                            inner.bind(&v, K::Int);
                            let kname = format!("k{}", sc.loop_depth);
                            inner.bind(&kname, K::Str);
                            self.count("stmt.for.keyvalue");
                            (Some(kname), self.expr(K::Map, 1, &sc))
                        }
                        1 => {
                            inner.bind(&v, K::Str);
                            self.count("stmt.for.string");
                            (None, self.expr(K::Str, 1, &sc))
                        }
                        2 => {
                            inner.bind(&v, K::Int);
                            self.count("stmt.for.map_or_bytes");
                            (None, if self.rng.chance(1, 2) { atom("by") } else { self.expr(K::Map, 1, &sc) })
                        }
                        3 | 4 => {
                            inner.bind(&v, K::Str);
                            (None, self.expr(K::ArrStr, 2, &sc))
                        }
                        _ => {
                            inner.bind(&v, K::Int);
                            (None, self.expr(K::ArrInt, 2, &sc))
                        }
                    };
                    let body = self.stmts(depth - 1, self.rng.below(4) + 1, &inner);
                    let els = if self.rng.chance(1, 3) { self.stmts(depth - 1, self.rng.below(2) + 1, &sc) } else { vec![] };
                    out.push(St::For(key, v, target, body, els));
                }
                11 => {
                    if self.includable.is_empty() {
                        out.push(self.text());
                    } else {
                        self.count("stmt.include");
                        let n = self.includable[self.rng.below(self.includable.len())].clone();
                        out.push(St::Include(n));
                    }
                }
                _ => {
                    self.count("stmt.filter_section");
                    let mut inner = sc.clone();
                    inner.can_break = false;
                    let body = self.stmts(depth - 1, self.rng.below(3) + 1, &inner);
                    out.push(St::FilterSection(self.rng.pick(&["upper", "lower", "trim", "safe", "length"]).to_string(), body));
                }
            }
        }
        out
    }
}

/// One random program: a main template, up to two templates it (transitively) includes, contexts
fn gen_program(rng: &mut Rng, adversarial: bool, autoescape: bool, restricted: bool, hist: &mut BTreeMap<String, u64>) -> Case {
    let suffix = if autoescape { ".html" } else { "" };
    let n_inc = if restricted { 1 + rng.below(2) } else { rng.below(3) };
    let mut templates: Vec<(String, Vec<St>)> = Vec::new();
    let mut includable: Vec<String> = Vec::new();
    // generate the innermost include first so that include chains are acyclic
    for k in (0..n_inc).rev() {
        let name = format!("inc{k}{}", if !restricted && rng.chance(1, 4) { ".html" } else { suffix });
        let mut g = Gen { rng: R(std::cell::RefCell::new(&mut *rng)), adv: if adversarial { 12 } else { 1 }, hist: std::mem::take(hist), includable: includable.clone(), no_assign: restricted, literal_sets: false, no_loop_atoms: restricted };
        // an included template sees the includer's loop variables; say so to the generator
        let mut sc = Scope::base();
        sc.bind("x0", K::Int);
        let n = g.rng.below(4) + 1;
        let body = g.stmts(2, n, &sc);
        *hist = g.hist;
        templates.push((name.clone(), body));
        includable.push(name);
    }
    let mut g = Gen { rng: R(std::cell::RefCell::new(&mut *rng)), adv: if adversarial { 12 } else { 1 }, hist: std::mem::take(hist), includable, no_assign: false, literal_sets: restricted, no_loop_atoms: false };
    let n = g.rng.below(6) + 2;
    let depth = 2 + g.rng.below(3);
    let body = g.stmts(depth, n, &Scope::base());
    *hist = g.hist;
    templates.push((format!("main{suffix}"), body));
    templates.reverse();
    let (ctx, global) = gen_contexts(rng, adversarial);
    Case { templates, ctx, global, stream: if restricted { "include_inline".into() } else if adversarial { "adversarial".into() } else if autoescape { "autoescape".into() } else { "directed".into() } }
}

// ------------------------------------------------------------------ direct oracles

#[derive(Clone, Debug)]
enum Expect {
    /// must render exactly this text
    Text(String),
    /// must be an error of this class
    ErrClass(&'static str),
    /// must be an error (whatever class)
    AnyErr,
    /// must render (whatever text)
    NoErr,
    /// must have the same outcome as this other program (text or error class)
    SameAs(Box<Case>),
    /// same as the other program, upper-cased when it renders
    UpperOf(Box<Case>),
}

#[derive(Clone, Debug)]
struct Check {
    oracle: &'static str,
    case: Case,
    expect: Expect,
}

/// Truthiness as documented (independent of `Value::is_truthy`)
fn truthy(v: &Value) -> bool {
    use tera::value::ValueKind as VK;
    match v.kind() {
        VK::Undefined | VK::None => false,
        VK::Bool => v.as_bool().unwrap(),
        VK::U64 | VK::U128 => v.as_u128().unwrap() != 0,
        VK::I64 | VK::I128 => v.as_i128().map(|x| x != 0).unwrap_or(true),
        VK::F64 => v.as_f64().unwrap() != 0.0,
        VK::String => !v.as_str().unwrap().is_empty(),
        VK::Array => !v.as_array().unwrap().is_empty(),
        VK::Map => !v.as_map().unwrap().is_empty(),
        VK::Bytes => !v.as_bytes().unwrap().is_empty(),
        _ => true,
    }
}

fn tpl(src: &str) -> Vec<St> {
    // oracle programs are written as source text; `Text` is printed verbatim
    vec![St::Text(src.to_string())]
}

fn simple_case(stream: &str, src: &str, ctx: Vec<(String, Value)>, global: Vec<(String, Value)>) -> Case {
    Case { templates: vec![("main".into(), tpl(src))], ctx, global, stream: stream.into() }
}

const THROW: &str = "throw(message=\"THROWN\")";

/// values at the boundary of truthiness, of every kind (a float is falsy iff it is +0.0 or -0.0:
/// tiny, subnormal and NaN floats are truthy; "0" is a non-empty string; empty containers are falsy)
fn boundary_ctx() -> Vec<(String, Value)> {
    let mut one_map = tera::Map::new();
    one_map.insert("a".into(), Value::from(0));
    vec![
        ("f_tiny".into(), Value::from(1e-17)),
        ("f_negtiny".into(), Value::from(-2e-16)),
        ("f_eps".into(), Value::from(f64::EPSILON)),
        ("f_small".into(), Value::from(1e-300)),
        ("f_sub".into(), Value::from(5e-324)),
        ("f_nan".into(), Value::from(f64::NAN)),
        ("f_inf".into(), Value::from(f64::NEG_INFINITY)),
        ("f_zero".into(), Value::from(0.0)),
        ("f_negzero".into(), Value::from(-0.0)),
        ("s_zero".into(), Value::from("0")),
        ("s_space".into(), Value::from(" ")),
        ("s_empty".into(), Value::from("")),
        ("s_safe_empty".into(), Value::safe_string("")),
        ("u128_zero".into(), Value::from(0u128)),
        ("i128_zero".into(), Value::from(0i128)),
        ("i128_min".into(), Value::from(i128::MIN)),
        ("u128_max".into(), Value::from(u128::MAX)),
        ("a_empty".into(), Value::from(Vec::<Value>::new())),
        ("a_zero".into(), Value::from(vec![Value::from(0)])),
        ("a_undef".into(), Value::from(vec![Value::undefined()])),
        ("m_empty".into(), Value::from(tera::Map::new())),
        ("m_one".into(), Value::from(one_map)),
        ("y_empty".into(), Value::bytes(Vec::<u8>::new())),
        ("y_zero".into(), Value::bytes(vec![0u8])),
        ("b_false".into(), Value::from(false)),
        ("v_none".into(), Value::none()),
    ]
}

/// expressions whose value sits at such a boundary, with the truthiness the documentation gives
const BOUNDARY_EXPRS: [(&str, bool); 12] = [
    ("(f_tiny * 1)", true),
    ("(f_tiny - f_tiny)", false),
    ("(1 / 100000000000000000)", true),
    ("(f_nan + 1)", true),
    ("(f_sub / 2)", false),
    ("(- f_negzero)", false),
    ("(0 * f_negtiny)", false),
    ("(f_eps / 2)", true),
    ("(s_empty ~ s_empty)", false),
    ("(s_empty ~ 0)", true),
    ("[...a_empty]", false),
    ("(i128_zero + u128_zero)", false),
];

fn lookup<'a>(ctx: &'a [(String, Value)], global: &'a [(String, Value)], name: &str) -> Value {
    if let Some((_, v)) = ctx.iter().rev().find(|(k, _)| k == name) {
        return v.clone();
    }
    if let Some((_, v)) = global.iter().rev().find(|(k, _)| k == name) {
        return v.clone();
    }
    Value::undefined()
}

/// (a) and/or/ternary evaluate lazily: `throw()` / an erroring lookup in the position that must not
/// be evaluated never fires, in the position that must be evaluated it does
fn oracle_short_circuit(rng: &mut Rng, out: &mut Vec<Check>) {
    let (mut ctx, global) = gen_contexts(rng, true);
    ctx.extend(boundary_ctx());
    let mut names: Vec<String> = ctx.iter().map(|(k, _)| k.clone()).collect();
    names.push("u".into());
    names.push("g".into());
    names.extend(["0", "1", "\"\"", "\"x\"", "[]", "[0]", "none", "true", "false", "0.0", "\"0\"", "-0.0", "0.00000000000000001"].iter().map(|s| s.to_string()));
    names.extend(BOUNDARY_EXPRS.iter().map(|(e, _)| e.to_string()));
    for l in names {
        let lv = match l.as_str() {
            "0" | "\"\"" | "[]" | "none" | "false" | "0.0" | "-0.0" => Value::from(false),
            "1" | "\"x\"" | "[0]" | "true" | "\"0\"" | "0.00000000000000001" => Value::from(true),
            e if BOUNDARY_EXPRS.iter().any(|(x, _)| *x == e) => Value::from(BOUNDARY_EXPRS.iter().find(|(x, _)| *x == e).unwrap().1),
            _ => lookup(&ctx, &global, &l),
        };
        let t = truthy(&lv);
        let mk = |src: String| simple_case("oracle.short_circuit", &src, ctx.clone(), global.clone());
        let plain = mk(format!("{{{{ {l} }}}}"));
        for bomb in [THROW, "u.a.b"] {
            let fired: &'static str = if bomb == THROW { "thrown" } else { "undefined" };
            // and
            let e = if t { Expect::ErrClass(fired) } else { Expect::SameAs(Box::new(plain.clone())) };
            out.push(Check { oracle: "short_circuit.and", case: mk(format!("{{{{ {l} and {bomb} }}}}")), expect: e });
            // or
            let e = if t { Expect::SameAs(Box::new(plain.clone())) } else { Expect::ErrClass(fired) };
            out.push(Check { oracle: "short_circuit.or", case: mk(format!("{{{{ {l} or {bomb} }}}}")), expect: e });
            // inside a condition
            let e = if t { Expect::ErrClass(fired) } else { Expect::Text("B".into()) };
            out.push(Check { oracle: "short_circuit.if_and", case: mk(format!("{{% if {l} and {bomb} %}}A{{% else %}}B{{% endif %}}")), expect: e });
            let e = if t { Expect::Text("A".into()) } else { Expect::ErrClass(fired) };
            out.push(Check { oracle: "short_circuit.if_or", case: mk(format!("{{% if {l} or {bomb} %}}A{{% else %}}B{{% endif %}}")), expect: e });
            // ternary
            let e = if t { Expect::Text("A".into()) } else { Expect::ErrClass(fired) };
            out.push(Check { oracle: "ternary.false_branch", case: mk(format!("{{{{ \"A\" if {l} else {bomb} }}}}")), expect: e });
            let e = if t { Expect::ErrClass(fired) } else { Expect::Text("B".into()) };
            out.push(Check { oracle: "ternary.true_branch", case: mk(format!("{{{{ {bomb} if {l} else \"B\" }}}}")), expect: e });
            // chains: the first deciding operand ends the evaluation
            let e = Expect::Text("Z".into());
            out.push(Check { oracle: "short_circuit.chain", case: mk(format!("{{{{ ({l} and \"\" and {bomb}) or ({l} or true or {bomb}) and \"Z\" }}}}")), expect: e });
            // in an assignment
            let e = if t { Expect::ErrClass(fired) } else { Expect::Text("ok".into()) };
            out.push(Check { oracle: "short_circuit.set", case: mk(format!("{{% set r = {l} and {bomb} %}}ok")), expect: e });
        }
    }
}

/// (b) if / elif / else renders exactly the first truthy branch; later conditions are not evaluated
fn oracle_if(rng: &mut Rng, out: &mut Vec<Check>) {
    let (mut ctx, global) = gen_contexts(rng, true);
    ctx.extend(boundary_ctx());
    let names: Vec<String> = ctx.iter().map(|(k, _)| k.clone()).chain(["u".to_string(), "g".to_string()]).collect();
    // every boundary value on its own: if / not / ternary agree with the documented truthiness
    for (name, v) in boundary_ctx() {
        let t = truthy(&v);
        out.push(Check {
            oracle: "truthiness.boundary_values",
            case: simple_case("oracle.if", &format!("{{% if {name} %}}T{{% else %}}F{{% endif %}}/{{{{ not {name} }}}}/{{{{ \"T\" if {name} else \"F\" }}}}/{{% if not {name} %}}n{{% elif {name} %}}y{{% endif %}}"), ctx.clone(), global.clone()),
            expect: Expect::Text(format!("{}/{}/{}/{}", if t { "T" } else { "F" }, !t, if t { "T" } else { "F" }, if t { "y" } else { "n" })),
        });
    }
    for (e, t) in BOUNDARY_EXPRS {
        out.push(Check {
            oracle: "truthiness.boundary_values",
            case: simple_case("oracle.if", &format!("{{% if {e} %}}T{{% else %}}F{{% endif %}}/{{{{ not {e} }}}}/{{{{ \"T\" if {e} else \"F\" }}}}"), ctx.clone(), global.clone()),
            expect: Expect::Text(format!("{}/{}/{}", if t { "T" } else { "F" }, !t, if t { "T" } else { "F" })),
        });
    }
    for _ in 0..40 {
        let n = rng.below(4) + 1;
        let conds: Vec<String> = (0..n).map(|_| names[rng.below(names.len())].clone()).collect();
        let first = conds.iter().position(|c| truthy(&lookup(&ctx, &global, c)));
        let has_else = rng.chance(1, 2);
        let mut src = String::new();
        for (i, c) in conds.iter().enumerate() {
            // conditions after the deciding one may be bombs
            let c = if first.is_some_and(|f| i > f) && rng.chance(1, 2) { THROW.to_string() } else { c.clone() };
            src.push_str(&format!("{{% {} {c} %}}<{i}>", if i == 0 { "if" } else { "elif" }));
        }
        if has_else {
            src.push_str("{% else %}<E>");
        }
        src.push_str("{% endif %}.");
        let exp = match first {
            Some(i) => format!("<{i}>."),
            None => if has_else { "<E>.".to_string() } else { ".".to_string() },
        };
        out.push(Check { oracle: "if.first_truthy", case: simple_case("oracle.if", &src, ctx.clone(), global.clone()), expect: Expect::Text(exp) });
    }
}

/// (c) exactly one level of undefined
fn oracle_undefined(rng: &mut Rng, out: &mut Vec<Check>) {
    let (mut ctx, global) = gen_contexts(rng, false);
    // make sure the names used below mean what the table assumes
    ctx.retain(|(k, _)| k != "u" && k != "w");
    let name = "Zoé".to_string();
    let mut user = tera::Map::new();
    user.insert("name".into(), Value::from(name.clone()));
    // a field that exists and holds an explicit undefined (the F3 shape)
    user.insert("nick".into(), Value::undefined());
    ctx.push(("user".into(), Value::from(user)));
    ctx.push(("n".into(), Value::none()));
    ctx.push(("xs".into(), Value::from(vec![Value::from(4), Value::from(5)])));
    let err: [&str; 34] = [
        "{{ user.nick }}", "{{ user[\"nick\"] }}", "{{ user.nick.a }}", "{{ user.nick + 1 }}", "{% set m = {\"k\": u} %}{{ m.k }}", "{% for x in [u] %}{{ x }}{% endfor %}",
        // accesses the optimiser cannot fuse into a path load (the base is not a plain name)
        "{{ xs[99].a }}", "{{ xs[99].a is defined }}", "{{ user[\"zip\"].a }}", "{{ xs[99][0] }}", "{{ user[\"zip\"][1:] }}", "{{ xs[99].a | default(value=1) }}",
        "{{ u }}", "{{ user.zip }}", "{{ u + 1 }}", "{{ 1 * user.zip }}", "{{ 2 - u }}", "{{ u / 2 }}", "{{ u // 2 }}", "{{ u % 2 }}", "{{ u ** 2 }}", "{{ -u }}", "{{ - user.zip }}",
        "{{ u.a }}", "{{ user.zip.a }}", "{{ u[0] }}", "{{ user.zip[0] }}", "{{ u.a is defined }}", "{{ user.zip.zap is defined }}",
        "{{ u.a | default(value=1) }}", "{{ u.a or 1 }}", "{{ xs[u] }}", "{{ u[1:] }}", "{% for x in u %}{% endfor %}",
    ];
    for src in err {
        out.push(Check { oracle: "undefined.error", case: simple_case("oracle.undefined", src, ctx.clone(), global.clone()), expect: Expect::AnyErr });
    }
    let ok: Vec<(&str, String)> = vec![
        ("{{ u is defined }}", "false".into()),
        ("{{ user.zip is defined }}", "false".into()),
        ("{{ user.name is defined }}", "true".into()),
        ("{{ user.nick is defined }}", "false".into()),
        ("{{ user.nick | default(value=\"d\") }}", "d".into()),
        ("{{ user.nick or \"d\" }}", "d".into()),
        ("{{ user?.nick?.a is defined }}", "false".into()),
        ("{% set m = {\"k\": u} %}{{ m.k is defined }}/{{ m | length }}", "false/1".into()),
        ("{{ u is undefined }}", "true".into()),
        ("{{ u | default(value=\"d\") }}", "d".into()),
        ("{{ user.zip | default(value=\"d\") }}", "d".into()),
        ("{{ u or \"d\" }}", "d".into()),
        ("{{ user.zip or \"d\" }}", "d".into()),
        ("{{ u?.a is defined }}", "false".into()),
        ("{{ u?.a | default(value=\"d\") }}", "d".into()),
        ("{{ u?.a or \"d\" }}", "d".into()),
        ("{{ u?[0] is defined }}", "false".into()),
        ("{{ u?[\"k\"] | default(value=\"d\") }}", "d".into()),
        ("{{ n?.a is defined }}", "false".into()),
        ("{{ n?[0] is defined }}", "false".into()),
        ("{{ n?[1:] is defined }}", "false".into()),
        ("{{ u?[1:] is defined }}", "false".into()),
        ("{{ user?.name }}", name.clone()),
        ("{{ user?.zip is defined }}", "false".into()),
        ("{{ u?.a?.b is defined }}", "false".into()),
        ("{{ user?.zip?.zap is defined }}", "false".into()),
        ("{{ xs?[1] }}", "5".into()),
        ("{{ xs?[7] is defined }}", "false".into()),
        ("{% if u %}a{% else %}b{% endif %}", "b".into()),
        ("{% if user.zip %}a{% else %}b{% endif %}", "b".into()),
        ("{{ \"x\" if u else \"y\" }}", "y".into()),
        ("{{ not u }}", "true".into()),
    ];
    for (src, exp) in ok {
        out.push(Check { oracle: "undefined.tolerated", case: simple_case("oracle.undefined", src, ctx.clone(), global.clone()), expect: Expect::Text(exp) });
    }
    // optional access does not hide errors on a base that is there
    for src in ["{{ xs?[\"a\"] }}", "{{ user?[[1]] }}", "{{ xs?[1:\"a\"] }}", "{{ user?.name.a.b }}"] {
        out.push(Check { oracle: "undefined.optional_keeps_errors", case: simple_case("oracle.undefined", src, ctx.clone(), global.clone()), expect: Expect::AnyErr });
    }
}

fn kind_values(k: K) -> Vec<Value> {
    match k {
        K::Int => vec![Value::from(3i64), Value::from(2u64), Value::from(5u128), Value::from(-4i128)],
        K::Float => vec![Value::from(1.5)],
        K::Str => vec![Value::from("ab"), Value::safe_string("b")],
        K::Bool => vec![Value::from(true), Value::from(false)],
        K::ArrInt => vec![Value::from(vec![Value::from(1), Value::from(2)])],
        K::ArrStr => vec![Value::from(vec![Value::from("a")])],
        K::Map => {
            let mut m = tera::Map::new();
            m.insert("a".into(), Value::from(1));
            vec![Value::from(m)]
        }
        K::Bytes => vec![Value::bytes(vec![1u8, 2])],
        K::NoneK => vec![Value::none()],
        K::Undef => vec![Value::undefined()],
    }
}

/// What the documentation promises for `a OP b`: Some(true) = must be an error, Some(false) = must
/// not be one, None = not asserted here (left to the model comparison)
fn doc_says_error(op: &str, ka: K, kb: K) -> Option<bool> {
    let num = |k: K| k == K::Int || k == K::Float;
    match op {
        "+" | "-" | "*" | "/" | "//" | "%" | "**" => Some(!(num(ka) && num(kb))),
        "<" | ">" | "<=" | ">=" => {
            if num(ka) && num(kb) {
                Some(false)
            } else if ka == kb && matches!(ka, K::Str | K::Bool) {
                Some(false)
            } else if ka == kb || (matches!(ka, K::ArrInt | K::ArrStr) && matches!(kb, K::ArrInt | K::ArrStr)) {
                None
            } else {
                Some(true)
            }
        }
        "==" | "!=" | "and" | "or" => Some(false),
        // `~` converts both operands to text; what it does with an undefined operand is not documented
        "~" => if ka == K::Undef || kb == K::Undef { None } else { Some(false) },
        "in" | "not in" => Some(!matches!(kb, K::ArrInt | K::ArrStr | K::Str | K::Map)),
        _ => None,
    }
}

/// (d) operand kinds: every operator on every pair of kinds
fn oracle_type_errors(out: &mut Vec<Check>) {
    const OPS: [&str; 17] = ["+", "-", "*", "/", "//", "%", "**", "<", ">", "<=", ">=", "==", "!=", "~", "in", "not in", "and"];
    for op in OPS {
        for ka in ALL_K {
            for kb in ALL_K {
                for a in kind_values(ka) {
                    for bv in kind_values(kb) {
                        let ctx = vec![("a".to_string(), a.clone()), ("b".to_string(), bv.clone())];
                        let case = simple_case("oracle.type_errors", &format!("{{% set r = a {op} b %}}ok"), ctx, vec![]);
                        let expect = match doc_says_error(op, ka, kb) {
                            Some(true) => Expect::AnyErr,
                            Some(false) => Expect::Text("ok".into()),
                            None => continue,
                        };
                        out.push(Check { oracle: "type_errors.binary", case, expect });
                    }
                }
            }
        }
    }
    // membership and equality are by value across the numeric encodings
    let threes = [Value::from(3u64), Value::from(3i64), Value::from(3u128), Value::from(3i128), Value::from(3.0f64)];
    for a in &threes {
        for bv in &threes {
            let ctx = vec![("a".to_string(), a.clone()), ("b".to_string(), Value::from(vec![Value::from(9), bv.clone()])), ("c".to_string(), bv.clone())];
            out.push(Check { oracle: "in.by_value_across_encodings", case: simple_case("oracle.type_errors", "{{ a in b }}/{{ a not in b }}/{{ a == c }}/{{ (a + 1) in b }}/{{ 3 in b }}", ctx, vec![]), expect: Expect::Text("true/false/true/false/true".into()) });
        }
    }
    for ka in ALL_K {
        for a in kind_values(ka) {
            let ctx = vec![("a".to_string(), a.clone())];
            let num = ka == K::Int || ka == K::Float;
            out.push(Check {
                oracle: "type_errors.unary",
                case: simple_case("oracle.type_errors", "{% set r = -a %}ok", ctx.clone(), vec![]),
                expect: if num { Expect::Text("ok".into()) } else { Expect::AnyErr },
            });
            out.push(Check { oracle: "type_errors.unary", case: simple_case("oracle.type_errors", "{% set r = not a %}ok", ctx, vec![]), expect: Expect::Text("ok".into()) });
        }
    }
}


/// (a') laziness where the arms / operands are bare variables and dotted paths (these compile to
/// fused path loads and writes), for conditions of every kind incl. the truthiness boundary values,
/// given as plain variables and as fields of a map
fn oracle_lazy_paths(rng: &mut Rng, out: &mut Vec<Check>) {
    let mut ctx: Vec<(String, Value)> = boundary_ctx();
    let mut bx = tera::Map::new();
    for (k, v) in boundary_ctx() {
        bx.insert(tera::value::Key::from(k), v);
    }
    ctx.push(("bx".into(), Value::from(bx)));
    let mut user = tera::Map::new();
    user.insert("name".into(), Value::from("N"));
    user.insert("none_field".into(), Value::none());
    ctx.push(("user".into(), Value::from(user)));
    let mut other = tera::Map::new();
    other.insert("path".into(), Value::from("P"));
    ctx.push(("other".into(), Value::from(other)));
    ctx.push(("flag_t".into(), Value::from(true)));
    ctx.push(("flag_f".into(), Value::from(false)));
    ctx.push(("one".into(), Value::from(gen_int_value(rng).as_i128().filter(|x| *x != 0).unwrap_or(1))));
    let mut conds: Vec<(String, bool)> = Vec::new();
    for (k, v) in boundary_ctx() {
        conds.push((k.clone(), truthy(&v)));
        conds.push((format!("bx.{k}"), truthy(&v)));
    }
    conds.extend([("flag_t".to_string(), true), ("flag_f".to_string(), false), ("one".to_string(), true), ("zz".to_string(), false), ("user.zip".to_string(), false), ("user.none_field".to_string(), false), ("user.name".to_string(), true)]);
    for (c, t) in BOUNDARY_EXPRS {
        conds.push((c.to_string(), t));
    }
    let mk = |src: String| simple_case("oracle.lazy_paths", &src, ctx.clone(), vec![]);
    let txt = |s: &str| Expect::Text(s.to_string());
    for (c, t) in conds {
        let plain = mk(format!("{{{{ {c} }}}}"));
        let same = || Expect::SameAs(Box::new(plain.clone()));
        let pick = |a: Expect, b2: Expect| if t { a } else { b2 };
        let forms: Vec<(String, Expect)> = vec![
            (format!("{{{{ \"yes\" if {c} else user.name }}}}"), pick(txt("yes"), txt("N"))),
            (format!("{{{{ user.name if {c} else other.path }}}}"), pick(txt("N"), txt("P"))),
            (format!("{{{{ user.name if {c} else missing.field }}}}"), pick(txt("N"), Expect::ErrClass("undefined"))),
            (format!("{{{{ missing.field if {c} else other.path }}}}"), pick(Expect::ErrClass("undefined"), txt("P"))),
            (format!("{{{{ user.name if {c} else zz }}}}"), pick(txt("N"), Expect::ErrClass("undefined"))),
            (format!("{{{{ \"yes\" if {c} else missing.field }}}}"), pick(txt("yes"), Expect::ErrClass("undefined"))),
            (format!("{{{{ \"yes\" if {c} else missing.field.deeper }}}}"), pick(txt("yes"), Expect::ErrClass("undefined"))),
            (format!("{{{{ {c} and user.name }}}}"), pick(txt("N"), same())),
            (format!("{{{{ {c} or user.name }}}}"), pick(same(), txt("N"))),
            (format!("{{{{ {c} and missing.field }}}}"), pick(Expect::ErrClass("undefined"), same())),
            (format!("{{{{ {c} or missing.field }}}}"), pick(same(), Expect::ErrClass("undefined"))),
            (format!("{{{{ {c} and {THROW} }}}}"), pick(Expect::ErrClass("thrown"), same())),
            (format!("{{{{ {c} or {THROW} }}}}"), pick(same(), Expect::ErrClass("thrown"))),
            // the result is the deciding operand itself, not a bool
            (if t { format!("{{{{ ({c} or missing.field) == {c} }}}}") } else { format!("{{{{ ({c} and missing.field) == {c} }}}}") }, txt("true")),
            (format!("{{% set r = user.name if {c} else missing.field %}}{{{{ r }}}}"), pick(txt("N"), Expect::ErrClass("undefined"))),
            (format!("{{% if (user.name if {c} else missing.field) %}}T{{% endif %}}"), pick(txt("T"), Expect::ErrClass("undefined"))),
            (format!("{{{{ \"x\" | default(value=(user.name if {c} else missing.field)) }}}}"), pick(txt("x"), Expect::ErrClass("undefined"))),
            (format!("{{% if {c} and missing.field %}}A{{% else %}}B{{% endif %}}"), pick(Expect::ErrClass("undefined"), txt("B"))),
            (format!("{{% if {c} or missing.field %}}A{{% else %}}B{{% endif %}}"), pick(txt("A"), Expect::ErrClass("undefined"))),
            (format!("{{% if {c} %}}A{{% elif missing.field %}}B{{% else %}}C{{% endif %}}"), pick(txt("A"), Expect::ErrClass("undefined"))),
            (format!("{{{{ other.path if not {c} else user.name }}}}"), pick(txt("N"), txt("P"))),
        ];
        for (src, expect) in forms {
            out.push(Check { oracle: "lazy.paths_and_operands", case: mk(src), expect });
        }
    }
}

/// (b) the one-level-of-undefined matrix: paths of 1 to 4 names with the missing link at every
/// position (and `?.`/`?[` variants) x every consumer
fn oracle_undefined_matrix(out: &mut Vec<Check>) {
    // leaves: d = 1, l = [7, 8], s = "-", n = 2, nn = none
    let leaves = || {
        let mut m = tera::Map::new();
        m.insert("d".into(), Value::from(1));
        m.insert("l".into(), Value::from(vec![Value::from(7), Value::from(8)]));
        m.insert("s".into(), Value::from("-"));
        m.insert("n".into(), Value::from(2));
        m.insert("nn".into(), Value::none());
        m
    };
    let wrap = |name: &str, inner: tera::Map| {
        let mut m = tera::Map::new();
        m.insert(tera::value::Key::from(name.to_string()), Value::from(inner));
        m.insert("nn".into(), Value::none());
        m
    };
    let mut ctx: Vec<(String, Value)> = Vec::new();
    for (k, v) in leaves() {
        ctx.push((k.as_str().unwrap().to_string(), v));
    }
    ctx.push(("q2".into(), Value::from(leaves())));
    ctx.push(("q3".into(), Value::from(wrap("x", leaves()))));
    ctx.push(("q4".into(), Value::from(wrap("x", wrap("y", leaves())))));
    ctx.push(("xs".into(), Value::from(vec![Value::from(5), Value::from(6), Value::from(7)])));
    let chain = |len: usize, leaf: &str| -> Vec<String> {
        match len {
            1 => vec![leaf.to_string()],
            2 => vec!["q2".into(), leaf.to_string()],
            3 => vec!["q3".into(), "x".into(), leaf.to_string()],
            _ => vec!["q4".into(), "x".into(), "y".into(), leaf.to_string()],
        }
    };
    // (template with `@` for the path, leaf, outcome when the path is there, outcome when its value is
    //  undefined: Some(Ok(text)) / Some(Err) / None = not covered by the documented rule)
    type U = Option<Result<&'static str, ()>>;
    const E: U = Some(Err(()));
    let consumers: Vec<(&str, &str, &str, U)> = vec![
        ("{{ @ }}", "d", "1", E),
        ("{{ @ + 1 }}", "d", "2", E),
        ("{{ 2 * @ }}", "d", "2", E),
        ("{{ 3 - @ }}", "d", "2", E),
        ("{{ @ // 1 }}", "d", "1", E),
        ("{{ @ % 2 }}", "d", "1", E),
        ("{{ @ ** 2 }}", "d", "1", E),
        ("{{ - @ }}", "d", "-1", E),
        ("{{ @ < 2 }}", "d", "true", E),
        ("{{ 0 >= @ }}", "d", "false", E),
        ("{{ @ ~ \"x\" }}", "d", "1x", None),
        ("{{ @ is defined }}", "d", "true", Some(Ok("false"))),
        ("{{ @ is undefined }}", "d", "false", Some(Ok("true"))),
        ("{{ @ is not defined }}", "d", "false", Some(Ok("true"))),
        ("{{ @ | default(value=\"D\") }}", "d", "1", Some(Ok("D"))),
        ("{{ @ or \"D\" }}", "d", "1", Some(Ok("D"))),
        ("{% if @ and true %}T{% else %}F{% endif %}", "d", "T", Some(Ok("F"))),
        ("{{ not @ }}", "d", "false", Some(Ok("true"))),
        ("{% if @ %}T{% else %}F{% endif %}", "d", "T", Some(Ok("F"))),
        ("{% if not @ %}N{% elif true %}E{% endif %}", "d", "E", Some(Ok("N"))),
        ("{{ \"T\" if @ else \"F\" }}", "d", "T", Some(Ok("F"))),
        ("{% set r = @ or \"D\" %}{{ r }}", "d", "1", Some(Ok("D"))),
        ("{{ @?.x is defined }}", "d", "false", Some(Ok("false"))),
        ("{{ @?.x | default(value=\"D\") }}", "d", "D", Some(Ok("D"))),
        ("{{ @?[0] is defined }}", "l", "true", Some(Ok("false"))),
        ("{{ @?[0] }}", "l", "7", E),
        ("{{ @?[1:] is defined }}", "l", "true", Some(Ok("false"))),
        ("{{ @?[1:] }}", "l", "[8]", E),
        ("{{ @[0] }}", "l", "7", E),
        ("{{ @[0] is defined }}", "l", "true", E),
        ("{{ @.x is defined }}", "d", "false", E),
        ("{{ @.x | default(value=\"D\") }}", "d", "D", E),
        ("{{ @[1:] }}", "l", "[8]", E),
        ("{{ xs[@] }}", "d", "6", E),
        ("{{ xs[@:] }}", "d", "[6, 7]", E),
        ("{{ [1, 2] | join(sep=@) }}", "s", "1-2", E),
        ("{{ range(end=@) | length }}", "n", "2", E),
        ("{{ [@] | length }}", "d", "1", None),
        ("{% set m = {\"k\": @} %}{{ m | length }}", "d", "1", None),
        ("{% for v in @ %}{{ v }}{% endfor %}", "l", "78", E),
        ("{{ @ in xs }}", "d", "false", None),
        ("{{ 7 in @ }}", "l", "true", E),
    ];
    let mk = |src: String| simple_case("oracle.undefined_matrix", &src, ctx.clone(), vec![]);
    let push = |out: &mut Vec<Check>, oracle: &'static str, tplt: &str, path: &str, exp: U, there: Option<&str>| {
        let src = tplt.replace('@', path);
        let expect = match (there, exp) {
            (Some(t), _) => Expect::Text(t.to_string()),
            (None, Some(Ok(t))) => Expect::Text(t.to_string()),
            (None, Some(Err(()))) => Expect::AnyErr,
            (None, None) => return,
        };
        out.push(Check { oracle, case: mk(src), expect });
    };
    for (tplt, leaf, there, when_undef) in &consumers {
        for len in 1..=4usize {
            let names = chain(len, leaf);
            // the path is there
            push(out, "undefined_matrix.present", tplt, &names.join("."), None, Some(there));
            // `?.` on bases that are there behaves like `.`
            if len >= 2 {
                push(out, "undefined_matrix.optional_on_present", tplt, &names.join("?."), None, Some(there));
                let mut sub = names[..len - 1].join(".");
                sub.push_str(&format!("?[\"{leaf}\"]"));
                push(out, "undefined_matrix.optional_on_present", tplt, &sub, None, Some(there));
            }
            for k in 0..len {
                let mut broken = names.clone();
                broken[k] = "zz".into();
                if k + 1 == len {
                    // only the LAST link is missing: the value is undefined; tolerant consumers accept it
                    push(out, "undefined_matrix.last_link_missing", tplt, &broken.join("."), *when_undef, None);
                    if len >= 2 {
                        push(out, "undefined_matrix.last_link_missing", tplt, &format!("{}?.zz", names[..len - 1].join(".")), *when_undef, None);
                        push(out, "undefined_matrix.last_link_missing", tplt, &format!("{}[\"zz\"]", names[..len - 1].join(".")), *when_undef, None);
                    }
                } else {
                    // an earlier link is missing: an error for EVERY consumer (two levels of undefined)
                    push(out, "undefined_matrix.earlier_link_missing", tplt, &broken.join("."), E, None);
                    // ... unless every later access is optional: then the value is undefined again
                    let opt: String = broken[..=k].join(".") + &broken[k + 1..].iter().map(|n| format!("?.{n}")).collect::<String>();
                    push(out, "undefined_matrix.optional_after_missing", tplt, &opt, *when_undef, None);
                    let opt_idx: String = broken[..=k].join(".") + &broken[k + 1..].iter().map(|n| format!("?[\"{n}\"]")).collect::<String>();
                    push(out, "undefined_matrix.optional_after_missing", tplt, &opt_idx, *when_undef, None);
                    // one optional link does not excuse the plain ones after it
                    if k + 2 < len {
                        let part: String = format!("{}?.{}.{}", broken[..=k].join("."), broken[k + 1], broken[k + 2..].join("."));
                        push(out, "undefined_matrix.earlier_link_missing", tplt, &part, E, None);
                    }
                }
            }
            // a base that is there and is `none`: `?.` / `?[` give undefined (not the base, not an error)
            if len >= 2 {
                let base = format!("{}.nn", names[..len - 1].join("."));
                push(out, "undefined_matrix.optional_on_none", tplt, &format!("{base}?.y"), *when_undef, None);
                push(out, "undefined_matrix.optional_on_none", tplt, &format!("{base}?[\"y\"]"), *when_undef, None);
                push(out, "undefined_matrix.optional_on_none", tplt, &format!("{base}?.y?.z"), *when_undef, None);
                push(out, "undefined_matrix.earlier_link_missing", tplt, &format!("{base}?.y.z"), E, None);
            }
            push(out, "undefined_matrix.optional_on_none", tplt, "nn?.y", *when_undef, None);
            push(out, "undefined_matrix.optional_on_none", tplt, "nn?[0]", *when_undef, None);
            push(out, "undefined_matrix.optional_on_none", tplt, "nn?[1:]", *when_undef, None);
        }
    }
}

/// The items a `for` visits, as the documentation describes them: (key text, value text)
fn reference_items(v: &Value) -> Option<Vec<(String, String)>> {
    use tera::value::ValueKind as VK;
    Some(match v.kind() {
        VK::Array => v.as_array().unwrap().iter().map(|x| (String::new(), format!("{x}"))).collect(),
        VK::String => v.as_str().unwrap().chars().map(|c| (String::new(), c.to_string())).collect(),
        VK::Bytes => v.as_bytes().unwrap().iter().map(|x| (String::new(), x.to_string())).collect(),
        VK::Map => {
            // string keys only in this oracle: visited in key order, each entry exactly once
            let mut es: Vec<(String, String)> = v.as_map().unwrap().iter().map(|(k, x)| (k.as_str().unwrap().to_string(), format!("{x}"))).collect();
            es.sort();
            es
        }
        _ => return None,
    })
}

/// (e) loop bookkeeping, for/else, break/continue act on the innermost loop
fn oracle_loops(rng: &mut Rng, out: &mut Vec<Check>) {
    for round in 0..24 {
        let container = match round % 4 {
            0 => Value::from((0..rng.below(5)).map(|_| Value::from(rng.range(0, 9))).collect::<Vec<_>>()),
            1 => Value::from(gen_string(rng, &STR_ALPHABET)),
            2 => {
                let mut m = tera::Map::new();
                for _ in 0..rng.below(5) {
                    m.insert(tera::value::Key::from(gen_string(rng, &["a", "b", "c", "é", "Z", "0"])), Value::from(rng.range(0, 9)));
                }
                Value::from(m)
            }
            _ => Value::bytes((0..rng.below(5)).map(|_| rng.below(256) as u8).collect::<Vec<u8>>()),
        };
        let items = reference_items(&container).unwrap();
        let len = items.len();
        let is_map = container.as_map().is_some();
        let ctx = vec![("cc".to_string(), container.clone()), ("aa".to_string(), Value::from(vec![Value::from(1), Value::from(2), Value::from(3)]))];
        let cell = |k: usize, item: &(String, String)| format!("[{}/{}/{}/{}/{}:{}{}]", k + 1, k, k == 0, k + 1 == len, len, if is_map && !item.0.is_empty() { format!("{}=", item.0) } else { String::new() }, item.1);
        let head = if is_map { "{% for k, x in cc %}" } else { "{% for x in cc %}" };
        let body = if is_map { "[{{ loop.index }}/{{ loop.index0 }}/{{ loop.first }}/{{ loop.last }}/{{ loop.length }}:{{ k }}={{ x }}]" } else { "[{{ loop.index }}/{{ loop.index0 }}/{{ loop.first }}/{{ loop.last }}/{{ loop.length }}:{{ x }}]" };
        // map keys may be empty strings: then `k=` prints `=`
        let cell = |k: usize, item: &(String, String)| if is_map { format!("[{}/{}/{}/{}/{}:{}={}]", k + 1, k, k == 0, k + 1 == len, len, item.0, item.1) } else { cell(k, item) };
        // plain + else
        let exp: String = if len == 0 { "EMPTY|".into() } else { items.iter().enumerate().map(|(k, it)| cell(k, it)).collect::<String>() + "|" };
        out.push(Check { oracle: "loop.bookkeeping", case: simple_case("oracle.loops", &format!("{head}{body}{{% else %}}EMPTY{{% endfor %}}|"), ctx.clone(), vec![]), expect: Expect::Text(exp) });
        // value-only iteration of a map visits the values
        if is_map {
            let exp: String = items.iter().map(|it| format!("({})", it.1)).collect();
            out.push(Check { oracle: "loop.map_values", case: simple_case("oracle.loops", "{% for x in cc %}({{ x }}){% endfor %}", ctx.clone(), vec![]), expect: Expect::Text(exp) });
        }
        // break / continue at position p (1-based), under an if; else is not rendered after a break
        let p = rng.below(len + 2);
        let exp: String = items.iter().enumerate().filter(|(k, _)| k + 1 < p || p == 0).map(|(k, it)| cell(k, it)).collect::<String>() + if len == 0 { "EMPTY|" } else { "|" };
        out.push(Check { oracle: "loop.break", case: simple_case("oracle.loops", &format!("{head}{{% if loop.index == {p} %}}{{% break %}}{{% endif %}}{body}{{% else %}}EMPTY{{% endfor %}}|"), ctx.clone(), vec![]), expect: Expect::Text(exp) });
        let exp: String = items.iter().enumerate().filter(|(k, _)| k + 1 != p).map(|(k, it)| cell(k, it)).collect::<String>() + if len == 0 { "EMPTY|" } else { "|" };
        out.push(Check { oracle: "loop.continue", case: simple_case("oracle.loops", &format!("{head}{{% if loop.index == {p} %}}{{% continue %}}{{% endif %}}{body}{{% else %}}EMPTY{{% endfor %}}|"), ctx.clone(), vec![]), expect: Expect::Text(exp) });
        // nested: break / continue in the inner loop leave the outer loop alone; loop.* is the innermost loop's
        let q = rng.below(len + 2);
        let mut exp = String::new();
        for a in 1..=3 {
            exp.push_str(&format!("<{a}:"));
            for k in 0..len {
                if k + 1 == q {
                    break;
                }
                exp.push_str(&format!("({}.{})", a, k + 1));
            }
            exp.push_str(&format!(":{a}/3>"));
        }
        let inner_head = head;
        out.push(Check {
            oracle: "loop.nested_break",
            case: simple_case("oracle.loops", &format!("{{% for y in aa %}}<{{{{ loop.index }}}}:{inner_head}{{% if loop.index == {q} %}}{{% break %}}{{% endif %}}({{{{ y }}}}.{{{{ loop.index }}}}){{% endfor %}}:{{{{ loop.index }}}}/{{{{ loop.length }}}}>{{% endfor %}}"), ctx.clone(), vec![]),
            expect: Expect::Text(exp),
        });
        let mut exp = String::new();
        for k in 0..len {
            exp.push_str(&format!("<{}:", k + 1));
            for a in 1..=3 {
                if a == 2 {
                    continue;
                }
                exp.push_str(&format!("({a})"));
            }
            exp.push('>');
        }
        out.push(Check {
            oracle: "loop.nested_continue",
            case: simple_case("oracle.loops", &format!("{head}<{{{{ loop.index }}}}:{{% for y in aa %}}{{% if y == 2 %}}{{% if true %}}{{% continue %}}{{% endif %}}{{% endif %}}({{{{ y }}}}){{% endfor %}}>{{% endfor %}}"), ctx.clone(), vec![]),
            expect: Expect::Text(exp),
        });
    }
    // not iterable / key-value form on a non-map
    for (v, kv) in [(Value::from(3), false), (Value::none(), false), (Value::from(true), false), (Value::from(vec![Value::from(1)]), true), (Value::from("ab"), true)] {
        let src = if kv { "{% for k, x in cc %}{% endfor %}" } else { "{% for x in cc %}{% else %}E{% endfor %}" };
        out.push(Check { oracle: "loop.not_iterable", case: simple_case("oracle.loops", src, vec![("cc".into(), v)], vec![]), expect: Expect::ErrClass("iteration") });
    }
}

/// (f) scoping probes
fn oracle_scoping(rng: &mut Rng, out: &mut Vec<Check>) {
    for _ in 0..6 {
        let xs: Vec<i64> = (0..rng.below(3) + 1).map(|_| rng.range(1, 9)).collect();
        let xs_v = Value::from(xs.iter().map(|x| Value::from(*x)).collect::<Vec<_>>());
        let joined: String = xs.iter().map(|x| x.to_string()).collect();
        for (in_ctx, in_global) in [(false, false), (true, false), (false, true), (true, true)] {
            let mut ctx = vec![("xs".to_string(), xs_v.clone()), ("s".to_string(), Value::from("ctx-s"))];
            let mut global = vec![("g".to_string(), Value::from("glob-g"))];
            if in_ctx {
                ctx.push(("p".into(), Value::from("C")));
            }
            if in_global {
                global.push(("p".into(), Value::from("G")));
            }
            let outer = if in_ctx { "C" } else if in_global { "G" } else { "~" };
            let mk = |src: &str| simple_case("oracle.scoping", src, ctx.clone(), global.clone());
            // 1. an assignment in a loop body is gone after the loop
            out.push(Check { oracle: "scope.set_in_loop_gone_after", case: mk("{% for x in xs %}{% set p = x %}{{ p }}{% endfor %}[{{ p | default(value=\"~\") }}]"), expect: Expect::Text(format!("{joined}[{outer}]")) });
            // 2. ... and is gone at the next iteration
            let e: String = xs.iter().map(|_| format!("[{outer}]")).collect();
            out.push(Check { oracle: "scope.set_in_loop_iteration_local", case: mk("{% for x in xs %}[{{ p | default(value=\"~\") }}]{% set p = x %}{% endfor %}"), expect: Expect::Text(e) });
            // 3. set_global in a loop stays
            out.push(Check { oracle: "scope.set_global_persists", case: mk("{% for x in xs %}{% set_global p = x %}{% endfor %}[{{ p }}]"), expect: Expect::Text(format!("[{}]", xs.last().unwrap())) });
            // 3b. ... also from a nested loop, an if and a capture, and is visible in later iterations
            let e: String = xs.iter().enumerate().map(|(k, _)| if k == 0 { format!("[{outer}]") } else { format!("[{}]", xs[k - 1]) }).collect();
            out.push(Check { oracle: "scope.set_global_persists", case: mk("{% for x in xs %}[{{ p | default(value=\"~\") }}]{% for y in [1] %}{% if true %}{% set c %}{% set_global p = x %}{% endset %}{% endif %}{% endfor %}{% endfor %}"), expect: Expect::Text(e) });
            // 4. lookup order: loop variable, assignment, context, global context
            let first = outer;
            out.push(Check { oracle: "scope.lookup_order", case: mk("{{ p | default(value=\"~\") }}|{% set p = \"S\" %}{{ p }}|{% for p in [\"L\"] %}{{ p }}{% for p in [\"M\"] %}{{ p }}{% endfor %}{{ p }}{% endfor %}|{{ p }}|{{ g }}|{{ s }}"), expect: Expect::Text(format!("{first}|S|LML|S|glob-g|ctx-s")) });
            // 5. an assignment in a loop shadows the loop variable for the rest of that iteration only
            let e: String = xs.iter().map(|x| format!("{x}Q")).collect();
            out.push(Check { oracle: "scope.set_shadows_loop_var", case: mk("{% for x in xs %}{{ x }}{% set x = \"Q\" %}{{ x }}{% endfor %}"), expect: Expect::Text(e) });
            // 6. an assignment outside loops stays visible inside and after them; `set` in an else body is outside the loop
            out.push(Check { oracle: "scope.set_outside_loop", case: mk("{% set q = \"A\" %}{% for x in xs %}{{ q }}{% endfor %}{% for x in [] %}{% else %}{% set q2 = \"E\" %}{% endfor %}{{ q }}{{ q2 }}"), expect: Expect::Text(format!("{}AE", "A".repeat(xs.len()))) });
            // 7. include: the includer's loop variable, assignments, context and global context are visible
            let inc_case = |main: &str, inc: &str| Case { templates: vec![("main".into(), tpl(main)), ("inc".into(), tpl(inc))], ctx: ctx.clone(), global: global.clone(), stream: "oracle.scoping".into() };
            let e: String = xs.iter().map(|x| format!("(A{x}ctx-s glob-g {outer})")).collect();
            out.push(Check { oracle: "scope.include_sees_includer", case: inc_case("{% set a = \"A\" %}{% for x in xs %}{% include \"inc\" %}{% endfor %}", "({{ a }}{{ x }}{{ s }} {{ g }} {{ p | default(value=\"~\") }})"), expect: Expect::Text(e) });
            // 8. nothing the included template assigns is visible to the includer
            out.push(Check { oracle: "scope.include_state_discarded", case: inc_case("{% set q = 1 %}{% include \"inc\" %}|{{ q }}|{{ r is defined }}|{{ p | default(value=\"~\") }}", "{% set q = 2 %}{% set_global r = 3 %}{% set_global p = 4 %}{{ q }}{{ r }}{{ p }}"), expect: Expect::Text(format!("234|1|false|{outer}")) });
            // 9. include inside a capture inside a loop
            let e: String = xs.iter().map(|x| format!("[<i{x}>]")).collect();
            out.push(Check { oracle: "scope.include_in_capture", case: inc_case("{% for x in xs %}{% set c %}<{% include \"inc\" %}>{% endset %}[{{ c }}]{% endfor %}", "i{{ x }}"), expect: Expect::Text(e) });
            // 10. captures: exactly the body's text, filters applied afterwards
            out.push(Check { oracle: "capture.exact", case: mk("{% set c | upper | trim %} a{% for x in xs %}{{ x }}b{% endfor %} {% endset %}[{{ c }}]{% filter upper %}x{{ s }}{% endfilter %}"), expect: Expect::Text(format!("[A{}]XCTX-S", xs.iter().map(|x| format!("{x}B")).collect::<String>())) });
        }
    }
}


/// (f') assignments made in one iteration must not come back in a later one (also not after a
/// different name is assigned there), and include chains of depth 2 and 3 resolve names through
/// EVERY includer, nearest first
fn oracle_scoping_deep(out: &mut Vec<Check>) {
    // ---- stale loop-local assignments
    for (in_ctx, in_global) in [(false, false), (true, false), (false, true), (true, true)] {
        let mut ctx = vec![("xs".to_string(), Value::from(vec![Value::from(1), Value::from(2), Value::from(3)]))];
        let mut global = vec![];
        if in_ctx {
            ctx.push(("a".into(), Value::from("ctx")));
        }
        if in_global {
            global.push(("a".into(), Value::from("glob")));
        }
        let outer = if in_ctx { "ctx" } else if in_global { "glob" } else { "~" };
        let def = in_ctx || in_global;
        let mk = |src: &str| simple_case("oracle.scoping_deep", src, ctx.clone(), global.clone());
        let rd = "{{ a is defined }}:{{ a | default(value=\"~\") }}";
        // iteration 1 sets a; iteration 2 sets b and then reads a; iteration 3 reads a without setting anything
        out.push(Check {
            oracle: "scope.no_stale_loop_assignment",
            case: mk(&format!("{{% for i in xs %}}{{% if i == 1 %}}{{% set a = \"stale\" %}}[{rd}]{{% endif %}}{{% if i == 2 %}}{{% set b = 1 %}}[{rd}]{{% endif %}}{{% if i == 3 %}}[{rd}]{{% endif %}}{{% endfor %}}[{rd}]")),
            expect: Expect::Text(format!("[true:stale][{def}:{outer}][{def}:{outer}][{def}:{outer}]")),
        });
        // several names, each set in its own iteration, all read in every iteration after another set
        out.push(Check {
            oracle: "scope.no_stale_loop_assignment",
            case: mk("{% for i in xs %}{% if i == 1 %}{% set a = \"A\" %}{% set c = \"C\" %}{% endif %}{% if i == 2 %}{% set b = \"B\" %}{% endif %}{% set z = i %}({{ a | default(value=\"~\") }}{{ b | default(value=\"~\") }}{{ c | default(value=\"~\") }}{{ z }}){% endfor %}"),
            expect: Expect::Text(format!("(A~C1)({outer}B~2)({outer}~~3)")),
        });
        // a set block and an assignment of the loop variable itself do not revive anything either
        out.push(Check {
            oracle: "scope.no_stale_loop_assignment",
            case: mk("{% for i in xs %}{% if i == 1 %}{% set a = \"stale\" %}{% set i = \"I\" %}{% endif %}{% if i == 2 %}{% set b %}x{% endset %}({{ a | default(value=\"~\") }}{{ i }}){% endif %}{% if i == 3 %}{% set_global g2 = 1 %}({{ a | default(value=\"~\") }}{{ b | default(value=\"~\") }}{{ i }}){% endif %}{% endfor %}"),
            expect: Expect::Text(format!("({outer}2)({outer}~3)")),
        });
        // nested loops: the inner loop's assignments die with each inner iteration and with the inner loop;
        // the outer loop's own assignment stays visible for the rest of the OUTER iteration
        out.push(Check {
            oracle: "scope.no_stale_loop_assignment",
            case: mk("{% for i in xs %}{% if i == 2 %}{% set o = \"O\" %}{% endif %}{% for j in xs %}{% if j == 1 %}{% set a = \"in\" %}{% endif %}{% if j == 2 %}{% set b = 1 %}<{{ a | default(value=\"~\") }}{{ o | default(value=\"~\") }}>{% endif %}{% endfor %}{% set q = 1 %}({{ a | default(value=\"~\") }}{{ b | default(value=\"~\") }}){% endfor %}"),
            expect: Expect::Text(format!("<{outer}~>({outer}~)<{outer}O>({outer}~)<{outer}~>({outer}~)")),
        });
        // set_global made in one iteration IS visible later, a later local set of another name changes nothing
        out.push(Check {
            oracle: "scope.no_stale_loop_assignment",
            case: mk("{% for i in xs %}{% if i == 1 %}{% set_global a = \"G1\" %}{% set l = \"L\" %}{% endif %}{% if i == 2 %}{% set b = 1 %}{% endif %}({{ a | default(value=\"~\") }}{{ l | default(value=\"~\") }}){% endfor %}({{ a }})"),
            expect: Expect::Text("(G1L)(G1~)(G1~)(G1)".into()),
        });
        // the same inside an included template run in a loop, and in a loop inside an include
        let inc_case = |main: &str, inc: &str| Case { templates: vec![("main".into(), tpl(main)), ("inc".into(), tpl(inc))], ctx: ctx.clone(), global: global.clone(), stream: "oracle.scoping_deep".into() };
        out.push(Check {
            oracle: "scope.no_stale_loop_assignment",
            case: inc_case("{% include \"inc\" %}", "{% for i in xs %}{% if i == 1 %}{% set a = \"stale\" %}{% endif %}{% if i == 3 %}{% set b = 1 %}({{ a | default(value=\"~\") }}){% endif %}{% endfor %}"),
            expect: Expect::Text(format!("({outer})")),
        });
    }
    // ---- include chains: A includes B includes C (includes D); bindings at every level
    let rd = |n: &str| format!("{{{{ {n} | default(value=\"~\") }}}}");
    let chain = |a: &str, b2: &str, c: &str, d: &str, ctx: Vec<(String, Value)>, global: Vec<(String, Value)>| Case {
        templates: vec![("main".into(), tpl(a)), ("b".into(), tpl(b2)), ("c".into(), tpl(c)), ("d".into(), tpl(d))],
        ctx,
        global,
        stream: "oracle.scoping_deep".into(),
    };
    let probe = format!("[{}|{}|{}|{}|{}|{}]", rd("r"), rd("m"), rd("both"), rd("lv"), rd("cx"), rd("gl"));
    let ctx = vec![("cx".to_string(), Value::from("CX")), ("both".to_string(), Value::from("ctx-both")), ("xs".to_string(), Value::from(vec![Value::from(1), Value::from(2)]))];
    let global = vec![("gl".to_string(), Value::from("GL")), ("m".to_string(), Value::from("glob-m"))];
    // depth 2: C reads; r bound in the root only, m in the middle only, both in both (the nearer wins), lv = the middle's loop variable
    for (mid_bind, name) in [
        ("{% set m = \"M\" %}{% set both = \"mid\" %}", "set"),
        ("{% set_global m = \"M\" %}{% set_global both = \"mid\" %}", "set_global"),
        ("{% set m %}M{% endset %}{% set both %}mid{% endset %}", "set_block"),
    ] {
        let _ = name;
        out.push(Check {
            oracle: "scope.include_chain",
            case: chain(
                "{% set r = \"R\" %}{% set both = \"root\" %}{% include \"b\" %}",
                &format!("{mid_bind}{{% for lv in xs %}}{{% include \"c\" %}}{{% endfor %}}"),
                &probe,
                "",
                ctx.clone(),
                global.clone(),
            ),
            expect: Expect::Text("[R|M|mid|1|CX|GL][R|M|mid|2|CX|GL]".into()),
        });
        // depth 3: D reads through C (which binds nothing), then through B, then the root
        out.push(Check {
            oracle: "scope.include_chain",
            case: chain(
                "{% set r = \"R\" %}{% set both = \"root\" %}{% for lv in [9] %}{% include \"b\" %}{% endfor %}",
                &format!("{mid_bind}{{% include \"c\" %}}"),
                "{% set own = 1 %}{% include \"d\" %}",
                &probe,
                ctx.clone(),
                global.clone(),
            ),
            expect: Expect::Text("[R|M|mid|9|CX|GL]".into()),
        });
    }
    // the middle template binds nothing: root bindings and the root's loop variable are seen at depth 2 and 3
    out.push(Check {
        oracle: "scope.include_chain",
        case: chain("{% set r = \"R\" %}{% for lv in xs %}{% include \"b\" %}{% endfor %}", "<{% include \"c\" %}>", &format!("{probe}{{% include \"d\" %}}"), &probe, ctx.clone(), global.clone()),
        expect: Expect::Text("<[R|glob-m|ctx-both|1|CX|GL][R|glob-m|ctx-both|1|CX|GL]><[R|glob-m|ctx-both|2|CX|GL][R|glob-m|ctx-both|2|CX|GL]>".into()),
    });
    // the middle template shadows the root's loop variable with its own loop; the leaf's assignments reach nobody
    out.push(Check {
        oracle: "scope.include_chain",
        case: chain(
            "{% for lv in [\"root\"] %}{% include \"b\" %}({{ lv }}{{ leaf | default(value=\"~\") }}){% endfor %}",
            "{% for lv in [\"mid\"] %}{% include \"c\" %}{% endfor %}<{{ lv }}{{ leaf | default(value=\"~\") }}>",
            "{% set leaf = \"L\" %}{% set_global leaf2 = 1 %}{{ lv }}{{ leaf }}",
            "",
            ctx.clone(),
            global.clone(),
        ),
        expect: Expect::Text("midL<root~>(root~)".into()),
    });
    // bound in the middle template only, read at depth 2 inside a capture and a filter section of the leaf
    out.push(Check {
        oracle: "scope.include_chain",
        case: chain("{% include \"b\" %}", "{% set m = \"M\" %}{% set c2 %}{% include \"c\" %}{% endset %}{{ c2 }}", "{% filter upper %}{{ m }}x{% endfilter %}{% set k %}{{ m }}{% endset %}{{ k }}", "", ctx.clone(), global.clone()),
        expect: Expect::Text("MXM".into()),
    });
}

/// replace every include by the statements of the included template
fn inline_includes(ss: &[St], templates: &[(String, Vec<St>)]) -> Vec<St> {
    let mut out = Vec::new();
    for s in ss {
        match s {
            St::Include(n) => {
                let body = &templates.iter().find(|(name, _)| name == n).unwrap().1;
                out.extend(inline_includes(body, templates));
            }
            St::SetBlock(n, f, body, g) => out.push(St::SetBlock(n.clone(), f.clone(), inline_includes(body, templates), *g)),
            St::FilterSection(f, body) => out.push(St::FilterSection(f.clone(), inline_includes(body, templates))),
            St::If(br, els) => out.push(St::If(br.iter().map(|(c, bd)| (c.clone(), inline_includes(bd, templates))).collect(), els.as_ref().map(|e| inline_includes(e, templates)))),
            St::For(k, v, t, body, els) => out.push(St::For(k.clone(), v.clone(), t.clone(), inline_includes(body, templates), inline_includes(els, templates))),
            other => out.push(other.clone()),
        }
    }
    out
}

fn has_assignment(ss: &[St]) -> bool {
    ss.iter().any(|s| match s {
        St::Set(..) | St::SetBlock(..) => true,
        // templates given as source text
        St::Text(t) if t.contains("{% set") => true,
        St::FilterSection(_, b) => has_assignment(b),
        St::If(br, els) => br.iter().any(|(_, bd)| has_assignment(bd)) || els.as_ref().is_some_and(|e| has_assignment(e)),
        St::For(_, _, _, b, e) => has_assignment(b) || has_assignment(e),
        _ => false,
    })
}
fn ex_mentions(e: &Ex, what: &str) -> bool {
    match e {
        Ex::Atom(s) => s.contains(what),
        Ex::Bin(_, l, r) => ex_mentions(l, what) || ex_mentions(r, what),
        Ex::Un(_, x) | Ex::Attr(x, _, _) | Ex::Test(x, _, _) => ex_mentions(x, what),
        Ex::Index(x, i, _) => ex_mentions(x, what) || ex_mentions(i, what),
        Ex::Slice(x, a, bb, c, _) => ex_mentions(x, what) || [a, bb, c].iter().any(|o| o.as_ref().is_some_and(|e| ex_mentions(e, what))),
        Ex::Filter(x, _, kw) => ex_mentions(x, what) || kw.iter().any(|(_, e)| ex_mentions(e, what)),
        Ex::Call(_, kw) => kw.iter().any(|(_, e)| ex_mentions(e, what)),
        Ex::Ternary(c, t, f) => ex_mentions(c, what) || ex_mentions(t, what) || ex_mentions(f, what),
        Ex::Array(items) => items.iter().any(|(_, e)| ex_mentions(e, what)),
        Ex::MapLit(items) => items.iter().any(|(_, e)| ex_mentions(e, what)),
        Ex::Compr(bd, _, t, c) => ex_mentions(bd, what) || ex_mentions(t, what) || c.as_ref().is_some_and(|e| ex_mentions(e, what)),
    }
}
fn stmts_mention(ss: &[St], what: &str) -> bool {
    ss.iter().any(|s| match s {
        St::Print(e) | St::Set(_, e, _) => ex_mentions(e, what),
        St::SetBlock(_, _, b, _) | St::FilterSection(_, b) => stmts_mention(b, what),
        St::If(br, els) => br.iter().any(|(c, bd)| ex_mentions(c, what) || stmts_mention(bd, what)) || els.as_ref().is_some_and(|e| stmts_mention(e, what)),
        St::For(_, _, t, b, e) => ex_mentions(t, what) || stmts_mention(b, what) || stmts_mention(e, what),
        _ => false,
    })
}
/// assignments of the main template whose value could be undefined (those make an include see
/// the context's binding instead: the documented "only if defined there" rule)
fn sets_only_literals(ss: &[St]) -> bool {
    ss.iter().all(|s| match s {
        St::Set(_, e, _) => matches!(e, Ex::Atom(a) if a.starts_with('"') || a.chars().all(|c| c.is_ascii_digit())),
        St::SetBlock(_, _, b, _) | St::FilterSection(_, b) => sets_only_literals(b),
        St::If(br, els) => br.iter().all(|(_, bd)| sets_only_literals(bd)) && els.as_ref().is_none_or(|e| sets_only_literals(e)),
        St::For(_, _, _, b, e) => sets_only_literals(b) && sets_only_literals(e),
        _ => true,
    })
}

/// (g) a capture holds exactly what its body would have written; (h) an include renders against the
/// includer's variables: derived from random programs
fn derived_checks(case: &Case, out: &mut Vec<Check>) {
    let main = &case.templates[0];
    let mut wrapped = case.clone();
    wrapped.stream = "oracle.capture".into();
    wrapped.templates[0].1 = vec![St::SetBlock("cap".into(), vec![], main.1.clone(), false), St::Print(atom("cap"))];
    out.push(Check { oracle: "capture.set_block_equals_inline", case: wrapped, expect: Expect::SameAs(Box::new(case.clone())) });
    if !autoescapes(&main.0) {
        let mut filtered = case.clone();
        filtered.stream = "oracle.capture".into();
        filtered.templates[0].1 = vec![St::FilterSection("upper".into(), main.1.clone())];
        out.push(Check { oracle: "capture.filter_section_equals_filter_of_inline", case: filtered, expect: Expect::UpperOf(Box::new(case.clone())) });
    }
    // include = inline, when the included templates do not assign, do not mention `loop`, autoescape
    // alike, and the includer assigns literals only
    if case.templates.len() > 1
        && case.templates[1..].iter().all(|(n, b)| !has_assignment(b) && !stmts_mention(b, "loop") && autoescapes(n) == autoescapes(&main.0))
        && sets_only_literals(&main.1)
    {
        let mut inl = case.clone();
        inl.stream = "oracle.include_inline".into();
        inl.templates = vec![(main.0.clone(), inline_includes(&main.1, &case.templates))];
        out.push(Check { oracle: "include.equals_inline", case: inl, expect: Expect::SameAs(Box::new(case.clone())) });
    }
}

/// Some(description) when the engine's outcome breaks the expectation
fn judge(check: &Check, got: &str) -> Option<String> {
    if got.starts_with("panic") {
        return Some(format!("panic: {got}"));
    }
    if got.starts_with("adderr") && !matches!(check.expect, Expect::SameAs(_) | Expect::UpperOf(_)) {
        return Some(format!("oracle program was rejected: {got}"));
    }
    match &check.expect {
        Expect::Text(t) => (got != format!("ok {}", hex(t.as_bytes()))).then(|| format!("expected text {t:?}, engine: {}", show_outcome(got))),
        Expect::ErrClass(c) => (got != format!("err {c}")).then(|| format!("expected error class {c}, engine: {}", show_outcome(got))),
        Expect::AnyErr => (!got.starts_with("err")).then(|| format!("expected an error, engine: {}", show_outcome(got))),
        Expect::NoErr => (!got.starts_with("ok")).then(|| format!("expected a successful render, engine: {}", show_outcome(got))),
        Expect::SameAs(other) => {
            let o = run_real(other);
            if o.starts_with("adderr") {
                return None;
            }
            (o != got).then(|| format!("outcome {} differs from {} of the reference program {:?}", show_outcome(got), show_outcome(&o), other.sources()))
        }
        Expect::UpperOf(other) => {
            let o = run_real(other);
            if o.starts_with("adderr") {
                return None;
            }
            let want = match o.strip_prefix("ok ") {
                Some(h) => format!("ok {}", hex(String::from_utf8(unhex(h).unwrap()).unwrap().to_uppercase().as_bytes())),
                None => o.clone(),
            };
            (want != got).then(|| format!("outcome {} differs from upper-cased {} of the reference program", show_outcome(got), show_outcome(&o)))
        }
    }
}

// ------------------------------------------------------------------ exhaustive small programs

/// every statement list with exactly `n` nodes over a small alphabet of statements
fn small_lists(n: usize, in_loop: bool, can_break: bool, depth: usize) -> Vec<Vec<St>> {
    if n == 0 {
        return vec![vec![]];
    }
    let mut out = Vec::new();
    // first statement has k nodes, the rest n - k
    for k in 1..=n {
        let firsts = small_stmts(k, in_loop, can_break, depth);
        if firsts.is_empty() {
            continue;
        }
        let rests = small_lists(n - k, in_loop, can_break, depth);
        for f in &firsts {
            for r in &rests {
                let mut v = vec![f.clone()];
                v.extend(r.iter().cloned());
                out.push(v);
            }
        }
    }
    out
}

fn small_stmts(k: usize, in_loop: bool, can_break: bool, depth: usize) -> Vec<St> {
    let probe = |name: &str| St::Print(Ex::Filter(b(atom(name)), "default".into(), vec![("value".into(), str_lit("~"))]));
    if k == 1 {
        let mut v = vec![St::Text("a".into()), probe("p"), St::Set("p".into(), atom("i"), false), St::Set("p".into(), str_lit("G"), true), St::Include("inc".into())];
        if in_loop {
            v.push(St::Print(atom("x")));
            v.push(St::Print(atom("loop.index")));
            v.push(St::Set("x".into(), str_lit("S"), false));
        }
        if can_break {
            v.push(St::Break);
            v.push(St::Continue);
        }
        return v;
    }
    let mut v = Vec::new();
    for body in small_lists(k - 1, in_loop, can_break, depth) {
        v.push(St::If(vec![(atom("c"), body.clone())], None));
    }
    for body in small_lists(k - 1, in_loop, false, depth) {
        v.push(St::SetBlock("p".into(), vec![], body.clone(), false));
        v.push(St::FilterSection("upper".into(), body));
    }
    if depth < 2 {
        for body in small_lists(k - 1, true, true, depth + 1) {
            v.push(St::For(None, "x".into(), atom("xs"), body, vec![]));
        }
        // for / else: split the remaining nodes
        for nb in 1..k - 1 {
            for body in small_lists(nb, true, true, depth + 1) {
                for els in small_lists(k - 1 - nb, in_loop, can_break, depth) {
                    v.push(St::For(None, "x".into(), atom("xs"), body.clone(), els));
                }
            }
        }
    }
    v
}

/// all programs with at most `max_nodes` statement nodes, each under four contexts (condition
/// true / false, loop target empty / two elements), with a fixed included template that reads the
/// includer's variables and assigns
fn exhaustive_small(max_nodes: usize) -> Vec<Case> {
    let inc = tpl("[{{ p | default(value=\"~\") }}{{ x | default(value=\"~\") }}]{% set p = \"I\" %}{% set_global q = 1 %}");
    let mut out = Vec::new();
    for n in 1..=max_nodes {
        for body in small_lists(n, false, false, 0) {
            for (c, xs) in [(true, vec![3, 4]), (false, vec![3, 4]), (true, vec![])] {
                out.push(Case {
                    templates: vec![("main".into(), body.clone()), ("inc".into(), inc.clone())],
                    ctx: vec![("c".into(), Value::from(c)), ("i".into(), Value::from(7)), ("xs".into(), Value::from(xs.iter().map(|x| Value::from(*x)).collect::<Vec<_>>()))],
                    global: vec![("p".into(), Value::from("glob"))],
                    stream: "exhaustive_small".into(),
                });
            }
        }
    }
    out
}




// ------------------------------------------------------------------ set / set_global forms x places (directed, every seed)

/// statements of the directed assignment family
#[derive(Clone, Debug)]
enum M {
    T(&'static str),
    /// `[{{ p | default(value="~") }}]`
    R,
    /// the assignment under test (kind and form are parameters of the family)
    Assign,
    For(&'static str, &'static str, Vec<M>, Vec<M>),
    IfEq(&'static str, i64, Vec<M>),
    Filter(Vec<M>),
    Inc,
}

thread_local! {
    /// the probes of the M family also read through the custom function / filter / test
    static PEEK_MODE: std::cell::Cell<bool> = const { std::cell::Cell::new(false) };
}

/// source text; `global`: set_global; `form`: 0 = `{% set p = "v" ~ x %}`, 1 = block, 2 = block with `| upper`
fn m_src(ms: &[M], global: bool, form: u8, out: &mut String) {
    let kw = if global { "set_global" } else { "set" };
    for m in ms {
        match m {
            M::T(t) => out.push_str(t),
            M::R if PEEK_MODE.with(|p| p.get()) => out.push_str("[{{ p | default(value=\"~\") }}={{ peek(name=\"p\") }}={{ \"p\" | peekf }}={{ (p | default(value=\"~\")) is same_as_var(name=\"p\") }}]"),
            M::R => out.push_str("[{{ p | default(value=\"~\") }}]"),
            M::Assign => match form {
                0 => out.push_str(&format!("{{% {kw} p = \"v\" ~ x %}}")),
                1 => out.push_str(&format!("{{% {kw} p %}}v{{{{ x }}}}{{% endset %}}")),
                _ => out.push_str(&format!("{{% {kw} p | upper %}}v{{{{ x }}}}{{% endset %}}")),
            },
            M::For(v, list, body, els) => {
                out.push_str(&format!("{{% for {v} in {list} %}}"));
                m_src(body, global, form, out);
                if !els.is_empty() {
                    out.push_str("{% else %}");
                    m_src(els, global, form, out);
                }
                out.push_str("{% endfor %}");
            }
            M::IfEq(v, n, body) => {
                out.push_str(&format!("{{% if {v} == {n} %}}"));
                m_src(body, global, form, out);
                out.push_str("{% endif %}");
            }
            M::Filter(body) => {
                out.push_str("{% filter upper %}");
                m_src(body, global, form, out);
                out.push_str("{% endfilter %}");
            }
            M::Inc => out.push_str("{% include \"inc\" %}"),
        }
    }
}

/// Reference scoping, straight from the documentation: names resolve innermost loop first, then
/// assignments, then the includer, then the context; `set` inside a loop lasts for that iteration,
/// `set_global` (any form) and `set` outside loops for the rest of the render; an included
/// template's assignments reach nobody
struct MState<'a> {
    loops: Vec<BTreeMap<String, String>>,
    assigned: BTreeMap<String, String>,
    parent: Option<&'a MState<'a>>,
    ctx: &'a BTreeMap<String, String>,
    lists: &'a BTreeMap<&'static str, Vec<String>>,
}
impl MState<'_> {
    fn get(&self, n: &str) -> Option<String> {
        for l in self.loops.iter().rev() {
            if let Some(v) = l.get(n) {
                return Some(v.clone());
            }
        }
        if let Some(v) = self.assigned.get(n) {
            return Some(v.clone());
        }
        if let Some(v) = self.parent.and_then(|p| p.get(n)) {
            return Some(v);
        }
        self.ctx.get(n).cloned()
    }
}

fn m_run(ms: &[M], st: &mut MState, global: bool, form: u8, inc: &[M], out: &mut String) {
    for m in ms {
        match m {
            M::T(t) => out.push_str(t),
            M::R if PEEK_MODE.with(|p| p.get()) => {
                let v = st.get("p").unwrap_or_else(|| "~".into());
                out.push_str(&format!("[{v}={v}={v}=true]"));
            }
            M::R => out.push_str(&format!("[{}]", st.get("p").unwrap_or_else(|| "~".into()))),
            M::Assign => {
                let v = format!("v{}", st.get("x").unwrap_or_default());
                let v = if form == 2 { v.to_uppercase() } else { v };
                if global || st.loops.is_empty() {
                    st.assigned.insert("p".into(), v);
                } else {
                    st.loops.last_mut().unwrap().insert("p".into(), v);
                }
            }
            M::For(var, list, body, els) => {
                let items = st.lists[list].clone();
                if items.is_empty() {
                    m_run(els, st, global, form, inc, out);
                }
                st.loops.push(BTreeMap::new());
                for it in items {
                    // a fresh iteration: the loop variable and nothing else
                    *st.loops.last_mut().unwrap() = BTreeMap::from([(var.to_string(), it)]);
                    m_run(body, st, global, form, inc, out);
                }
                st.loops.pop();
            }
            M::IfEq(v, n, body) => {
                if st.get(v).as_deref() == Some(&n.to_string()) {
                    m_run(body, st, global, form, inc, out);
                }
            }
            M::Filter(body) => {
                let mut o = String::new();
                m_run(body, st, global, form, inc, &mut o);
                out.push_str(&o.to_uppercase());
            }
            M::Inc => {
                let mut o = String::new();
                {
                    let mut child = MState { loops: vec![], assigned: BTreeMap::new(), parent: Some(&*st), ctx: st.ctx, lists: st.lists };
                    m_run(inc, &mut child, global, form, &[], &mut o);
                }
                out.push_str(&o);
            }
        }
    }
}

/// {set, set_global} x {expression, block, block | upper} x {top level, for body, nested for, for-else
/// inside a loop, if inside for, filter section inside for, include inside for} x reads {before the
/// assignment (= what an earlier iteration left), after it, after the loop(s)} x `p` in the context or not
fn oracle_set_forms(out: &mut Vec<Check>) {
    use M::*;
    let places: Vec<(&str, Vec<M>)> = vec![
        ("top_level", vec![R, Assign, R, T("|"), For("x", "xs", vec![R], vec![]), R]),
        ("for_body", vec![For("x", "xs", vec![T("<"), R, Assign, R, T(">")], vec![]), R]),
        ("nested_for", vec![For("y", "ys", vec![T("{"), R, For("x", "xs", vec![T("<"), R, Assign, R, T(">")], vec![]), R, T("}")], vec![]), R]),
        ("for_else_in_loop", vec![For("y", "ys", vec![T("{"), R, For("x", "none_", vec![T("never")], vec![Assign, R]), R, T("}")], vec![]), R]),
        ("for_else_top", vec![For("x", "none_", vec![T("never")], vec![Assign, R]), R]),
        ("if_in_for", vec![For("x", "xs", vec![T("<"), R, IfEq("x", 1, vec![Assign, R]), R, T(">")], vec![]), R]),
        ("filter_section_in_for", vec![For("x", "xs", vec![T("<"), R, Filter(vec![T("f"), Assign, R]), R, T(">")], vec![]), R]),
        ("include_in_for", vec![For("x", "xs", vec![T("<"), R, Inc, R, T(">")], vec![]), R]),
        ("set_block_in_for", vec![For("x", "xs", vec![T("<"), R, Assign, For("z", "ys", vec![R], vec![]), T(">")], vec![]), R]),
        // the probed name is itself a loop variable, shadowed in turn by an assignment and seen from an include
        ("loop_var_named_p", vec![R, For("p", "ys", vec![T("<"), R, For("x", "xs", vec![R, IfEq("x", 2, vec![Assign, R]), R], vec![]), Inc, R, T(">")], vec![]), R]),
    ];
    let inc: Vec<M> = vec![T("("), R, Assign, R, T(")")];
    let lists: BTreeMap<&'static str, Vec<String>> = BTreeMap::from([("xs", vec!["1".to_string(), "2".to_string(), "3".to_string()]), ("ys", vec!["a".to_string(), "b".to_string()]), ("none_", vec![])]);
    for (place, prog) in &places {
        for global in [false, true] {
            for form in 0..3u8 {
                for p_in_ctx in [false, true] {
                    let mut ctxm: BTreeMap<String, String> = BTreeMap::from([("x".to_string(), "0".to_string())]);
                    let mut ctx = vec![
                        ("x".to_string(), Value::from(0)),
                        ("xs".to_string(), Value::from(vec![Value::from(1), Value::from(2), Value::from(3)])),
                        ("ys".to_string(), Value::from(vec![Value::from("a"), Value::from("b")])),
                        ("none_".to_string(), Value::from(Vec::<Value>::new())),
                    ];
                    if p_in_ctx {
                        ctxm.insert("p".into(), "C".into());
                        ctx.push(("p".into(), Value::from("C")));
                    }
                    let mut st = MState { loops: vec![], assigned: BTreeMap::new(), parent: None, ctx: &ctxm, lists: &lists };
                    let mut expected = String::new();
                    m_run(prog, &mut st, global, form, &inc, &mut expected);
                    let (mut main_src, mut inc_src) = (String::new(), String::new());
                    m_src(prog, global, form, &mut main_src);
                    m_src(&inc, global, form, &mut inc_src);
                    let _ = place;
                    out.push(Check {
                        oracle: "scope.set_forms_by_place",
                        case: Case { templates: vec![("main".into(), tpl(&main_src)), ("inc".into(), tpl(&inc_src))], ctx: ctx.clone(), global: vec![], stream: "oracle.set_forms".into() },
                        expect: Expect::Text(expected),
                    });
                    // the same program with every read doubled by `State::get` from a custom function,
                    // filter and test: user code must see what `{{ p }}` sees at that place
                    PEEK_MODE.with(|p| p.set(true));
                    let mut st = MState { loops: vec![], assigned: BTreeMap::new(), parent: None, ctx: &ctxm, lists: &lists };
                    let mut expected = String::new();
                    m_run(prog, &mut st, global, form, &inc, &mut expected);
                    let (mut main_src, mut inc_src) = (String::new(), String::new());
                    m_src(prog, global, form, &mut main_src);
                    m_src(&inc, global, form, &mut inc_src);
                    PEEK_MODE.with(|p| p.set(false));
                    out.push(Check {
                        oracle: "scope.state_get_sees_same_as_template",
                        case: Case { templates: vec![("main".into(), tpl(&main_src)), ("inc".into(), tpl(&inc_src))], ctx, global: vec![], stream: "oracle.set_forms".into() },
                        expect: Expect::Text(expected),
                    });
                }
            }
        }
    }
}


// ------------------------------------------------------------------ loop.* through captures; fallback prefixes

/// `loop.*` refers to the innermost enclosing `for` also through filter sections, set blocks and
/// ifs between the loop and the read — whether or not the context has a variable called `loop`
fn oracle_loop_fields_through_captures(out: &mut Vec<Check>) {
    let fields = "{{ loop.index }}/{{ loop.index0 }}/{{ loop.first }}/{{ loop.last }}/{{ loop.length }}";
    let cell = |k: usize, n: usize| format!("{}/{}/{}/{}/{}", k + 1, k, k == 0, k + 1 == n, n);
    // (wrapper with `@` for the read, does it upper-case)
    let wrappers: Vec<(&str, bool)> = vec![
        ("@", false),
        ("{% filter upper %}@{% endfilter %}", true),
        ("{% filter trim %} @ {% endfilter %}", false),
        ("{% set c %}@{% endset %}{{ c }}", false),
        ("{% set c | upper %}@{% endset %}{{ c }}", true),
        ("{% set_global c %}@{% endset %}{{ c }}", false),
        ("{% if true %}@{% endif %}", false),
        ("{% if true %}{% filter upper %}@{% endfilter %}{% endif %}", true),
        ("{% filter upper %}{% if true %}@{% endif %}{% endfilter %}", true),
        ("{% set c %}{% filter upper %}@{% endfilter %}{% endset %}{{ c }}", true),
        ("{% filter upper %}{% set c %}@{% endset %}{{ c }}{% endfilter %}", true),
        ("{% filter lower %}{% filter upper %}@{% endfilter %}{% endfilter %}", false),
        ("{% set c %}{% set d %}@{% endset %}{{ d }}{% endset %}{{ c }}", false),
        ("{% filter upper %}{% if loop.first %}F{% else %}N{% endif %}:@{% endfilter %}", true),
        ("{% set c = loop.index * 10 %}{% filter upper %}{{ c }}:@{% endfilter %}", true),
    ];
    for with_ctx_loop in [false, true] {
        let mut ctx = vec![("xs".to_string(), Value::from(vec![Value::from("p"), Value::from("q"), Value::from("r")])), ("ys".to_string(), Value::from(vec![Value::from(1), Value::from(2)]))];
        if with_ctx_loop {
            let mut m = tera::Map::new();
            for k in ["index", "index0", "first", "last", "length"] {
                m.insert(k.into(), Value::from("CTX"));
            }
            ctx.push(("loop".into(), Value::from(m)));
        }
        let mk = |src: &str| simple_case("oracle.loop_fields", src, ctx.clone(), vec![]);
        for (w, upper) in &wrappers {
            let mut exp = String::new();
            for k in 0..3 {
                let mut c = cell(k, 3);
                if w.contains("F{% else %}N") {
                    c = format!("{}:{c}", if k == 0 { "F" } else { "N" });
                }
                if w.contains("loop.index * 10") {
                    c = format!("{}:{c}", (k + 1) * 10);
                }
                let c = if *upper { c.to_uppercase() } else { c };
                exp.push_str(&format!("[{c}]"));
            }
            out.push(Check { oracle: "loop.fields_through_captures", case: mk(&format!("{{% for x in xs %}}[{}]{{% endfor %}}", w.replace('@', fields))), expect: Expect::Text(exp) });
            // the same read in an inner loop inside the wrapper refers to the INNER loop
            let mut exp = String::new();
            for _ in 0..3 {
                let mut inner = String::new();
                for j in 0..2 {
                    inner.push_str(&format!("({})", cell(j, 2)));
                }
                let inner = if *upper { inner.to_uppercase() } else { inner };
                if w.contains("F{% else %}N") || w.contains("loop.index * 10") {
                    continue;
                }
                exp.push_str(&format!("[{inner}]"));
            }
            if !(w.contains("F{% else %}N") || w.contains("loop.index * 10")) {
                out.push(Check {
                    oracle: "loop.fields_through_captures",
                    case: mk(&format!("{{% for x in xs %}}[{}]{{% endfor %}}", w.replace('@', &format!("{{% for y in ys %}}({fields}){{% endfor %}}")))),
                    expect: Expect::Text(exp),
                });
            }
        }
        // outside every loop (and in a template included from inside a loop) `loop` is an ordinary name
        let e = if with_ctx_loop { Expect::Text("CTX".into()) } else { Expect::ErrClass("undefined") };
        out.push(Check { oracle: "loop.fields_through_captures", case: mk("{% filter upper %}{{ loop.index }}{% endfilter %}"), expect: e.clone() });
        out.push(Check {
            oracle: "loop.fields_through_captures",
            case: Case { templates: vec![("main".into(), tpl("{% for x in ys %}{% if loop.first %}{% include \"inc\" %}{% endif %}{% endfor %}")), ("inc".into(), tpl("{{ loop.index }}"))], ctx: ctx.clone(), global: vec![], stream: "oracle.loop_fields".into() },
            expect: e,
        });
    }
}

/// `include "name"` (and `render("name")`, and includes inside `render_str`) resolve the exact name
/// first, then the fallback prefixes IN ORDER
fn oracle_fallback_prefixes(out: &mut Vec<Check>) {
    let prefix_sets: Vec<Vec<&str>> = vec![vec!["a/", "b/"], vec!["b/", "a/"], vec!["a/", "b/", "c/"], vec!["c/", "b/", "a/"], vec!["a/"]];
    let holders = ["", "a/", "b/", "c/"];
    let mains: Vec<(&str, &str)> = vec![
        ("plain", "<{% include \"part\" %}>"),
        ("in_for", "{% for x in [1, 2] %}<{% include \"part\" %}>{% endfor %}"),
        ("in_set_block", "{% set c %}{% include \"part\" %}{% endset %}<{{ c }}>"),
        ("in_filter_in_for", "{% for x in [1] %}{% filter lower %}<{% include \"part\" %}>{% endfilter %}{% endfor %}"),
        ("chain", "<{% include \"mid\" %}>"),
    ];
    for prefixes in &prefix_sets {
        // which of part, a/part, b/part, c/part exist: every non-empty subset
        for mask in 1u32..16 {
            let present: Vec<String> = holders.iter().enumerate().filter(|(i, _)| mask & (1 << i) != 0).map(|(_, h)| format!("{h}part")).collect();
            let pf: Vec<String> = prefixes.iter().map(|p| p.to_string()).collect();
            let Some(resolved) = resolve_by_rule(&pf, &present, "part") else { continue };
            let marker = |n: &str| n.replace('/', "-").to_uppercase();
            for (mname, msrc) in &mains {
                let mut templates: Vec<(String, Vec<St>)> = present.iter().map(|n| (n.clone(), tpl(&format!("{}{{{{ x | default(value=\"\") }}}}", marker(n))))).collect();
                // the intermediate template of the chain lives under the LAST prefix only
                templates.push((format!("{}mid", prefixes.last().unwrap()), tpl("m:{% include \"part\" %}")));
                let (body, reps): (String, Vec<&str>) = match *mname {
                    "plain" => ("<@>".into(), vec![""]),
                    "in_for" => ("<@>".into(), vec!["1", "2"]),
                    "in_set_block" => ("<@>".into(), vec![""]),
                    "in_filter_in_for" => ("<@>".into(), vec!["1"]),
                    _ => ("<m:@>".into(), vec![""]),
                };
                let mut expected = String::new();
                for r in reps {
                    let t = format!("{}{r}", marker(&resolved));
                    let t = if *mname == "in_filter_in_for" { t.to_lowercase() } else { t };
                    expected.push_str(&body.replace('@', &t));
                }
                // (1) a registered main template, (2) the same source through render_str, (3) rendered by a bare name
                let mut t1 = templates.clone();
                t1.push(("main".into(), tpl(msrc)));
                out.push(Check { oracle: "include.fallback_prefix_order", case: Case { templates: t1, ctx: vec![], global: vec![], stream: format!("prefixes|{}|render|main", prefixes.join(";")) }, expect: Expect::Text(expected.clone()) });
                let mut t2 = templates.clone();
                t2.push(("__str".into(), tpl(msrc)));
                out.push(Check { oracle: "include.fallback_prefix_order", case: Case { templates: t2, ctx: vec![], global: vec![], stream: format!("prefixes|{}|str|", prefixes.join(";")) }, expect: Expect::Text(expected.clone()) });
            }
            // render by the bare name: same rule
            let templates: Vec<(String, Vec<St>)> = present.iter().map(|n| (n.clone(), tpl(&marker(n)))).collect();
            out.push(Check { oracle: "include.fallback_prefix_order", case: Case { templates, ctx: vec![], global: vec![], stream: format!("prefixes|{}|render|part", prefixes.join(";")) }, expect: Expect::Text(marker(&resolved)) });
        }
    }
}


/// include graphs with SHARED nodes are not cycles: they are accepted and render
fn oracle_include_dag(out: &mut Vec<Check>) {
    let fam = |ts: &[(&str, &str)]| -> Vec<(String, Vec<St>)> { ts.iter().map(|(n, s)| (n.to_string(), tpl(s))).collect() };
    let cases: Vec<(Vec<(String, Vec<St>)>, &str)> = vec![
        (fam(&[("main", "P[{% include \"header\" %}|{% include \"sidebar\" %}]"), ("header", "H({% include \"icon\" %})"), ("sidebar", "S({% include \"icon\" %})"), ("icon", "*")]), "P[H(*)|S(*)]"),
        (fam(&[("main", "M[{% include \"a\" %}|{% include \"b\" %}]"), ("a", "A"), ("b", "B<{% include \"a\" %}>")]), "M[A|B<A>]"),
        (fam(&[("main", "M[{% include \"b\" %}|{% include \"a\" %}|{% include \"a\" %}]"), ("a", "A"), ("b", "B<{% include \"a\" %}{% include \"a\" %}>")]), "M[B<AA>|A|A]"),
        (fam(&[("main", "{% include \"l\" %}{% include \"r\" %}"), ("l", "l({% include \"m\" %})"), ("r", "r({% include \"m\" %})"), ("m", "m[{% include \"leaf\" %}{% include \"leaf2\" %}]"), ("leaf", "x"), ("leaf2", "y{% include \"leaf\" %}")]), "l(m[xyx])r(m[xyx])"),
        (fam(&[("main", "{% for i in [1, 2] %}{% include \"a\" %}{% set c %}{% include \"b\" %}{% endset %}{{ c }}{% endfor %}"), ("a", "a{{ i }}{% include \"shared\" %}"), ("b", "b{{ i }}{% include \"shared\" %}{% include \"a\" %}"), ("shared", "s")]), "a1sb1sa1sa2sb2sa2s"),
        (fam(&[("main", "{% include \"d1\" %}"), ("d1", "1{% include \"d2\" %}{% include \"d3\" %}"), ("d2", "2{% include \"d3\" %}{% include \"d4\" %}"), ("d3", "3{% include \"d4\" %}"), ("d4", "4")]), "1234434"),
    ];
    for (templates, expect) in cases {
        // every template of the family is a valid render target too
        out.push(Check { oracle: "include.shared_nodes_are_not_cycles", case: Case { templates, ctx: vec![], global: vec![], stream: "oracle.include_dag".into() }, expect: Expect::Text(expect.to_string()) });
    }
}

/// dotted paths rooted at the magic `__tera_context` read the same values as the plain names
fn oracle_tera_context_paths(out: &mut Vec<Check>) {
    let mut nested = tera::Map::new();
    nested.insert("a".into(), Value::from(1));
    let ctx = vec![("name".to_string(), Value::from("N")), ("x".to_string(), Value::from("low")), ("k".to_string(), Value::from(5)), ("nested".to_string(), Value::from(nested)), ("xs".to_string(), Value::from(vec![Value::from(7), Value::from(8)]))];
    for (src, e) in [
        ("{{ __tera_context.name }}", Some("N")),
        ("{{ __tera_context.name }}={{ name }}", Some("N=N")),
        ("{{ __tera_context.x | upper }}", Some("LOW")),
        ("{{ __tera_context.y or 'd' }}", Some("d")),
        ("{{ __tera_context.y | default(value=\"d\") }}", Some("d")),
        ("{{ __tera_context.y is defined }}/{{ __tera_context.x is defined }}", Some("false/true")),
        ("{{ __tera_context.nested.a }}/{{ __tera_context.nested.a + __tera_context.k }}", Some("1/6")),
        ("{{ __tera_context.k + 1 }}/{{ __tera_context.k == k }}/{{ __tera_context.xs[1] }}", Some("6/true/8")),
        ("{% if __tera_context.name %}T{% else %}F{% endif %}{% if __tera_context.nope %}T{% else %}F{% endif %}", Some("TF")),
        ("{{ \"a\" if __tera_context.k else \"b\" }}/{{ __tera_context.name ~ \"!\" }}", Some("a/N!")),
        ("{% set s = 3 %}{{ __tera_context.s }}/{{ __tera_context.s * 2 }}", Some("3/6")),
        ("{% for v in __tera_context.xs %}{{ v }}{% endfor %}", Some("78")),
        ("{{ __tera_context?.name }}/{{ __tera_context?.nope is defined }}", Some("N/false")),
        ("{{ __tera_context.nope.deeper }}", None),
        ("{{ __tera_context.nope }}", None),
    ] {
        out.push(Check { oracle: "tera_context.dotted_paths", case: simple_case("oracle.tera_context", src, ctx.clone(), vec![]), expect: match e { Some(t) => Expect::Text(t.into()), None => Expect::AnyErr } });
    }
}


/// The render context comes before the global context on EVERY entry point (render, render_to with
/// a writer, render_str, include), for keys in both with different values, only-global and only-render
/// keys, also when a template scope shadows them; and a context built with `Context::extend` holds
/// the source's value for shared keys whatever the sizes of the two maps
fn oracle_entry_points_and_extend(out: &mut Vec<Check>) {
    let src = "{{ both }}|{{ only_r }}|{{ only_g }}|{{ missing | default(value=\"~\") }}|{% for both in [\"L\"] %}{{ both }}{% endfor %}|{% set only_g = \"S\" %}{{ only_g }}|{% include \"inc\" %}|{{ m.k }}{{ peek(name=\"both\") }}";
    let inc = "({{ both }}{{ only_g }}{{ only_r }}{{ gg }})";
    let expect = "R|r|g|~|L|S|(RSrG)|rkR";
    let mut rm = tera::Map::new();
    rm.insert("k".into(), Value::from("rk"));
    let mut gm = tera::Map::new();
    gm.insert("k".into(), Value::from("gk"));
    let ctx = vec![("both".to_string(), Value::from("R")), ("only_r".to_string(), Value::from("r")), ("m".to_string(), Value::from(rm))];
    let global = vec![("both".to_string(), Value::from("G")), ("only_g".to_string(), Value::from("g")), ("gg".to_string(), Value::from("G")), ("m".to_string(), Value::from(gm))];
    for stream in ["oracle.entry.render", "oracle.entry.render_to"] {
        out.push(Check {
            oracle: "scope.context_before_global_on_every_entry_point",
            case: Case { templates: vec![("main".into(), tpl(src)), ("inc".into(), tpl(inc))], ctx: ctx.clone(), global: global.clone(), stream: stream.into() },
            expect: Expect::Text(expect.into()),
        });
        // autoescaping template name, empty render context, empty global context
        out.push(Check {
            oracle: "scope.context_before_global_on_every_entry_point",
            case: Case { templates: vec![("main.html".into(), tpl("{{ both }}<{{ only_g | default(value=\"~\") }}>")), ("inc".into(), tpl(""))], ctx: vec![("both".into(), Value::from("<R>"))], global: vec![("both".into(), Value::from("<G>"))], stream: stream.into() },
            expect: Expect::Text("&lt;R&gt;<~>".into()),
        });
        out.push(Check {
            oracle: "scope.context_before_global_on_every_entry_point",
            case: Case { templates: vec![("main".into(), tpl("{{ both }}{{ only_g }}")), ("inc".into(), tpl(""))], ctx: vec![], global: global.clone(), stream: stream.into() },
            expect: Expect::Text("Gg".into()),
        });
    }
    // render_str: same rule (the registered include is reachable from the one-off template)
    out.push(Check {
        oracle: "scope.context_before_global_on_every_entry_point",
        case: Case { templates: vec![("__str".into(), tpl(src)), ("inc".into(), tpl(inc))], ctx: ctx.clone(), global: global.clone(), stream: "prefixes||str|".into() },
        expect: Expect::Text(expect.into()),
    });
    // ---- Context::extend: the source wins on shared keys, whatever the sizes
    let tsrc = "{% for k in [\"a\", \"b\", \"c\", \"d\", \"e\", \"f\", \"t_only\", \"s_only\"] %}{{ k }}={{ __tera_context[k] | default(value=\"~\") }};{% endfor %}";
    let _ = tsrc;
    let names = ["a", "b", "c", "d", "e", "f"];
    // (keys of the target, keys of the source): shared keys get different values
    let shapes: Vec<(Vec<&str>, Vec<&str>)> = vec![
        (vec!["a"], vec!["a", "b", "c"]),
        (vec!["a", "b"], vec!["a", "b", "c", "d", "e"]),
        (vec!["a", "b", "c", "d", "e"], vec!["a"]),
        (vec!["a", "b", "c"], vec!["a", "b", "c"]),
        (vec!["a", "b", "c"], vec!["b", "c", "d", "e"]),
        (vec![], vec!["a", "b"]),
        (vec!["a", "b"], vec![]),
        (vec!["f"], vec!["a", "b", "c", "d", "e", "f"]),
        (vec!["a", "b", "c", "d", "e", "f"], vec!["e", "f"]),
    ];
    for (tk, sk) in shapes {
        let mut ctx: Vec<(String, Value)> = Vec::new();
        for k in &tk {
            ctx.push((format!("t:{k}"), Value::from(format!("T{k}"))));
        }
        for k in &sk {
            ctx.push((format!("s:{k}"), Value::from(format!("S{k}"))));
        }
        let mut expected = String::new();
        let mut src = String::new();
        for k in names {
            src.push_str(&format!("{k}={{{{ {k} | default(value=\"~\") }}}};"));
            let v = if sk.contains(&k) { format!("S{k}") } else if tk.contains(&k) { format!("T{k}") } else { "~".to_string() };
            expected.push_str(&format!("{k}={v};"));
        }
        out.push(Check {
            oracle: "context.extend_source_wins",
            case: Case { templates: vec![("main".into(), tpl(&src))], ctx, global: vec![], stream: "oracle.ctx_extend".into() },
            expect: Expect::Text(expected),
        });
    }
}

// ------------------------------------------------------------------ value-level operator matrix (C02)

/// every encoding that can hold the integer (sign, magnitude)
fn int_encodings(neg: bool, m: u128) -> Vec<Value> {
    let mut v = Vec::new();
    if !neg || m == 0 {
        if let Ok(x) = u64::try_from(m) {
            v.push(Value::from(x));
        }
        v.push(Value::from(m));
        if let Ok(x) = i64::try_from(m) {
            v.push(Value::from(x));
        }
        if let Ok(x) = i128::try_from(m) {
            v.push(Value::from(x));
        }
    } else {
        if m <= 1u128 << 63 {
            v.push(Value::from((m as i128).wrapping_neg() as i64));
        }
        if m <= 1u128 << 127 {
            v.push(Value::from((m as i128).wrapping_neg()));
        }
    }
    v
}

fn int_lattice() -> Vec<(bool, u128)> {
    let mut out = vec![(false, 0u128), (false, 1), (true, 1), (false, 2), (true, 2), (false, 3), (true, 3)];
    for m in [1u128 << 31, 1 << 32, (1 << 53) - 1, (1 << 53) + 1, (1 << 63) - 1, 1 << 63, 1 << 64, (1 << 127) - 1] {
        out.push((false, m));
    }
    out.push((true, 1u128 << 63));
    out.push((true, 1u128 << 127));
    out.push((false, 1u128 << 127));
    out
}

fn float_lattice() -> Vec<f64> {
    vec![0.0, -0.0, 0.25, -0.25, 1.5, -1.5, 2.0, -2.0, 2.5, -2.5, 9007199254740992.0, 9223372036854775808.0, -9223372036854775808.0, 1.7014118346046923e38, f64::NAN, f64::INFINITY, f64::NEG_INFINITY]
}

fn as_exact_i128(neg: bool, m: u128) -> Option<i128> {
    if !neg {
        i128::try_from(m).ok()
    } else if m <= i128::MAX as u128 {
        Some(-(m as i128))
    } else if m == 1u128 << 127 {
        Some(i128::MIN)
    } else {
        None
    }
}

/// what exact integer arithmetic gives: Some(Ok(result)) / Some(Err) = must be an error / None = not an integer result
fn exact_int(op: &str, a: i128, b2: i128) -> Option<Result<i128, ()>> {
    Some(match op {
        "+" => a.checked_add(b2).ok_or(()),
        "-" => a.checked_sub(b2).ok_or(()),
        "*" => a.checked_mul(b2).ok_or(()),
        "//" => {
            if b2 == 0 || (a == i128::MIN && b2 == -1) { Err(()) } else { Ok(a.div_euclid(b2)) }
        }
        "%" => {
            if b2 == 0 { Err(()) } else if b2 == -1 { Ok(0) } else { Ok(a.rem_euclid(b2)) }
        }
        "**" => {
            if b2 < 0 {
                return None;
            }
            match a {
                0 => Ok(if b2 == 0 { 1 } else { 0 }),
                1 => Ok(1),
                -1 => Ok(if b2 % 2 == 0 { 1 } else { -1 }),
                _ => if b2 > 127 { Err(()) } else { a.checked_pow(b2 as u32).ok_or(()) },
            }
        }
        _ => return None,
    })
}

/// exact order of a float and an integer (NaN after every number, as C13 prescribes)
fn cmp_float_int(x: f64, neg: bool, m: u128) -> std::cmp::Ordering {
    use std::cmp::Ordering::*;
    if x.is_nan() {
        return Greater;
    }
    if x.is_infinite() {
        return if x > 0.0 { Greater } else { Less };
    }
    let xneg = x < 0.0;
    let ineg = neg && m != 0;
    match (xneg, ineg) {
        (false, true) => return Greater,
        (true, false) => return Less,
        _ => {}
    }
    let ax = x.abs();
    let mag = if ax >= 340282366920938463463374607431768211456.0 {
        Greater
    } else {
        let t = ax.trunc() as u128;
        match t.cmp(&m) {
            Equal if ax.fract() != 0.0 => Greater,
            o => o,
        }
    };
    if xneg { mag.reverse() } else { mag }
}

fn cmp_int_int(a: (bool, u128), b2: (bool, u128)) -> std::cmp::Ordering {
    use std::cmp::Ordering::*;
    let an = a.0 && a.1 != 0;
    let bn = b2.0 && b2.1 != 0;
    match (an, bn) {
        (false, false) => a.1.cmp(&b2.1),
        (true, true) => b2.1.cmp(&a.1),
        (true, false) => Less,
        (false, true) => Greater,
    }
}

fn cmp_float_float(x: f64, y: f64) -> std::cmp::Ordering {
    use std::cmp::Ordering::*;
    match (x.is_nan(), y.is_nan()) {
        (true, true) => Equal,
        (true, false) => Greater,
        (false, true) => Less,
        _ => x.partial_cmp(&y).unwrap(),
    }
}

fn cmp_text(o: std::cmp::Ordering) -> String {
    use std::cmp::Ordering::*;
    format!("{}/{}/{}/{}/{}/{}", o == Less, o != Greater, o == Greater, o != Less, o == Equal, o != Equal)
}

const CMP_TPL: &str = "{{ a < b }}/{{ a <= b }}/{{ a > b }}/{{ a >= b }}/{{ a == b }}/{{ a != b }}";


/// small value language for the array comparison matrix
#[derive(Clone, Debug)]
enum RV {
    I(i64),
    F(f64),
    S(&'static str),
    B(bool),
    N,
    M,
    A(Vec<RV>),
}

fn rv_value(v: &RV) -> Value {
    match v {
        RV::I(i) => Value::from(*i),
        RV::F(f) => Value::from(*f),
        RV::S(s) => Value::from(*s),
        RV::B(b2) => Value::from(*b2),
        RV::N => Value::none(),
        RV::M => {
            let mut m = tera::Map::new();
            m.insert("k".into(), Value::from(1));
            Value::from(m)
        }
        RV::A(xs) => Value::from(xs.iter().map(rv_value).collect::<Vec<_>>()),
    }
}

/// The documented order: numbers by value, strings, bools among themselves; arrays element by
/// element (the first differing pair decides, then the length); everything else — different kinds,
/// maps, none — has no order (None = the comparison must be an error)
fn rv_cmp(a: &RV, b2: &RV) -> Option<std::cmp::Ordering> {
    use std::cmp::Ordering::Equal;
    match (a, b2) {
        (RV::I(x), RV::I(y)) => Some(x.cmp(y)),
        (RV::I(x), RV::F(y)) => (*x as f64).partial_cmp(y),
        (RV::F(x), RV::I(y)) => x.partial_cmp(&(*y as f64)),
        (RV::F(x), RV::F(y)) => x.partial_cmp(y),
        (RV::S(x), RV::S(y)) => Some(x.cmp(y)),
        (RV::B(x), RV::B(y)) => Some(x.cmp(y)),
        // two nones are the same value (theorem cmp_kind_table: same scalar kind always compares)
        (RV::N, RV::N) => Some(Equal),
        (RV::A(xs), RV::A(ys)) => {
            for (x, y) in xs.iter().zip(ys.iter()) {
                match rv_cmp(x, y)? {
                    Equal => continue,
                    o => return Some(o),
                }
            }
            Some(xs.len().cmp(&ys.len()))
        }
        _ => None,
    }
}

fn rv_eq(a: &RV, b2: &RV) -> bool {
    match (a, b2) {
        (RV::I(x), RV::I(y)) => x == y,
        (RV::I(x), RV::F(y)) | (RV::F(y), RV::I(x)) => (*x as f64) == *y,
        (RV::F(x), RV::F(y)) => x == y,
        (RV::S(x), RV::S(y)) => x == y,
        (RV::B(x), RV::B(y)) => x == y,
        (RV::N, RV::N) | (RV::M, RV::M) => true,
        (RV::A(xs), RV::A(ys)) => xs.len() == ys.len() && xs.iter().zip(ys.iter()).all(|(x, y)| rv_eq(x, y)),
        _ => false,
    }
}

/// arrays (and nested arrays): ordering by the first differing pair, an error when that pair has no
/// order, equal prefixes decided by length; `==` / `!=` never fail.  And distinct u128 values above
/// i128::MAX are different values for `==`, `!=`, `in`.
fn oracle_value_matrix_arrays(out: &mut Vec<Check>) {
    use RV::*;
    let arrays: Vec<RV> = vec![
        A(vec![]),
        A(vec![I(1)]),
        A(vec![I(2)]),
        A(vec![F(1.5)]),
        A(vec![S("a")]),
        A(vec![S("b")]),
        A(vec![B(true)]),
        A(vec![N]),
        A(vec![M]),
        A(vec![I(1), I(2)]),
        A(vec![I(1), S("a")]),
        A(vec![I(1), N]),
        A(vec![I(1), M]),
        A(vec![I(2), I(5)]),
        A(vec![I(1), I(2), S("z")]),
        A(vec![A(vec![I(1)])]),
        A(vec![A(vec![S("a")])]),
        A(vec![A(vec![I(1)]), I(2)]),
        A(vec![A(vec![I(1)]), S("x")]),
        A(vec![A(vec![I(1), I(2)])]),
        A(vec![A(vec![]), I(1)]),
        A(vec![S("a"), I(1)]),
        A(vec![S("a"), S("b")]),
    ];
    for a in &arrays {
        for b2 in &arrays {
            let ctx = vec![("a".to_string(), rv_value(a)), ("b".to_string(), rv_value(b2))];
            let e = match rv_cmp(a, b2) {
                Some(o) => {
                    use std::cmp::Ordering::*;
                    Expect::Text(format!("{}/{}/{}/{}", o == Less, o != Greater, o == Greater, o != Less))
                }
                None => Expect::AnyErr,
            };
            out.push(Check { oracle: "value_matrix.array_ordering", case: simple_case("oracle.value_matrix", "{{ a < b }}/{{ a <= b }}/{{ a > b }}/{{ a >= b }}", ctx.clone(), vec![]), expect: e });
            let eq = rv_eq(a, b2);
            out.push(Check { oracle: "value_matrix.array_ordering", case: simple_case("oracle.value_matrix", "{{ a == b }}/{{ a != b }}/{{ a in [b] }}", ctx, vec![]), expect: Expect::Text(format!("{eq}/{}/{eq}", !eq)) });
        }
    }
    for (src, e) in [
        ("{{ [1] < [\"a\"] }}", None),
        ("{{ [1, 2] < [1, \"a\"] }}", None),
        ("{{ [[1]] >= [[\"a\"]] }}", None),
        ("{{ [1, 2] > [1] }}/{{ [1] < [1, \"a\"] }}/{{ [1, \"a\"] < [2, 5] }}/{{ [] < [none] }}", Some("true/true/true/true")),
        ("{{ [1] == [\"a\"] }}/{{ [1] != [\"a\"] }}/{{ [[1]] == [[1.0]] }}", Some("false/true/true")),
    ] {
        out.push(Check { oracle: "value_matrix.array_ordering", case: simple_case("oracle.value_matrix", src, vec![], vec![]), expect: match e { Some(t) => Expect::Text(t.into()), None => Expect::AnyErr } });
    }
    // ---- integers above i128::MAX are still distinct values
    let big: Vec<u128> = vec![u128::MAX, u128::MAX - 1, 1u128 << 127, (1u128 << 127) + 1, (1u128 << 127) - 1, 1u128 << 64, 0];
    for x in &big {
        for y in &big {
            let ctx = vec![("a".to_string(), Value::from(*x)), ("b".to_string(), Value::from(*y)), ("l".to_string(), Value::from(vec![Value::from(7u64), Value::from(*y)]))];
            out.push(Check { oracle: "value_matrix.exact_comparison", case: simple_case("oracle.value_matrix", CMP_TPL, ctx.clone(), vec![]), expect: Expect::Text(cmp_text(x.cmp(y))) });
            out.push(Check {
                oracle: "value_matrix.exact_comparison",
                case: simple_case("oracle.value_matrix", "{{ a in l }}/{{ a not in l }}/{{ a in [b] }}/{{ [a] == [b] }}/{{ [a] != [b] }}/{{ a in [a, b] }}", ctx, vec![]),
                expect: Expect::Text(format!("{e}/{n}/{e}/{e}/{n}/true", e = x == y, n = x != y)),
            });
        }
    }
}

/// Value-level matrix: exact integer arithmetic, comparison by exact value, index / slice operand
/// kinds, map lookup and membership by value across encodings — expectations computed here from the
/// rule (exact arithmetic on i128/u128, never from the engine or the model)
fn oracle_value_matrix(rng: &mut Rng, env: &Env, out: &mut Vec<Check>) {
    let ints = int_lattice();
    let mut int_vals: Vec<((bool, u128), Value)> = Vec::new();
    for &(neg, m) in &ints {
        for v in int_encodings(neg, m) {
            int_vals.push(((neg, m), v));
        }
    }
    let mk = |src: &str, ctx: Vec<(String, Value)>| simple_case("oracle.value_matrix", src, ctx, vec![]);
    let keep = |rng: &mut Rng| rng.chance(env.budget(1, 4) as u32, 4);
    // ---- exact integer arithmetic, every encoding pair
    for (ia, a) in &int_vals {
        for (ib, b2) in &int_vals {
            if !keep(rng) {
                continue;
            }
            let ctx = vec![("a".to_string(), a.clone()), ("b".to_string(), b2.clone())];
            for op in ["+", "-", "*", "//", "%", "**"] {
                let expect = match (as_exact_i128(ia.0, ia.1), as_exact_i128(ib.0, ib.1)) {
                    (Some(x), Some(y)) => match exact_int(op, x, y) {
                        Some(Ok(r)) => Expect::Text(r.to_string()),
                        Some(Err(())) => Expect::AnyErr,
                        None => continue,
                    },
                    // an operand that does not fit i128 must be an error, not a wrapped or float result
                    _ => Expect::AnyErr,
                };
                out.push(Check { oracle: "value_matrix.exact_integer_arithmetic", case: mk(&format!("{{{{ a {op} b }}}}"), ctx.clone()), expect });
            }
            out.push(Check { oracle: "value_matrix.exact_comparison", case: mk(CMP_TPL, ctx.clone()), expect: Expect::Text(cmp_text(cmp_int_int(*ia, *ib))) });
        }
        // unary minus
        let e = match as_exact_i128(ia.0, ia.1).and_then(|x| x.checked_neg()) {
            Some(r) => Expect::Text(r.to_string()),
            None => Expect::AnyErr,
        };
        out.push(Check { oracle: "value_matrix.exact_integer_arithmetic", case: mk("{{ -a }}", vec![("a".to_string(), a.clone())]), expect: e });
    }
    // literal forms of the pow corner cases and of a division that yields a float
    for (src, e) in [
        ("{{ 0 ** 4294967296 }}", Some("0")),
        ("{{ 0 ** 4294967297 }}", Some("0")),
        ("{{ 0 ** 0 }}", Some("1")),
        ("{{ 1 ** 4294967296 }}", Some("1")),
        ("{{ (-1) ** 4294967296 }}", Some("1")),
        ("{{ (-1) ** 4294967297 }}", Some("-1")),
        ("{{ (0 - 1) ** 1099511627777 }}", Some("-1")),
        ("{{ 2 ** 4294967296 }}", None),
        ("{{ 2 ** 127 }}", None),
        ("{{ 2 ** 126 }}", Some("85070591730234615865843651857942052864")),
        ("{{ (-2) ** 127 }}", Some("-170141183460469231731687303715884105728")),
        ("{{ 4 / 2 }}", Some("2.0")),
        ("{{ 7 // 2 }}/{{ -7 // 2 }}/{{ 7 % -2 }}/{{ -7 % 2 }}", Some("3/-4/1/1")),
    ] {
        out.push(Check { oracle: "value_matrix.exact_integer_arithmetic", case: mk(src, vec![]), expect: match e { Some(t) => Expect::Text(t.into()), None => Expect::AnyErr } });
    }
    // ---- comparison by exact value: floats against every integer encoding, both ways, and floats among themselves
    let floats = float_lattice();
    for x in &floats {
        for (ib, b2) in &int_vals {
            let o = cmp_float_int(*x, ib.0, ib.1);
            out.push(Check { oracle: "value_matrix.exact_comparison", case: mk(CMP_TPL, vec![("a".to_string(), Value::from(*x)), ("b".to_string(), b2.clone())]), expect: Expect::Text(cmp_text(o)) });
            out.push(Check { oracle: "value_matrix.exact_comparison", case: mk(CMP_TPL, vec![("a".to_string(), b2.clone()), ("b".to_string(), Value::from(*x))]), expect: Expect::Text(cmp_text(o.reverse())) });
        }
        for y in &floats {
            out.push(Check { oracle: "value_matrix.exact_comparison", case: mk(CMP_TPL, vec![("a".to_string(), Value::from(*x)), ("b".to_string(), Value::from(*y))]), expect: Expect::Text(cmp_text(cmp_float_float(*x, *y))) });
        }
    }
    for (src, e) in [
        ("{{ -1.5 < -1 }}/{{ -1.5 <= -2 }}/{{ -1 > -1.5 }}/{{ -2 < -1.5 }}", "true/false/true/true"),
        ("{{ (0 - 1.5) < (0 - 1) }}/{{ (3 / -2) < -1 }}/{{ (-5 / 2) > -3 }}/{{ (-5 / 2) < -2 }}", "true/true/true/true"),
        ("{{ -0.25 < 0 }}/{{ -0.25 > -1 }}/{{ 0.25 > 0 }}/{{ -0.0 == 0 }}", "true/true/true/true"),
        ("{% for z in [5] %}{{ loop.index > 0.5 }}/{{ loop.index0 > -0.5 }}/{{ -0.5 < loop.index0 }}{% endfor %}", "true/true/true"),
    ] {
        out.push(Check { oracle: "value_matrix.exact_comparison", case: mk(src, vec![]), expect: Expect::Text(e.into()) });
    }
    // ---- index / slice operands: integers of every encoding work by value; a float (integral or not) is an error
    let seq_ctx = |extra: Vec<(String, Value)>| {
        let mut c = vec![
            ("xs".to_string(), Value::from(vec![Value::from("a"), Value::from("b"), Value::from("c")])),
            ("st".to_string(), Value::from("xyz")),
        ];
        c.extend(extra);
        c
    };
    for (iv, v) in &int_vals {
        let idx: Option<i128> = as_exact_i128(iv.0, iv.1);
        let norm = idx.map(|i| if i < 0 { i + 3 } else { i });
        let e = match norm {
            Some(i) if (0..3).contains(&i) => format!("{}/{}/true", ["a", "b", "c"][i as usize], ["x", "y", "z"][i as usize]),
            _ => "~/~/false".to_string(),
        };
        out.push(Check {
            oracle: "value_matrix.index_by_value",
            case: mk("{{ xs[i] | default(value=\"~\") }}/{{ st[i] | default(value=\"~\") }}/{{ xs[i] is defined }}", seq_ctx(vec![("i".to_string(), v.clone())])),
            expect: Expect::Text(e),
        });
    }
    for x in &floats {
        for src in ["{{ xs[f] is defined }}", "{{ st[f] is defined }}", "{{ xs[f:] }}", "{{ xs[:f] }}", "{{ xs[::f] }}", "{{ st[f:] }}", "{{ xs?[f] is defined }}"] {
            out.push(Check { oracle: "value_matrix.float_index_is_error", case: mk(src, seq_ctx(vec![("f".to_string(), Value::from(*x))])), expect: Expect::AnyErr });
        }
    }
    for src in ["{{ xs[1.0] }}", "{{ xs[4 / 2] }}", "{{ xs[2.0:] }}", "{{ xs[:4 / 2] }}", "{{ st[1.0] }}", "{{ xs[(2 * 0.5)] }}", "{{ xs[1:3:1.0] }}", "{{ xs[-0.0] }}", "{{ xs[\"1\"] }}", "{{ xs[true] }}", "{{ xs[none] }}", "{{ xs[[0]] }}"] {
        out.push(Check { oracle: "value_matrix.float_index_is_error", case: mk(src, seq_ctx(vec![])), expect: Expect::AnyErr });
    }
    for (src, e) in [("{{ xs[4 // 2] }}", "c"), ("{{ xs[3 - 2] }}", "b"), ("{{ xs[-1] }}", "c"), ("{% for z in [0] %}{{ xs[loop.index] }}{{ xs[loop.index0] }}{% endfor %}", "ba"), ("{{ xs[1:] }}|{{ xs[:-1] }}|{{ xs[::-1] }}|{{ st[1:2] }}", "[\"b\", \"c\"]|[\"a\", \"b\"]|[\"c\", \"b\", \"a\"]|y")] {
        out.push(Check { oracle: "value_matrix.index_by_value", case: mk(src, seq_ctx(vec![])), expect: Expect::Text(e.into()) });
    }
    // ---- map lookup and membership by value across key and operand encodings
    use tera::value::Key;
    let key_encodings = |n: i64| -> Vec<Key<'static>> {
        let mut v = vec![Key::I64(n), Key::I128(n as i128)];
        if n >= 0 {
            v.push(Key::U64(n as u64));
            v.push(Key::U128(n as u128));
        }
        v
    };
    for k1 in key_encodings(1) {
        for kneg in key_encodings(-1) {
            let mut m = tera::Map::new();
            m.insert(k1.clone(), Value::from("one"));
            m.insert(kneg.clone(), Value::from("neg"));
            m.insert(Key::from("s".to_string()), Value::from("str"));
            for (_, probe) in int_vals.iter().filter(|(iv, _)| iv.1 == 1) {
                let want = if probe.as_i128() == Some(1) { "one" } else { "neg" };
                out.push(Check {
                    oracle: "value_matrix.map_lookup_by_value",
                    case: mk("{{ m[k] }}/{{ k in m }}/{{ k not in m }}/{{ m[(k + 0)] }}/{{ (k * 2) in m }}", vec![("m".to_string(), Value::from(m.clone())), ("k".to_string(), probe.clone())]),
                    expect: Expect::Text(format!("{want}/true/false/{want}/false")),
                });
            }
            out.push(Check {
                oracle: "value_matrix.map_lookup_by_value",
                case: mk("{{ m[1] }}/{{ m[-1] }}/{{ m[2 - 1] }}/{{ 1 in m }}/{{ 2 in m }}/{% for z in [0] %}{{ m[loop.index] }}/{{ loop.index in m }}/{{ m[loop.index0 - 1] }}{% endfor %}/{{ m[\"s\"] }}/{{ m.s }}", vec![("m".to_string(), Value::from(m.clone()))]),
                expect: Expect::Text("one/neg/one/true/false/one/true/neg/str/str".into()),
            });
            // a float is not a key
            for src in ["{{ m[1.0] }}", "{{ m[2 / 2] }}", "{{ m[none] }}", "{{ m[[1]] }}"] {
                out.push(Check { oracle: "value_matrix.map_lookup_by_value", case: mk(src, vec![("m".to_string(), Value::from(m.clone()))]), expect: Expect::AnyErr });
            }
        }
    }
    // a map literal written in the template, looked up with every operand encoding
    for (_, probe) in int_vals.iter().filter(|(iv, _)| *iv == (false, 1) || *iv == (false, 2)) {
        let want = if probe.as_u128() == Some(1) { "a" } else { "b" };
        out.push(Check {
            oracle: "value_matrix.map_lookup_by_value",
            case: mk("{% set lit = {1: \"a\", 2: \"b\"} %}{{ lit[k] }}/{{ k in lit }}/{{ k in [1, 2] }}/{{ (k + 2) in lit }}", vec![("k".to_string(), probe.clone())]),
            expect: Expect::Text(format!("{want}/true/true/false")),
        });
    }
    out.push(Check { oracle: "value_matrix.map_lookup_by_value", case: mk("{% set by_id = {1: \"a\", 2: \"b\"} %}{% for x in [7, 8] %}{{ by_id[loop.index] }}{{ loop.index in by_id }}{% endfor %}", vec![]), expect: Expect::Text("atruebtrue".into()) });
}

// ------------------------------------------------------------------ inheritance (C04 on the evaluator)

/// One definition of a block in a marker family: its own text, where `{{ super() }}` sits
/// (0 = absent, 1 = before the text, 2 = after, 3 = as `{% set z = super() %}…{{ z }}`), and for
/// block `a` whether the nested block `c` is (re)declared inside it
#[derive(Clone, Copy, Debug, PartialEq)]
struct BDef {
    sup: u8,
    nested_c: bool,
}

/// levels[k][b]: definition of block b (0 = a, 1 = b, 2 = c) in the template at depth k of the chain
type Family = Vec<[Option<BDef>; 3]>;
const BNAMES: [&str; 3] = ["a", "b", "c"];

fn family_sources(f: &Family) -> Vec<(String, Vec<St>)> {
    let mut out = Vec::new();
    for (k, lvl) in f.iter().enumerate() {
        let def_src = |b: usize, d: &BDef, nested: &dyn Fn() -> String| -> String {
            let own = format!("{}{k}", BNAMES[b].to_uppercase());
            let inner = if b == 0 && d.nested_c { format!("{own}<{}>", nested()) } else { own };
            let body = match d.sup {
                0 => inner,
                1 => format!("{{{{ super() }}}}{inner}"),
                2 => format!("{inner}{{{{ super() }}}}"),
                _ => format!("{{% set z{n} = super() %}}{inner}({{{{ z{n} }}}})", n = BNAMES[b]),
            };
            format!("{{% block {} %}}{body}{{% endblock %}}", BNAMES[b])
        };
        let c_decl = || match &lvl[2] {
            // c declared inside a when a (re)declares it
            Some(d) => def_src(2, d, &|| String::new()),
            None => "{% block c %}Cdflt{% endblock %}".to_string(),
        };
        let mut src = String::new();
        if k > 0 {
            src.push_str(&format!("{{% extends \"t{}\" %}}ignored text{{% set ign = 1 %}}", k - 1));
        } else {
            src.push_str("[{{ who }}:");
        }
        let a_has_c = lvl[0].is_some_and(|d| d.nested_c);
        if let Some(d) = &lvl[0] {
            src.push_str(&def_src(0, d, &c_decl));
        }
        if k == 0 {
            src.push('|');
        }
        if let Some(d) = &lvl[1] {
            src.push_str(&def_src(1, d, &|| String::new()));
        }
        if !a_has_c {
            if let Some(d) = &lvl[2] {
                src.push_str(&def_src(2, d, &|| String::new()));
            }
        }
        if k == 0 {
            src.push(']');
        }
        out.push((format!("t{k}"), tpl(&src)));
    }
    out
}

/// Reference semantics of blocks, straight from the documentation: a block renders its most
/// derived definition (searching from template `from` up the chain); `super()` renders the next
/// definition further up
thread_local! {
    /// blocks the reference renderer went through (render_block of a block the layout never reaches is "")
    static REACHED: std::cell::Cell<[bool; 3]> = const { std::cell::Cell::new([false; 3]) };
}

fn ref_block(f: &Family, b: usize, from: usize, top: usize) -> Result<String, ()> {
    if from == top {
        REACHED.with(|r| {
            let mut v = r.get();
            v[b] = true;
            r.set(v);
        });
    }
    // definitions of b at levels from, from-1, …, 0
    let Some(k) = (0..=from).rev().find(|k| defines(f, *k, b)) else { return Err(()) };
    let d = f[k][b].unwrap_or(BDef { sup: 0, nested_c: false });
    let own = format!("{}{k}", BNAMES[b].to_uppercase());
    let own = if f[k][b].is_none() { "Cdflt".to_string() } else { own };
    let inner = if b == 0 && d.nested_c { format!("{own}<{}>", ref_block(f, 2, top, top)?) } else { own };
    let sup = |f: &Family| -> Result<String, ()> { if k == 0 { Err(()) } else { ref_block(f, b, k - 1, top) } };
    Ok(match d.sup {
        0 => inner,
        1 => format!("{}{inner}", sup(f)?),
        2 => format!("{inner}{}", sup(f)?),
        _ => format!("{inner}({})", sup(f)?),
    })
}

/// does the template at level k define block b (c also counts when it only appears as the default
/// declaration inside a)
fn defines(f: &Family, k: usize, b: usize) -> bool {
    f[k][b].is_some() || (b == 2 && f[k][0].is_some_and(|d| d.nested_c))
}

fn family_checks(f: &Family, out: &mut Vec<Check>) {
    let templates = family_sources(f);
    for top in 0..f.len() {
        let mk = |block: Option<&str>| Case {
            templates: templates.clone(),
            ctx: vec![("who".to_string(), Value::from(format!("t{top}")))],
            global: vec![],
            stream: format!("inherit|t{top}|{}", block.unwrap_or("")),
        };
        // full render: the ROOT's layout with every block resolved from `top`
        REACHED.with(|r| r.set([false; 3]));
        let a = ref_block(f, 0, top, top);
        let bb = ref_block(f, 1, top, top);
        let c_outside = if f[0][0].is_some_and(|d| d.nested_c) { Ok(String::new()) } else { ref_block(f, 2, top, top) };
        let full = match (&a, &bb, &c_outside) {
            (Ok(a), Ok(b2), Ok(c)) => Expect::Text(format!("[t{top}:{a}|{b2}{c}]")),
            _ => Expect::AnyErr,
        };
        let full_ok = matches!(full, Expect::Text(_));
        out.push(Check { oracle: "inherit.render_most_derived_and_super", case: mk(None), expect: full });
        let reached = REACHED.with(|r| r.get());
        for (bi, name) in BNAMES.iter().enumerate() {
            // render_block runs the whole template (an error anywhere is an error) and returns exactly
            // the text the block writes in that render: "" when the layout never reaches the block
            let e = if !full_ok {
                Expect::AnyErr
            } else if !reached[bi] {
                Expect::Text(String::new())
            } else {
                match ref_block(f, bi, top, top) {
                    Ok(t) => Expect::Text(t),
                    Err(()) => Expect::AnyErr,
                }
            };
            out.push(Check { oracle: "inherit.render_block_exact", case: mk(Some(name)), expect: e });
        }
    }
}

fn all_level_options(root: bool) -> Vec<[Option<BDef>; 3]> {
    let sups: &[u8] = if root { &[0, 1] } else { &[0, 1, 2, 3] };
    let mut a_opts: Vec<Option<BDef>> = if root { vec![] } else { vec![None] };
    for s in sups {
        for n in [false, true] {
            a_opts.push(Some(BDef { sup: *s, nested_c: n }));
        }
    }
    let mut plain: Vec<Option<BDef>> = if root { vec![] } else { vec![None] };
    for s in sups {
        plain.push(Some(BDef { sup: *s, nested_c: false }));
    }
    let mut out = Vec::new();
    for a in &a_opts {
        for b2 in &plain {
            for c in &plain {
                out.push([*a, *b2, *c]);
            }
        }
    }
    out
}

/// hand-written families: blocks inside captures (filter section, set block) and a block that a
/// child introduces inside an overridden block and a grand-child overrides
fn oracle_inheritance_shapes(out: &mut Vec<Check>) {
    let fam = |ts: &[(&str, &str)]| -> Vec<(String, Vec<St>)> { ts.iter().map(|(n, s)| (n.to_string(), tpl(s))).collect() };
    let a = fam(&[
        ("t0", "{% filter upper %}x{% block b %}b0{% endblock %}{% endfilter %}|{% set s %}{% block a %}a0{% endblock %}{% endset %}[{{ s }}]"),
        ("t1", "{% extends \"t0\" %}{% block b %}{{ super() }}b1{% endblock %}{% block a %}a1{{ super() }}{% endblock %}"),
    ]);
    let b2 = fam(&[
        ("t0", "[{% block b %}b0{% endblock %}]"),
        ("t1", "{% extends \"t0\" %}{% block b %}b1<{% block d %}d1{% endblock %}>{{ super() }}{% endblock %}"),
        ("t2", "{% extends \"t1\" %}{% block d %}d2{{ super() }}{% endblock %}"),
        ("t3", "{% extends \"t2\" %}{% block b %}b3{% endblock %}"),
    ]);
    let c = fam(&[
        ("t0", "{% set s %}{% filter upper %}<{% block b %}b0{% block n %}n0{% endblock %}{% endblock %}>{% endfilter %}{% endset %}[{{ s }}]{% filter trim %} {% block e %}e0{% endblock %} {% endfilter %}"),
        ("t1", "{% extends \"t0\" %}{% block n %}n1{{ super() }}{% endblock %}{% block e %}{% filter upper %}e1{% endfilter %}{{ super() }}{% endblock %}"),
        ("t2", "{% extends \"t1\" %}{% block b %}b2{% set q %}{% block n %}n2{% endblock %}{% endset %}({{ q }}){% endblock %}"),
    ]);
    let cases: Vec<(&Vec<(String, Vec<St>)>, &str, &str, &str)> = vec![
        (&c, "t0", "", "[<B0N0>]e0"),
        (&c, "t0", "b", "b0n0"),
        (&c, "t0", "n", "n0"),
        (&c, "t0", "e", "e0"),
        (&c, "t1", "", "[<B0N1N0>]E1e0"),
        (&c, "t1", "b", "b0n1n0"),
        (&c, "t1", "n", "n1n0"),
        (&c, "t1", "e", "E1e0"),
        (&c, "t2", "", "[<B2(N2)>]E1e0"),
        (&c, "t2", "b", "b2(n2)"),
        (&c, "t2", "n", "n2"),
        (&a, "t0", "", "XB0|[a0]"),
        (&a, "t0", "b", "b0"),
        (&a, "t0", "a", "a0"),
        (&a, "t1", "", "XB0B1|[a1a0]"),
        (&a, "t1", "b", "b0b1"),
        (&a, "t1", "a", "a1a0"),
        (&b2, "t0", "", "[b0]"),
        (&b2, "t1", "", "[b1<d1>b0]"),
        (&b2, "t1", "d", "d1"),
        (&b2, "t2", "", "[b1<d2d1>b0]"),
        (&b2, "t2", "d", "d2d1"),
        (&b2, "t2", "b", "b1<d2d1>b0"),
        (&b2, "t3", "", "[b3]"),
        (&b2, "t3", "b", "b3"),
        // d is in t3's lineage map but the layout never reaches it
        (&b2, "t3", "d", ""),
    ];
    for (templates, top, block, expect) in cases {
        out.push(Check {
            oracle: "inherit.nested_and_captured_blocks",
            case: Case { templates: templates.clone(), ctx: vec![], global: vec![], stream: format!("inherit|{top}|{block}") },
            expect: Expect::Text(expect.to_string()),
        });
    }
}

/// exhaustive over two-level families, sampled (quick) or exhaustive (thorough) over three-level ones
fn oracle_inheritance(rng: &mut Rng, env: &Env, out: &mut Vec<Check>) {
    oracle_inheritance_shapes(out);
    let roots: Vec<[Option<BDef>; 3]> = all_level_options(true).into_iter().filter(|l| l[0].is_some_and(|d| d.sup == 0) || true).collect();
    let kids = all_level_options(false);
    // the root must declare all three blocks somewhere for children to be allowed to override them
    let roots: Vec<_> = roots.into_iter().filter(|l| l[0].is_some() && l[1].is_some()).collect();
    for r in &roots {
        // a root calling super() is a render error: keep a few
        if (r[0].unwrap().sup != 0 || r[1].unwrap().sup != 0 || r[2].is_some_and(|d| d.sup != 0)) && !rng.chance(1, 6) {
            continue;
        }
        for k1 in &kids {
            if !rng.chance(env.budget(1, 4) as u32, 4) {
                continue;
            }
            family_checks(&vec![*r, *k1], out);
            for k2 in &kids {
                if rng.chance(1, env.budget(60, 8) as u32) {
                    family_checks(&vec![*r, *k1, *k2], out);
                }
            }
        }
    }
}

/// random families: generated statement bodies inside the blocks (model comparison; the capture
/// and repeat oracles apply as to any program)
fn gen_family(rng: &mut Rng, hist: &mut BTreeMap<String, u64>) -> Vec<Case> {
    let depth = 2 + rng.below(2);
    let mut templates: Vec<(String, Vec<St>)> = Vec::new();
    let body = |rng: &mut Rng, hist: &mut BTreeMap<String, u64>, n: usize| -> String {
        let mut g = Gen { rng: R(std::cell::RefCell::new(&mut *rng)), adv: 1, hist: std::mem::take(hist), includable: vec![], no_assign: false, literal_sets: false, no_loop_atoms: false };
        let ss = g.stmts(2, n, &Scope::base());
        *hist = g.hist;
        src_of(&ss)
    };
    for k in 0..depth {
        let mut src = String::new();
        if k > 0 {
            src.push_str(&format!("{{% extends \"t{}\" %}}", k - 1));
        } else {
            src.push_str(&body(rng, hist, 1));
        }
        let mut has_c = false;
        for (bi, name) in BNAMES.iter().enumerate() {
            if bi == 2 {
                continue; // c lives inside a
            }
            if k > 0 && rng.chance(1, 3) {
                continue;
            }
            let nb = rng.below(3) + 1;
            let mut inner = body(rng, hist, nb);
            if k > 0 && rng.chance(2, 3) {
                let sup = if rng.chance(1, 4) { "{% set z = super() %}<{{ z }}>" } else { "{{ super() }}" };
                if rng.chance(1, 2) { inner = format!("{sup}{inner}") } else { inner.push_str(sup) }
            }
            if bi == 0 && (k == 0 || rng.chance(1, 2)) {
                has_c = true;
                let c_inner = body(rng, hist, 1);
                let c_sup = if k > 0 && rng.chance(1, 2) { "{{ super() }}" } else { "" };
                inner.push_str(&format!("{{% block c %}}{c_inner}{c_sup}{{% endblock %}}"));
            }
            src.push_str(&format!("{{% block {name} %}}{inner}{{% endblock %}}"));
            if k == 0 {
                src.push_str(&body(rng, hist, 1));
            }
        }
        if k > 0 && !has_c && rng.chance(1, 2) {
            // an override of the nested block on its own (not re-opening its parent block)
            src.push_str(&format!("{{% block c %}}{}{{% endblock %}}", body(rng, hist, 1)));
        }
        templates.push((format!("t{k}"), tpl(&src)));
    }
    let (ctx, global) = gen_contexts(rng, false);
    let mut out = Vec::new();
    for top in 0..depth {
        out.push(Case { templates: templates.clone(), ctx: ctx.clone(), global: global.clone(), stream: format!("inherit|t{top}|") });
        let b2 = *rng.pick(&BNAMES);
        out.push(Case { templates: templates.clone(), ctx: ctx.clone(), global: global.clone(), stream: format!("inherit|t{top}|{b2}") });
    }
    out
}

// ------------------------------------------------------------------ shrinking

fn ex_variants(e: &Ex) -> Vec<Ex> {
    let mut out: Vec<Ex> = Vec::new();
    let kids: Vec<&Ex> = match e {
        Ex::Atom(_) => vec![],
        Ex::Bin(_, l, r) => vec![l, r],
        Ex::Un(_, x) | Ex::Attr(x, _, _) | Ex::Test(x, _, _) => vec![x],
        Ex::Index(x, i, _) => vec![x, i],
        Ex::Slice(x, ..) => vec![x],
        Ex::Filter(x, _, kw) => std::iter::once(&**x).chain(kw.iter().map(|(_, e)| e)).collect(),
        Ex::Call(_, kw) => kw.iter().map(|(_, e)| e).collect(),
        Ex::Ternary(c, t, f) => vec![c, t, f],
        Ex::Array(items) => items.iter().map(|(_, e)| e).collect(),
        Ex::MapLit(items) => items.iter().map(|(_, e)| e).collect(),
        Ex::Compr(bd, _, t, _) => vec![bd, t],
    };
    for k in &kids {
        out.push((*k).clone());
    }
    if !matches!(e, Ex::Atom(_)) {
        out.push(atom("0"));
        out.push(atom("\"\""));
    }
    // shrink inside
    macro_rules! inside {
        ($x:expr, $rebuild:expr) => {
            for v in ex_variants($x) {
                out.push($rebuild(v));
            }
        };
    }
    match e {
        Ex::Bin(op, l, r) => {
            inside!(l, |v| Ex::Bin(op, b(v), r.clone()));
            inside!(r, |v| Ex::Bin(op, l.clone(), b(v)));
        }
        Ex::Un(op, x) => inside!(x, |v| Ex::Un(op, b(v))),
        Ex::Attr(x, n, o) => inside!(x, |v| Ex::Attr(b(v), n.clone(), *o)),
        Ex::Test(x, n, o) => inside!(x, |v| Ex::Test(b(v), n.clone(), *o)),
        Ex::Index(x, i, o) => {
            inside!(x, |v| Ex::Index(b(v), i.clone(), *o));
            inside!(i, |v| Ex::Index(x.clone(), b(v), *o));
        }
        Ex::Filter(x, n, kw) => inside!(x, |v| Ex::Filter(b(v), n.clone(), kw.clone())),
        Ex::Ternary(c, t, f) => {
            inside!(c, |v| Ex::Ternary(b(v), t.clone(), f.clone()));
            inside!(t, |v| Ex::Ternary(c.clone(), b(v), f.clone()));
            inside!(f, |v| Ex::Ternary(c.clone(), t.clone(), b(v)));
        }
        Ex::Array(items) => {
            for i in 0..items.len() {
                let mut it = items.clone();
                it.remove(i);
                out.push(Ex::Array(it));
            }
        }
        _ => {}
    }
    out
}

fn stmt_variants(ss: &[St]) -> Vec<Vec<St>> {
    let mut out = Vec::new();
    let replace = |i: usize, with: Vec<St>| -> Vec<St> {
        let mut v = ss[..i].to_vec();
        v.extend(with);
        v.extend_from_slice(&ss[i + 1..]);
        v
    };
    for i in 0..ss.len() {
        out.push(replace(i, vec![]));
        match &ss[i] {
            St::SetBlock(n, f, body, g) => {
                out.push(replace(i, body.clone()));
                if !f.is_empty() {
                    out.push(replace(i, vec![St::SetBlock(n.clone(), vec![], body.clone(), *g)]));
                }
                for v in stmt_variants(body) {
                    out.push(replace(i, vec![St::SetBlock(n.clone(), f.clone(), v, *g)]));
                }
            }
            St::FilterSection(f, body) => {
                out.push(replace(i, body.clone()));
                for v in stmt_variants(body) {
                    out.push(replace(i, vec![St::FilterSection(f.clone(), v)]));
                }
            }
            St::If(br, els) => {
                for (_, bd) in br {
                    out.push(replace(i, bd.clone()));
                }
                if let Some(e) = els {
                    out.push(replace(i, e.clone()));
                    out.push(replace(i, vec![St::If(br.clone(), None)]));
                }
                for k in 0..br.len() {
                    if br.len() > 1 {
                        let mut b2 = br.clone();
                        b2.remove(k);
                        out.push(replace(i, vec![St::If(b2, els.clone())]));
                    }
                    for v in stmt_variants(&br[k].1) {
                        let mut b2 = br.clone();
                        b2[k].1 = v;
                        out.push(replace(i, vec![St::If(b2, els.clone())]));
                    }
                    for v in ex_variants(&br[k].0) {
                        let mut b2 = br.clone();
                        b2[k].0 = v;
                        out.push(replace(i, vec![St::If(b2, els.clone())]));
                    }
                }
                if let Some(e) = els {
                    for v in stmt_variants(e) {
                        out.push(replace(i, vec![St::If(br.clone(), Some(v))]));
                    }
                }
            }
            St::For(k, v, t, body, els) => {
                if !els.is_empty() {
                    out.push(replace(i, vec![St::For(k.clone(), v.clone(), t.clone(), body.clone(), vec![])]));
                    out.push(replace(i, els.clone()));
                }
                for bv in stmt_variants(body) {
                    out.push(replace(i, vec![St::For(k.clone(), v.clone(), t.clone(), bv, els.clone())]));
                }
                for ev in stmt_variants(els) {
                    out.push(replace(i, vec![St::For(k.clone(), v.clone(), t.clone(), body.clone(), ev)]));
                }
                for tv in ex_variants(t) {
                    out.push(replace(i, vec![St::For(k.clone(), v.clone(), tv, body.clone(), els.clone())]));
                }
            }
            St::Print(e) => {
                for v in ex_variants(e) {
                    out.push(replace(i, vec![St::Print(v)]));
                }
            }
            St::Set(n, e, g) => {
                for v in ex_variants(e) {
                    out.push(replace(i, vec![St::Set(n.clone(), v, *g)]));
                }
            }
            St::Text(t) if t.chars().count() > 1 => out.push(replace(i, vec![St::Text(t.chars().take(1).collect())])),
            _ => {}
        }
    }
    out
}

fn case_variants(c: &Case) -> Vec<Case> {
    let mut out = Vec::new();
    for i in 0..c.ctx.len() {
        let mut v = c.clone();
        v.ctx.remove(i);
        out.push(v);
    }
    for i in 0..c.global.len() {
        let mut v = c.clone();
        v.global.remove(i);
        out.push(v);
    }
    for (ti, (_, body)) in c.templates.iter().enumerate() {
        for bv in stmt_variants(body) {
            let mut v = c.clone();
            v.templates[ti].1 = bv;
            out.push(v);
        }
    }
    // drop templates nobody includes any more
    out.retain(|v| build_engine(v).is_ok());
    out
}

fn shrink(case: &Case, still_fails: &mut dyn FnMut(&Case) -> bool, budget: usize) -> Case {
    let mut cur = case.clone();
    let mut spent = 0;
    loop {
        let mut progressed = false;
        for v in case_variants(&cur) {
            if spent >= budget {
                return cur;
            }
            spent += 1;
            if still_fails(&v) {
                cur = v;
                progressed = true;
                break;
            }
        }
        if !progressed {
            return cur;
        }
    }
}

// ------------------------------------------------------------------ replay files

fn case_json(c: &Case) -> serde_json::Value {
    serde_json::json!({
        "stream": c.stream,
        "templates": c.sources().iter().map(|(n, s)| serde_json::json!({"name": n, "source": s})).collect::<Vec<_>>(),
        "context": c.ctx.iter().map(|(k, v)| serde_json::json!({"name": k, "value": encode(v), "shown": format!("{v} ({})", v.name())})).collect::<Vec<_>>(),
        "global_context": c.global.iter().map(|(k, v)| serde_json::json!({"name": k, "value": encode(v)})).collect::<Vec<_>>(),
    })
}

fn case_from_json(j: &serde_json::Value) -> Option<Case> {
    let templates = j["templates"].as_array()?.iter().map(|t| Some((t["name"].as_str()?.to_string(), tpl(t["source"].as_str()?)))).collect::<Option<Vec<_>>>()?;
    let kv = |a: &serde_json::Value| a.as_array().map(|a| a.iter().filter_map(|e| Some((e["name"].as_str()?.to_string(), decode(e["value"].as_str()?)?))).collect::<Vec<_>>());
    Some(Case { templates, ctx: kv(&j["context"])?, global: kv(&j["global_context"])?, stream: j["stream"].as_str().unwrap_or("replay").to_string() })
}

// ------------------------------------------------------------------ main

/// Parallel map with a hang guard: `on_hang(i)` is called (from a watchdog thread) when item `i`
/// has been running for more than `CASE_TIMEOUT_MS`; it is expected not to return.
const CASE_TIMEOUT_MS: u64 = 20_000;

fn par_map<T: Sync, R: Send>(items: &[T], threads: usize, f: impl Fn(&T) -> R + Sync, on_hang: impl Fn(usize) + Sync) -> Vec<R> {
    use std::sync::atomic::{AtomicU64, AtomicUsize, Ordering};
    if items.is_empty() {
        return Vec::new();
    }
    let chunk = items.len().div_ceil(threads).max(1);
    let n_chunks = items.len().div_ceil(chunk);
    let t0 = std::time::Instant::now();
    // per worker: index of the item being processed (+1; 0 = idle) and when it started (ms)
    let cur: Vec<AtomicUsize> = (0..n_chunks).map(|_| AtomicUsize::new(0)).collect();
    let since: Vec<AtomicU64> = (0..n_chunks).map(|_| AtomicU64::new(0)).collect();
    let done = AtomicUsize::new(0);
    // item a worker was already flagged for (so that a slow item is confirmed once, not every tick)
    let flagged: Vec<AtomicUsize> = (0..n_chunks).map(|_| AtomicUsize::new(0)).collect();
    std::thread::scope(|s| {
        let (f, cur, since, done, on_hang, flagged) = (&f, &cur, &since, &done, &on_hang, &flagged);
        let hs: Vec<_> = items
            .chunks(chunk)
            .enumerate()
            .map(|(w, c)| {
                s.spawn(move || {
                    // counts the worker as finished even if it unwinds
                    struct Done<'a>(&'a AtomicUsize);
                    impl Drop for Done<'_> {
                        fn drop(&mut self) {
                            self.0.fetch_add(1, Ordering::SeqCst);
                        }
                    }
                    let _guard = Done(done);
                    let out = c
                        .iter()
                        .enumerate()
                        .map(|(k, x)| {
                            since[w].store(t0.elapsed().as_millis() as u64, Ordering::SeqCst);
                            cur[w].store(w * chunk + k + 1, Ordering::SeqCst);
                            let r = f(x);
                            cur[w].store(0, Ordering::SeqCst);
                            r
                        })
                        .collect::<Vec<R>>();
                    out
                })
            })
            .collect();
        s.spawn(move || {
            while done.load(Ordering::SeqCst) < n_chunks {
                std::thread::sleep(std::time::Duration::from_millis(200));
                let now = t0.elapsed().as_millis() as u64;
                for w in 0..n_chunks {
                    let i = cur[w].load(Ordering::SeqCst);
                    if i != 0 && flagged[w].load(Ordering::SeqCst) != i && now.saturating_sub(since[w].load(Ordering::SeqCst)) > CASE_TIMEOUT_MS && cur[w].load(Ordering::SeqCst) == i {
                        flagged[w].store(i, Ordering::SeqCst);
                        // returns only when the suspicion was not confirmed
                        on_hang(i - 1);
                    }
                }
            }
        });
        hs.into_iter().flat_map(|h| h.join().unwrap()).collect()
    })
}

/// CPU seconds a case must burn, alone in a child process, before "does not return" is believed
const CONFIRM_CPU_S: u64 = 90;
/// cases that exceeded the wall-clock cap under load but returned when run alone
static SLOW_UNDER_LOAD: std::sync::atomic::AtomicU64 = std::sync::atomic::AtomicU64::new(0);

/// Re-run one case alone in a child process (`--confirm <file>`); true only if the child burns
/// `CONFIRM_CPU_S` seconds of CPU time without returning (wall time, i.e. machine load, plays no role)
fn confirm_hang(case: &Case) -> bool {
    static N: std::sync::atomic::AtomicU64 = std::sync::atomic::AtomicU64::new(0);
    let n = N.fetch_add(1, std::sync::atomic::Ordering::SeqCst);
    let path = std::env::temp_dir().join(format!("verif-confirm-{}-{n}.json", std::process::id()));
    if std::fs::write(&path, serde_json::json!({"case": case_json(case)}).to_string()).is_err() {
        return false;
    }
    let Ok(exe) = std::env::current_exe() else { return false };
    let Ok(mut child) = std::process::Command::new(exe).arg("--confirm").arg(&path).stdout(std::process::Stdio::null()).stderr(std::process::Stdio::null()).spawn() else {
        return false;
    };
    let confirmed = loop {
        std::thread::sleep(std::time::Duration::from_millis(500));
        match child.try_wait() {
            Ok(Some(_)) => break false,
            Ok(None) => {}
            Err(_) => break false,
        }
        // utime + stime of the child, in clock ticks (fields 14 and 15 of /proc/<pid>/stat)
        let cpu_s = std::fs::read_to_string(format!("/proc/{}/stat", child.id()))
            .ok()
            .and_then(|t| {
                let after = t.rsplit_once(')')?.1.to_string();
                let f: Vec<&str> = after.split_whitespace().collect();
                Some((f.get(11)?.parse::<u64>().ok()? + f.get(12)?.parse::<u64>().ok()?) / 100)
            })
            .unwrap_or(0);
        if cpu_s >= CONFIRM_CPU_S {
            let _ = child.kill();
            let _ = child.wait();
            break true;
        }
    };
    let _ = std::fs::remove_file(&path);
    confirmed
}

/// A case exceeded the wall-clock cap: believe it only after the confirmation run; otherwise count it
/// as slow under load and go on waiting for it
fn report_hang(case: &Case, what: &str) {
    if case.templates.iter().any(|(_, b)| has_growth_carrier(b, false)) {
        SLOW_UNDER_LOAD.fetch_add(1, std::sync::atomic::Ordering::SeqCst);
        return;
    }
    if !confirm_hang(case) {
        SLOW_UNDER_LOAD.fetch_add(1, std::sync::atomic::Ordering::SeqCst);
        return;
    }
    let mut report = Report::new(property());
    report.evaluations = 1;
    report.oracle_checks = 1;
    report.oracle_failures = 1;
    report.violation(
        "property",
        format!("{what}: the render did not return (more than {} s wall in the run, confirmed alone in a child process: {CONFIRM_CPU_S} s of CPU time without returning): a loop that never ends, or `break`/`continue` leaving the wrong loop", CASE_TIMEOUT_MS / 1000),
        serde_json::json!({"oracle": "render_terminates", "case": case_json(case), "rerun": rerun_hint()}),
    );
    report.rule = "aborted: a render hung".into();
    report.write(&out_path());
    std::process::exit(0);
}

fn comparable(model: &str) -> bool {
    !(model.starts_with("unsupported") || model == "fuel")
}

/// every `Iterate` of the compiled (optimised) templates carries a non-zero target: the hypothesis
/// of the loop bookkeeping theorem
fn iterate_targets_nonzero(tera: &Tera, case: &Case) -> Result<u64, String> {
    let mut n = 0;
    for (name, _) in &case.templates {
        if let Some(l) = tera::verif_hooks::listing(tera, name) {
            for (_, lines) in l {
                for line in lines {
                    if let Some(rest) = line.strip_prefix("Iterate(") {
                        let t: usize = rest.split(')').next().unwrap_or("").parse().map_err(|_| format!("unparsed `{line}`"))?;
                        if t == 0 {
                            return Err(format!("template {name}: `{line}` has target 0"));
                        }
                        n += 1;
                    }
                }
            }
        }
    }
    Ok(n)
}

pub fn run(prop: &str) {
    let _ = PROPERTY.set(prop.to_string());
    let c02 = prop == "C02";
    let c04 = prop == "C04";
    if std::env::var("VERIF_LOUD").is_err() {
        quiet_panics();
    }
    let env = Env::from_env();
    let mut report = Report::new(prop);
    let exe = driver::driver_path(&env.verif_dir, "drv_c03");
    let threads = std::thread::available_parallelism().map(|n| n.get()).unwrap_or(8).min(16);

    {
        let args: Vec<String> = std::env::args().collect();
        if let Some(i) = args.iter().position(|a| a == "--confirm") {
            // child of `confirm_hang`: run exactly one case and leave
            let text = std::fs::read_to_string(&args[i + 1]).expect("confirm file");
            let j: serde_json::Value = serde_json::from_str(&text).expect("confirm json");
            let case = case_from_json(&j["case"]).expect("case");
            println!("{}", run_real(&case));
            return;
        }
    }
    if let Some(path) = replay_path() {
        let text = std::fs::read_to_string(&path).expect("replay file");
        let j: serde_json::Value = serde_json::from_str(&text).expect("replay json");
        // the check script wraps the harness's replay object: {"property", "summary", "replay": {..}}
        let j = if j.get("replay").is_some_and(|r| r.is_object()) { j["replay"].clone() } else { j };
        let case = case_from_json(&j["case"]).expect("case");
        println!("templates: {:?}", case.sources());
        // the engine may not come back on this case: give it the same cap as the check does
        let (tx, rx) = std::sync::mpsc::channel();
        let c2 = case.clone();
        std::thread::spawn(move || {
            let _ = tx.send(run_real(&c2));
        });
        let cap_ms = std::env::var("VERIF_REPLAY_CAP_S").ok().and_then(|s| s.parse::<u64>().ok()).map(|s| s * 1000).unwrap_or(CASE_TIMEOUT_MS);
        let real = match rx.recv_timeout(std::time::Duration::from_millis(cap_ms)) {
            Ok(r) => r,
            Err(_) => {
                println!("implementation: the render did not return within {} s of wall time (VERIF_REPLAY_CAP_S to wait longer)", cap_ms / 1000);
                std::process::exit(0);
            }
        };
        println!("implementation: {}", show_outcome(&real));
        match model_request(&case) {
            Ok(req) => match driver::run_batch(&exe, &[req]) {
                Ok(m) => println!("model:          {}", show_outcome(&m[0])),
                Err(e) => println!("model: unavailable ({e})"),
            },
            Err(e) => println!("model: no AST ({e})"),
        }
        if let Some(r) = case_from_json(&j["reference"]) {
            println!("reference program: {:?}\nreference outcome: {}", r.sources(), show_outcome(&run_real(&r)));
        }
        if let Some(e) = j["expected"].as_str() {
            println!("expected: {e}");
        }
        return;
    }

    let mut rng = Rng::new(env.seed);
    let mut hist: BTreeMap<String, u64> = BTreeMap::new();

    // ---- float printing of the driver against the engine (ties the `fmtF64` parameter)
    {
        let mut fs: Vec<f64> = vec![0.0, -0.0, 1.0, 0.1, 1e16, 9999999999999998.0, 1e-4, 0.00009999, 5e-324, f64::MAX, f64::MIN_POSITIVE, 1e21, 123456789.125, 0.3, 2.5e-5, f64::NAN, f64::INFINITY, f64::NEG_INFINITY];
        for _ in 0..env.budget(3000, 100_000) {
            fs.push(f64::from_bits(rng.next_u64()));
            fs.push((rng.range(-100000, 100000) as f64) / (rng.range(1, 1000) as f64));
        }
        let reqs: Vec<String> = fs.iter().map(|f| format!("fmtf {}", encode(&Value::from(*f)))).collect();
        match driver::run_batch_parallel(&exe, &reqs, threads) {
            Ok(ans) => {
                for (f, a) in fs.iter().zip(ans.iter()) {
                    report.model_comparisons += 1;
                    let want = format!("ok {}", hex(format!("{}", Value::from(*f)).as_bytes()));
                    if *a != want {
                        report.model_disagreements += 1;
                        report.violation(
                            "model-mismatch",
                            format!("float text: model {} vs engine {:?} for bits {:016x}", show_outcome(a), format!("{}", Value::from(*f)), f.to_bits()),
                            serde_json::json!({"stage": "correspondence:float-format", "detail": {"stage": "correspondence:float-format"}, "bits": format!("{:016x}", f.to_bits())}),
                        );
                    }
                }
                report.count_n("float_format.compared", fs.len() as u64);
            }
            Err(e) => {
                report.notes.push(format!("model driver unavailable: {e}"));
                report.violation("model-mismatch", format!("model driver could not be run: {e}"), serde_json::json!({"stage": "driver", "error": e}));
            }
        }
    }

    // ---- fixed oracle programs
    let mut fixed: Vec<Check> = Vec::new();
    if c04 {
        oracle_inheritance(&mut rng, &env, &mut fixed);
    }
    for _ in 0..(if c04 { 0 } else { env.budget(6, 60) }) {
        oracle_short_circuit(&mut rng, &mut fixed);
        oracle_if(&mut rng, &mut fixed);
        oracle_undefined(&mut rng, &mut fixed);
        if !c02 {
            oracle_loops(&mut rng, &mut fixed);
        }
    }
    if !c02 {
        for _ in 0..env.budget(1, 6) {
            oracle_scoping(&mut rng, &mut fixed);
        }
        oracle_scoping_deep(&mut fixed);
        oracle_set_forms(&mut fixed);
        oracle_loop_fields_through_captures(&mut fixed);
        oracle_fallback_prefixes(&mut fixed);
        oracle_include_dag(&mut fixed);
        oracle_entry_points_and_extend(&mut fixed);
        // render_block of blocks written inside captures (also C04's clause; c04e runs them too)
        oracle_inheritance_shapes(&mut fixed);
    }
    if !c04 {
        oracle_type_errors(&mut fixed);
        for _ in 0..env.budget(1, 4) {
            oracle_lazy_paths(&mut rng, &mut fixed);
        }
        oracle_undefined_matrix(&mut fixed);
        if c02 {
            oracle_value_matrix(&mut rng, &env, &mut fixed);
            oracle_value_matrix_arrays(&mut fixed);
            oracle_tera_context_paths(&mut fixed);
        }
    }
    report.count_n("oracle.fixed_checks", fixed.len() as u64);

    // ---- batches (bounded memory): generate, run engine and model, compare, judge
    // under C02 the generated programs are extra model-comparison coverage of expression evaluation
    let total_programs = if c04 { env.budget(6_000, 200_000) } else if c02 { env.budget(8_000, 300_000) } else { env.budget(20_000, 600_000) };
    let total_programs = std::env::var("VERIF_EVAL_PROGRAMS").ok().and_then(|s| s.parse().ok()).unwrap_or(total_programs);
    let batch_size = 16_000;
    let mut distinct: std::collections::HashSet<u64> = std::collections::HashSet::new();
    let mut mismatches: Vec<Case> = Vec::new();
    let mut n_mismatch_total = 0u64;
    // (check, verdict, derived from a generated program)
    let mut oracle_fail: Vec<(Check, String, bool)> = Vec::new();
    let (mut ok_directed, mut n_directed) = (0u64, 0u64);
    let mut driver_ok = report.violations.is_empty();
    let mut made = 0usize;
    let mut first_batch = true;
    // exhaustive part: every statement tree with at most 3 (quick) / 4 (thorough) nodes
    let max_nodes = std::env::var("VERIF_EVAL_MAX_NODES").ok().and_then(|s| s.parse().ok()).unwrap_or(env.budget(3, 5));
    let mut small = if c02 || c04 { Vec::new() } else { exhaustive_small(max_nodes) };
    report.count_n("exhaustive_small.programs", small.len() as u64);
    report.notes.push(format!("exhaustive over statement trees with at most {max_nodes} nodes (alphabet: text, probe, set, set_global, include, loop variable, loop.index, set of the loop variable, break, continue; if, set block, filter section, for, for/else; 3 contexts each): {} programs", small.len()));
    while made < total_programs || first_batch || !small.is_empty() {
        let n = batch_size.min(total_programs - made);
        made += n;
        let mut programs: Vec<Case> = Vec::with_capacity(n);
        let take = small.len().min(batch_size.saturating_sub(n).max(4000));
        programs.extend(small.drain(..take));
        while c04 && programs.len() < n {
            programs.extend(gen_family(&mut rng, &mut hist));
        }
        for k in 0..(if c04 { 0 } else { n }) {
            // 55 % directed, 18 % adversarial, 10 % autoescaping, 17 % include-inline candidates
            let c = match k % 100 {
                0..=54 => gen_program(&mut rng, false, false, false, &mut hist),
                55..=72 => gen_program(&mut rng, true, false, false, &mut hist),
                73..=82 => gen_program(&mut rng, false, true, false, &mut hist),
                _ => gen_program(&mut rng, false, false, true, &mut hist),
            };
            programs.push(c);
        }
        let mut checks: Vec<Check> = if first_batch { std::mem::take(&mut fixed) } else { Vec::new() };
        first_batch = false;
        let n_fixed = checks.len();
        for (i, p) in programs.iter().enumerate() {
            if p.stream.starts_with("inherit") {
                continue;
            }
            if p.stream == "include_inline" || p.stream == "exhaustive_small" || i % env.budget(3, 2) == 0 {
                derived_checks(p, &mut checks);
            }
        }
        report.count_n("oracle.derived_checks", (checks.len() - n_fixed) as u64);

        let n_prog = programs.len();
        let mut all_cases: Vec<&Case> = programs.iter().collect();
        all_cases.extend(checks.iter().map(|c| &c.case));
        let real: Vec<String> = par_map(&all_cases, threads, |c| run_real(c), |i| report_hang(all_cases[i], "render"));
        let reqs: Vec<Option<String>> = par_map(&all_cases, threads, |c| model_request(c).ok(), |_| {});
        let idx: Vec<usize> = (0..all_cases.len()).filter(|i| reqs[*i].is_some() && !real[*i].starts_with("adderr")).collect();
        let model: Vec<Option<String>> = if !driver_ok {
            vec![None; all_cases.len()]
        } else {
            let lines: Vec<String> = idx.iter().map(|i| reqs[*i].clone().unwrap()).collect();
            match driver::run_batch_parallel(&exe, &lines, threads) {
                Ok(m) => {
                    let mut out = vec![None; all_cases.len()];
                    for (k, i) in idx.iter().enumerate() {
                        out[*i] = Some(m[k].clone());
                    }
                    out
                }
                Err(e) => {
                    driver_ok = false;
                    report.notes.push(format!("model driver unavailable: {e}"));
                    report.violation("model-mismatch", format!("model driver could not be run: {e}"), serde_json::json!({"stage": "driver", "error": e}));
                    vec![None; all_cases.len()]
                }
            }
        };

        if std::env::var("VERIF_DEBUG_ADDERR").is_ok() {
            let mut seen = std::collections::BTreeMap::new();
            for (i, c) in all_cases.iter().enumerate() {
                if real[i].starts_with("adderr") {
                    seen.entry(real[i].clone()).or_insert_with(|| c.sources());
                }
            }
            for (k, v) in seen.iter().take(40) {
                eprintln!("{k}\n   {v:?}");
            }
        }

        // statistics and comparison
        for (i, c) in all_cases.iter().enumerate() {
            report.evaluations += 1;
            let class = real[i].split(' ').take(if real[i].starts_with("err") { 2 } else { 1 }).collect::<Vec<_>>().join(" ");
            let stream = if i < n_prog { c.stream.split('|').next().unwrap_or("").to_string() } else { "oracle".to_string() };
            report.count(&format!("outcome.{stream}.{class}"));
            if i < n_prog {
                report.count(&format!("size.{}", match c.size() { 0..=15 => "00-15", 16..=40 => "16-40", 41..=100 => "41-100", _ => "100+" }));
                if c.stream == "directed" {
                    n_directed += 1;
                    if real[i].starts_with("ok") {
                        ok_directed += 1;
                    }
                }
            }
            if !real[i].starts_with("adderr") {
                if let Some(r) = &reqs[i] {
                    use std::hash::{Hash, Hasher};
                    let mut h = std::collections::hash_map::DefaultHasher::new();
                    r.hash(&mut h);
                    if distinct.insert(h.finish()) {
                        report.distinct_nontrivial += 1;
                    }
                }
            }
            if let Some(m) = &model[i] {
                if !comparable(m) {
                    report.count(&format!("model.{}", m.split(' ').next().unwrap_or("")));
                    continue;
                }
                report.model_comparisons += 1;
                if *m != real[i] {
                    report.model_disagreements += 1;
                    n_mismatch_total += 1;
                    if mismatches.len() < 3 {
                        mismatches.push((*c).clone());
                    }
                }
            }
        }

        // direct oracles
        let check_idx: Vec<usize> = (0..checks.len()).collect();
        let verdicts: Vec<Option<String>> = par_map(&check_idx, threads, |k| judge(&checks[*k], &real[n_prog + *k]), |i| report_hang(&checks[i].case, "reference program of an oracle"));
        for (k, v) in verdicts.into_iter().enumerate() {
            report.oracle_checks += 1;
            report.count(&format!("oracle.{}", checks[k].oracle));
            if let Some(d) = v {
                report.oracle_failures += 1;
                if oracle_fail.len() < 5 {
                    oracle_fail.push((checks[k].clone(), d, k >= n_fixed));
                }
            }
        }
        // nothing survives a render: same instance, same context, another render in between
        let repeat_fail: Vec<Option<String>> = par_map(
            &programs,
            threads,
            |c| {
                if c.stream.starts_with("inherit") {
                    // two renders of the same case through fresh instances
                    let (a, b2) = (run_real(c), run_real(c));
                    return (a != b2).then(|| format!("two renders differ: {} / {}", show_outcome(&a), show_outcome(&b2)));
                }
                let tera = build_engine(c).ok()?;
                let ctx = context_of(c);
                let a = render_outcome(&tera, &c.templates[0].0, &ctx);
                let mut other = Context::new();
                other.insert_value("xs", Value::from(vec![Value::from(7)]));
                other.insert_value("p0", Value::from("other"));
                let _ = render_outcome(&tera, &c.templates[0].0, &other);
                let b2 = render_outcome(&tera, &c.templates[0].0, &ctx);
                if a != b2 {
                    return Some(format!("first render {} but after another render {}", show_outcome(&a), show_outcome(&b2)));
                }
                match iterate_targets_nonzero(&tera, c) {
                    Ok(_) => None,
                    Err(e) => Some(format!("Iterate target: {e}")),
                }
            },
            |i| report_hang(&programs[i], "repeated render"),
        );
        for (i, r) in repeat_fail.iter().enumerate() {
            report.oracle_checks += 1;
            report.count("oracle.render_repeatable_and_iterate_target");
            if let Some(d) = r {
                report.oracle_failures += 1;
                report.violation("property", format!("nothing survives a render: {d}"), serde_json::json!({"case": case_json(&programs[i]), "oracle": "render_repeatable", "rerun": rerun_hint()}));
            }
        }
        // samples
        for i in [0usize, n_prog / 2, n_prog + 1, all_cases.len() - 1] {
            if i < all_cases.len() && report.samples.len() < 8 {
                report.sample(serde_json::json!({"templates": all_cases[i].sources(), "implementation": show_outcome(&real[i]), "model": model[i].as_deref().map(show_outcome)}));
            }
        }
    }
    for (k, v) in hist {
        report.count_n(&k, v);
    }
    report.count_n("slow_under_load.cases_over_wall_cap_that_returned_when_run_alone", SLOW_UNDER_LOAD.load(std::sync::atomic::Ordering::SeqCst));
    report.count_n("directed.rendered_without_error_percent", if n_directed > 0 { ok_directed * 100 / n_directed } else { 0 });
    let _ = n_mismatch_total;

    // ---- report oracle failures (shrunk when the program came from the generator)
    for (chk, d, derived) in oracle_fail.iter() {
        let (case, detail) = if *derived {
            // derived check: shrink the underlying program while the same oracle still fails
            let base = match &chk.expect {
                Expect::SameAs(o) | Expect::UpperOf(o) => (**o).clone(),
                _ => chk.case.clone(),
            };
            let oracle = chk.oracle;
            let mut pred = |c: &Case| {
                let mut cs = Vec::new();
                derived_checks(c, &mut cs);
                cs.iter().any(|x| x.oracle == oracle && judge(x, &run_real(&x.case)).is_some())
            };
            let small = shrink(&base, &mut pred, 3000);
            let mut cs = Vec::new();
            derived_checks(&small, &mut cs);
            match cs.into_iter().find(|x| x.oracle == oracle && judge(x, &run_real(&x.case)).is_some()) {
                Some(x) => {
                    let d = judge(&x, &run_real(&x.case)).unwrap_or_default();
                    (x.case.clone(), (d, Some(small)))
                }
                None => (chk.case.clone(), (d.clone(), Some(base))),
            }
        } else {
            let reference = match &chk.expect {
                Expect::SameAs(o) | Expect::UpperOf(o) => Some((**o).clone()),
                _ => None,
            };
            (chk.case.clone(), (d.clone(), reference))
        };
        report.violation(
            "property",
            format!("{}: {}", chk.oracle, detail.0),
            serde_json::json!({
                "oracle": chk.oracle, "harness_bin": match property() { "C02" => "c02e", "C04" => "c04e", _ => "c03" }, "case": case_json(&case), "reference": detail.1.as_ref().map(case_json),
                "expected": format!("{:?}", match &chk.expect { Expect::SameAs(_) => "same outcome as the reference program".to_string(), Expect::UpperOf(_) => "upper-cased outcome of the reference program".to_string(), e => format!("{e:?}") }),
                "implementation": show_outcome(&run_real(&case)), "rerun": rerun_hint(),
            }),
        );
    }

    // ---- model disagreements: shrink, look for a property failure around the case, else report
    if oracle_fail.is_empty() && !mismatches.is_empty() {
        for case in mismatches.iter() {
            let mut pred = |c: &Case| {
                let r = run_real(c);
                if r.starts_with("adderr") {
                    return false;
                }
                match model_request(c) {
                    Ok(req) => driver::run_batch(&exe, &[req]).ok().is_some_and(|m| comparable(&m[0]) && m[0] != r),
                    _ => false,
                }
            };
            let small = shrink(case, &mut pred, 1500);
            // targeted burst: the property's own oracles on the shrunk program and its neighbours
            let mut burst: Vec<Check> = Vec::new();
            derived_checks(&small, &mut burst);
            for v in case_variants(&small).into_iter().take(env.budget(300, 3000)) {
                derived_checks(&v, &mut burst);
            }
            let found = burst.iter().find_map(|x| judge(x, &run_real(&x.case)).map(|d| (x.clone(), d)));
            report.oracle_checks += burst.len() as u64;
            let real_small = run_real(&small);
            let model_small = model_request(&small).ok().and_then(|r| driver::run_batch(&exe, &[r]).ok()).map(|m| m[0].clone()).unwrap_or_default();
            match found {
                Some((x, d)) => {
                    report.oracle_failures += 1;
                    report.violation("property", format!("{}: {d}", x.oracle), serde_json::json!({"oracle": x.oracle, "case": case_json(&x.case), "implementation": show_outcome(&run_real(&x.case)), "rerun": rerun_hint()}));
                }
                None => report.violation(
                    "model-mismatch",
                    format!("model {} vs implementation {} on {:?}", show_outcome(&model_small), show_outcome(&real_small), small.sources()),
                    serde_json::json!({"stage": "correspondence:eval-render", "detail": {"stage": "correspondence:eval-render"}, "case": case_json(&small), "model": show_outcome(&model_small), "implementation": show_outcome(&real_small), "rerun": rerun_hint()}),
                ),
            }
        }
    }

    // ---- observation (not asserted): an assignment of an undefined value hides a context variable in
    // the includer but not in the template it includes (`get_value` takes the includer's answer
    // "only if defined there"); recorded so that a change of this behaviour is visible
    {
        let c = Case {
            templates: vec![("main".into(), tpl("{% set x = nope %}{{ x is defined }}|{% include \"inc\" %}")), ("inc".into(), tpl("{{ x is defined }}:{{ x }}"))],
            ctx: vec![("x".into(), Value::from(1))],
            global: vec![],
            stream: "observation".into(),
        };
        report.notes.push(format!("observation O-include-undef: `{{% set x = nope %}}` with context x=1: includer/include see {}", show_outcome(&run_real(&c))));
    }

    report.rule = "a case is a set of templates (main + included) with a context and a global context; it counts as distinct by its full model request (real AST of every template + both contexts) and as non-trivial when the real parser accepted it (every generated program contains at least one of: loop, assignment, capture, include, conditional, short-circuit operator, undefined-tolerant form); the share of directed programs that render without error is in histogram key directed.rendered_without_error_percent".into();
    report.write(&out_path());
}
