//! Running batches of cases in child processes so that a render that never returns, eats the
//! memory or overflows the stack is an observation about one case, not the end of the harness.
//!
//! Parent: `run_batches(child_flag, batches, limit)` writes each batch (`common` + `items`) to a
//! file, re-executes the current binary with `<child_flag> <infile> <outfile>` and collects, per
//! item, the result lines the child produced. An item on which the child timed out (exit by its
//! own watchdog), crashed or was killed is reported as a culprit and the child is restarted on the
//! remaining items.
//!
//! Child: `child_main(infile, outfile, per_item_secs, init, each)` — `init(common)` once, then
//! `each(&state, item)` per item; a watchdog thread ends the process when one item takes longer
//! than `per_item_secs`.
use std::io::Write;
use std::path::PathBuf;
use std::process::{Command, Stdio};
use std::sync::atomic::{AtomicU64, AtomicUsize, Ordering};
use std::sync::{Arc, Mutex};
use std::time::{Duration, Instant};

pub struct Batch {
    pub common: serde_json::Value,
    pub items: Vec<serde_json::Value>,
}

#[derive(Default)]
pub struct BatchResult {
    /// (item index, result lines)
    pub results: Vec<(usize, Vec<String>)>,
    /// (item index, "timeout" | "crash: …")
    pub culprits: Vec<(usize, String)>,
    /// items never run because the batch was given up on
    pub abandoned: usize,
}

fn scratch_dir() -> PathBuf {
    let d = std::env::temp_dir().join(format!("verif-child-{}", std::process::id()));
    let _ = std::fs::create_dir_all(&d);
    d
}

pub fn cleanup() {
    let _ = std::fs::remove_dir_all(scratch_dir());
}

/// Run one batch to completion (restarting the child after every culprit, at most
/// `max_culprits` times). `wall_limit`: hard limit for one child process.
pub fn run_batch(child_flag: &str, id: usize, batch: &Batch, wall_limit: Duration, max_culprits: usize) -> BatchResult {
    let exe = std::env::current_exe().expect("current exe");
    let dir = scratch_dir();
    let mut out = BatchResult::default();
    let mut start = 0usize;
    let mut round = 0usize;
    while start < batch.items.len() {
        if out.culprits.len() > max_culprits {
            out.abandoned = batch.items.len() - start;
            break;
        }
        let infile = dir.join(format!("b{id}-{round}.in.json"));
        let outfile = dir.join(format!("b{id}-{round}.out"));
        round += 1;
        let payload = serde_json::json!({"common": batch.common, "items": &batch.items[start..]});
        std::fs::write(&infile, serde_json::to_vec(&payload).unwrap()).expect("write batch");
        let _ = std::fs::remove_file(&outfile);
        let mut child = match Command::new(&exe)
            .arg(child_flag)
            .arg(&infile)
            .arg(&outfile)
            .stdin(Stdio::null())
            .stdout(Stdio::null())
            .stderr(Stdio::null())
            .spawn()
        {
            Ok(c) => c,
            Err(e) => {
                out.culprits.push((start, format!("crash: cannot start child: {e}")));
                out.abandoned = batch.items.len() - start;
                break;
            }
        };
        let t0 = Instant::now();
        let status = loop {
            match child.try_wait() {
                Ok(Some(s)) => break Some(s),
                Ok(None) => {
                    if t0.elapsed() > wall_limit {
                        let _ = child.kill();
                        let _ = child.wait();
                        break None;
                    }
                    std::thread::sleep(Duration::from_millis(15));
                }
                Err(_) => break None,
            }
        };
        // parse what the child managed to write
        let text = std::fs::read_to_string(&outfile).unwrap_or_default();
        let mut current: Option<(usize, Vec<String>)> = None;
        let mut last_started: Option<usize> = None;
        let mut finished_upto: Option<usize> = None;
        let mut timed_out: Option<usize> = None;
        for line in text.lines() {
            if let Some(i) = line.strip_prefix("P ") {
                let i: usize = i.parse().unwrap_or(0);
                last_started = Some(i);
                current = Some((i, Vec::new()));
            } else if let Some(r) = line.strip_prefix("R ") {
                if let Some((_, v)) = current.as_mut() {
                    v.push(r.to_string());
                }
            } else if let Some(i) = line.strip_prefix("E ") {
                let i: usize = i.parse().unwrap_or(0);
                if let Some((ci, v)) = current.take() {
                    if ci == i {
                        out.results.push((start + i, v));
                        finished_upto = Some(i);
                    }
                }
            } else if let Some(i) = line.strip_prefix("T ") {
                timed_out = i.parse().ok();
            }
        }
        let _ = std::fs::remove_file(&infile);
        let _ = std::fs::remove_file(&outfile);
        let all_done = finished_upto.map(|f| f + 1 == batch.items.len() - start).unwrap_or(false);
        if all_done && status.map(|s| s.success()).unwrap_or(false) {
            break;
        }
        // which item did not finish
        let culprit = timed_out.or(match (last_started, finished_upto) {
            (Some(s), Some(f)) if s > f => Some(s),
            (Some(s), None) => Some(s),
            (_, Some(f)) => Some(f + 1),
            (None, None) => Some(0),
        });
        let culprit = culprit.unwrap_or(0);
        if all_done {
            break;
        }
        let reason = match (timed_out, status) {
            (Some(_), _) => "timeout".to_string(),
            (None, None) => "timeout".to_string(),
            (None, Some(s)) => format!("crash: child ended with {s}"),
        };
        if start + culprit < batch.items.len() {
            out.culprits.push((start + culprit, reason));
        }
        start += culprit + 1;
    }
    out
}

/// Run all batches, `threads` children at a time. Once `culprit_budget` items did not come back
/// the remaining batches are abandoned (the failure is established; every further culprit costs a
/// watchdog period).
pub fn run_batches(child_flag: &str, batches: &[Batch], wall_limit: Duration, threads: usize) -> Vec<BatchResult> {
    let culprit_budget = 6usize;
    let culprits_seen = AtomicUsize::new(0);
    let next = AtomicUsize::new(0);
    let results: Mutex<Vec<Option<BatchResult>>> = Mutex::new((0..batches.len()).map(|_| None).collect());
    std::thread::scope(|s| {
        for _ in 0..threads.max(1) {
            s.spawn(|| loop {
                let i = next.fetch_add(1, Ordering::SeqCst);
                if i >= batches.len() {
                    break;
                }
                if culprits_seen.load(Ordering::SeqCst) >= culprit_budget {
                    results.lock().unwrap()[i] = Some(BatchResult { abandoned: batches[i].items.len(), ..Default::default() });
                    continue;
                }
                let r = run_batch(child_flag, i, &batches[i], wall_limit, 1);
                culprits_seen.fetch_add(r.culprits.len(), Ordering::SeqCst);
                results.lock().unwrap()[i] = Some(r);
            });
        }
    });
    results.into_inner().unwrap().into_iter().map(|r| r.unwrap_or_default()).collect()
}

/// The child side. Never returns.
pub fn child_main<S>(
    infile: &str,
    outfile: &str,
    per_item_secs: u64,
    init: impl FnOnce(&serde_json::Value) -> S,
    each: impl Fn(&S, &serde_json::Value) -> Vec<String>,
) -> ! {
    let text = std::fs::read_to_string(infile).expect("batch file");
    let j: serde_json::Value = serde_json::from_str(&text).expect("batch json");
    // the parent can ask for a longer limit (when it re-runs a suspected culprit on its own)
    let per_item_secs = j["common"]["limit_secs"].as_u64().unwrap_or(per_item_secs);
    let out = Arc::new(Mutex::new(std::fs::File::create(outfile).expect("child out file")));
    let started = Arc::new(AtomicU64::new(u64::MAX));
    let current = Arc::new(AtomicUsize::new(0));
    let t0 = Instant::now();
    {
        let (out, started, current) = (out.clone(), started.clone(), current.clone());
        std::thread::spawn(move || loop {
            std::thread::sleep(Duration::from_millis(50));
            let st = started.load(Ordering::SeqCst);
            // resident set above 3 GiB: an endless loop that fills a capture buffer
            let too_big = std::fs::read_to_string("/proc/self/statm")
                .ok()
                .and_then(|t| t.split_whitespace().nth(1).and_then(|p| p.parse::<u64>().ok()))
                .map(|pages| pages * 4096 > 3 << 30)
                .unwrap_or(false);
            if st != u64::MAX && (too_big || t0.elapsed().as_millis() as u64 > st + per_item_secs * 1000) {
                if let Ok(mut f) = out.lock() {
                    let _ = writeln!(f, "T {}", current.load(Ordering::SeqCst));
                    let _ = f.flush();
                }
                std::process::exit(3);
            }
        });
    }
    let state = init(&j["common"]);
    let empty = Vec::new();
    for (i, item) in j["items"].as_array().unwrap_or(&empty).iter().enumerate() {
        current.store(i, Ordering::SeqCst);
        {
            let mut f = out.lock().unwrap();
            let _ = writeln!(f, "P {i}");
            let _ = f.flush();
        }
        started.store(t0.elapsed().as_millis() as u64, Ordering::SeqCst);
        let lines = each(&state, item);
        started.store(u64::MAX, Ordering::SeqCst);
        let mut f = out.lock().unwrap();
        for l in lines {
            let _ = writeln!(f, "R {}", l.replace('\n', "\\n"));
        }
        let _ = writeln!(f, "E {i}");
        let _ = f.flush();
    }
    std::process::exit(0);
}

/// `Write` that refuses to grow beyond `cap` bytes (an endless loop that writes ends in an error
/// instead of eating the memory).
pub struct Capped {
    pub buf: Vec<u8>,
    pub cap: usize,
}

impl Capped {
    pub fn new(cap: usize) -> Self {
        Capped { buf: Vec::new(), cap }
    }
}

impl Write for Capped {
    fn write(&mut self, data: &[u8]) -> std::io::Result<usize> {
        if self.buf.len() + data.len() > self.cap {
            return Err(std::io::Error::other("verif: output larger than the cap"));
        }
        self.buf.extend_from_slice(data);
        Ok(data.len())
    }
    fn flush(&mut self) -> std::io::Result<()> {
        Ok(())
    }
}
