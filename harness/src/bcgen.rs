//! Bytecode-oriented template generator shared by the C09 and C07 harnesses: a jump-adjacent
//! stream (every short-circuit / ternary / branch / loop / capture shape with a variable path next
//! to each jump and jump target, placed in bodies, blocks, component bodies, includes, captures …),
//! a general statement / expression stream, and a lattice of contexts for the variables `a b c`.
use crate::rng::Rng;
use crate::wire::decode;
use tera::Context;

// ------------------------------------------------------------------------------ cases

#[derive(Clone, Copy, PartialEq, Eq, Debug)]
pub enum Place {
    Body,
    Block,
    ChildSuper,
    Component,
    ComponentBody,
    Include,
    FilterSection,
    SetBlock,
    ForBody,
    IfBody,
}

pub const PLACES: [Place; 10] = [
    Place::Body,
    Place::Block,
    Place::ChildSuper,
    Place::Component,
    Place::ComponentBody,
    Place::Include,
    Place::FilterSection,
    Place::SetBlock,
    Place::ForBody,
    Place::IfBody,
];

#[derive(Clone, Debug)]
pub struct Case {
    pub id: usize,
    pub stream: &'static str,
    pub shape: String,
    pub place: Place,
    pub segs: Vec<String>,
}

#[derive(Clone, Debug, PartialEq)]
pub enum Mode {
    Render,
    Block(String),
    Component(String),
}

impl Case {
    /// odd cases are autoescaped (`.html`), even ones are not
    pub fn ext(&self) -> &'static str {
        if self.id % 2 == 1 { ".html" } else { "" }
    }
    pub fn name(&self) -> String {
        format!("t{}{}", self.id, self.ext())
    }
    /// name of an auxiliary template of the case (same autoescape setting)
    pub fn aux(&self, tag: &str) -> String {
        format!("t{}_{tag}{}", self.id, self.ext())
    }
    pub fn templates(&self) -> Vec<(String, String)> {
        let n = self.name();
        let raw_body: String = self.segs.concat();
        let body = raw_body
            .replace("@@HI@@", &format!("hi{}", self.id))
            .replace("@@HB@@", &format!("hb{}", self.id))
            .replace("@@I@@", &self.aux("i"))
            .replace("@@IS@@", &self.aux("is"));
        let mut out = self.place_templates(&n, body);
        if raw_body.contains("@@HI@@") || raw_body.contains("@@HB@@") {
            out.insert(
                0,
                (
                    self.aux("c"),
                    format!(
                        "{{% component hi{id}(v=1, w=\"d\") %}}[{{{{ v }}}}{{{{ w.b }}}}]{{% endcomponent hi{id} %}}{{% component hb{id}(v=1) %}}<{{{{ v }}}}{{{{ body }}}}>{{% endcomponent hb{id} %}}",
                        id = self.id
                    ),
                ),
            );
        }
        if raw_body.contains("@@IS@@") {
            out.insert(
                0,
                (
                    self.aux("is"),
                    "{% if a.b.b == \"LOOP\" %}L{% else %}C{% endif %}{{ a.b.b | upper }}{{ a.b.c.b ~ \"!\" }}{{ b.b.b | default(value=\"nb\") }}{% if c.b.c %}{{ c.b.c.b }}{% endif %}{{ lv?.b | default(value=\"nl\") }}{{ a.b.c.b }}{{ b.b }}{% set z = c.b %}{{ z.b }}".to_string(),
                ),
            );
        }
        if raw_body.contains("@@I@@") {
            out.insert(0, (self.aux("i"), "i{{ a.b }}{% if b %}{{ b.b.c }}{% endif %}".to_string()));
        }
        out
    }
    fn place_templates(&self, n: &str, body: String) -> Vec<(String, String)> {
        let n = n.to_string();
        match self.place {
            Place::Body => vec![(n, body)],
            Place::Block => vec![(n, format!("<{{% block k %}}{body}{{% endblock %}}>"))],
            Place::ChildSuper => vec![
                (self.aux("p"), "A{% block k %}[{{ b.c }}{{ b.b.c.b }}]{% endblock k %}B{{ a.b }}".to_string()),
                (n.clone(), format!("{{% extends \"{}\" %}}{{% block k %}}{body}{{{{ super() }}}}{{% endblock %}}", self.aux("p"))),
            ],
            Place::Component => vec![(
                n.clone(),
                format!(
                    "{{% component c{id}(a, b, c) %}}{body}{{% endcomponent c{id} %}}({{{{ <c{id} a={{a}} b={{b}} c={{c}}/> }}}})",
                    id = self.id
                ),
            )],
            Place::ComponentBody => vec![(
                n.clone(),
                format!(
                    "{{% component c{id}() %}}[{{{{ body }}}}]{{% endcomponent c{id} %}}{{% <c{id}> %}}{body}{{% </c{id}> %}}",
                    id = self.id
                ),
            )],
            Place::Include => vec![
                (self.aux("inc"), body),
                (n.clone(), format!("x{{% include \"{}\" %}}{{{{ a.b }}}}", self.aux("inc"))),
            ],
            Place::FilterSection => vec![(n, format!("{{% filter upper %}}{body}{{% endfilter %}}"))],
            Place::SetBlock => vec![(n, format!("{{% set w %}}{body}{{% endset %}}<{{{{ w }}}}>"))],
            Place::ForBody => vec![(n, format!("{{% for x in [a, b] %}}{body}{{% endfor %}}"))],
            Place::IfBody => vec![(n, format!("{{% if true %}}{body}{{% else %}}{{{{ c.b }}}}{{% endif %}}{{{{ a.b }}}}"))],
        }
    }
    pub fn modes(&self) -> Vec<Mode> {
        match self.place {
            Place::Block | Place::ChildSuper => vec![Mode::Render, Mode::Block("k".into())],
            Place::Component => vec![Mode::Render, Mode::Component(format!("c{}", self.id))],
            _ => vec![Mode::Render],
        }
    }
}

// ------------------------------------------------------------------------------ generators

pub const ROOTS: [&str; 3] = ["a", "b", "c"];

/// a variable path in one of the syntactic forms the compiler treats differently
pub fn path(rng: &mut Rng, loop_vars: &[&str]) -> String {
    let root: String = if !loop_vars.is_empty() && rng.chance(1, 3) {
        rng.pick(loop_vars).to_string()
    } else {
        rng.pick(&ROOTS).to_string()
    };
    match rng.below(18) {
        0..=2 => root,
        3..=5 => format!("{root}.b"),
        6..=7 => format!("{root}.b.c"),
        8 => format!("{root}?.b"),
        9 => format!("{root}[\"b\"]"),
        10 => format!("{root}.b?.c"),
        11 => format!("{root}?.b.c"),
        12 => match rng.below(4) {
            0 => format!("{root}?[\"b\"]"),
            1 => format!("{root}.b?[\"c\"]?.b"),
            2 => format!("{root}.c?[:1]"),
            _ => format!("{root}.b[\"c\"]"),
        },
        13 => format!("{root}.c"),
        14 => match rng.below(6) {
            0 => "1".into(),
            1 => "\"s\"".into(),
            2 => "false".into(),
            3 => "true".into(),
            4 => "none".into(),
            _ => "__tera_context.a.b".into(),
        },
        15 | 16 => format!("{root}.b.c.b"),
        // the magic dump variable, alone and with attribute access (never fused)
        _ => match rng.below(5) {
            0 => "__tera_context".into(),
            1 => format!("__tera_context.{root}"),
            2 => format!("__tera_context.{root}.b"),
            3 => format!("__tera_context.{root}.b.c.b"),
            _ => format!("__tera_context.{root}?.b"),
        },
    }
}

pub const N_SHAPES: usize = 59;

/// Every control-flow / short-circuit shape, with variable paths right before and after each
/// jump and each jump target. `in_loop`: `break` / `continue` are legal here.
pub fn shape(k: usize, rng: &mut Rng, loop_vars: &[&str], in_loop: bool) -> (&'static str, String) {
    let mut ps: Vec<String> = (0..7).map(|_| path(rng, loop_vars)).collect();
    let mut p = || ps.pop().unwrap();
    // an iterable-biased and a key-biased path (under the rich context `.c` is an array, `.b.b` is "b")
    let mut arrs: Vec<String> = (0..3).map(|_| if rng.chance(2, 3) { format!("{}.c", rng.pick(&ROOTS)) } else { path(rng, loop_vars) }).collect();
    let mut arr = || arrs.pop().unwrap();
    let mut keys: Vec<String> = (0..3).map(|_| if rng.chance(2, 3) { format!("{}.b.b", rng.pick(&ROOTS)) } else { path(rng, loop_vars) }).collect();
    let mut key = || keys.pop().unwrap();
    match k {
        0 => ("and", format!("{{{{ {} and {} }}}}", p(), p())),
        1 => ("or", format!("{{{{ {} or {} }}}}", p(), p())),
        2 => ("and3", format!("{{{{ {} and {} and {} }}}}", p(), p(), p())),
        3 => ("and_or", format!("{{{{ {} and {} or {} }}}}", p(), p(), p())),
        4 => ("or_and", format!("{{{{ ({} or {}) and {} }}}}", p(), p(), p())),
        5 => ("not_and", format!("{{{{ not {} and {} }}}}", p(), p())),
        6 => ("and_subscript", format!("{{{{ ({} and {})[\"b\"] }}}}", p(), p())),
        7 => ("or_subscript", format!("{{{{ ({} or {})[\"b\"] }}}}", p(), p())),
        8 => ("subscript_or_attr", format!("{{{{ a[{} or {}].c.b }}}}", key(), key())),
        9 => ("ternary", format!("{{{{ {} if {} else {} }}}}", p(), p(), p())),
        10 => ("ternary_subscript", format!("{{{{ ({} if {} else {})[\"b\"] }}}}{{{{ b[{} if {} else {}].b }}}}", p(), p(), p(), key(), p(), key())),
        11 => ("ternary_nested", format!("{{{{ {} if {} else ({} if {} else {}) }}}}", p(), p(), p(), p(), p())),
        12 => ("ternary_and", format!("{{{{ {} if {} and {} else {} }}}}", p(), p(), p(), p())),
        13 => ("if", format!("{{% if {} %}}{{{{ {} }}}}{{% endif %}}{{{{ {} }}}}", p(), p(), p())),
        14 => ("if_else", format!("{{% if {} %}}{{{{ {} }}}}{{% else %}}{{{{ {} }}}}{{% endif %}}{{{{ {} }}}}", p(), p(), p(), p())),
        15 => (
            "if_elif_else",
            format!(
                "{{% if {} %}}{{{{ {} }}}}{{% elif {} %}}{{{{ {} }}}}{{% else %}}{{{{ {} }}}}{{% endif %}}{{{{ {} }}}}",
                p(), p(), p(), p(), p(), p()
            ),
        ),
        16 => ("if_and", format!("{{% if {} and {} %}}{{{{ {} }}}}{{% endif %}}", p(), p(), p())),
        17 => ("if_or_text", format!("{{% if {} or {} %}}x{{{{ {} }}}}y{{% else %}}{{{{ {} }}}}z{{% endif %}}", p(), p(), p(), p())),
        18 => ("if_empty_then", format!("{{% if {} %}}{{% else %}}{{{{ {} }}}}{{% endif %}}", p(), p())),
        19 => ("for", format!("{{% for x in {} %}}{{{{ x.b }}}}{{{{ {} }}}}{{% endfor %}}{{{{ {} }}}}", arr(), p(), p())),
        20 => ("for_else", format!("{{% for x in {} %}}{{{{ {} }}}}{{% else %}}{{{{ {} }}}}{{% endfor %}}{{{{ {} }}}}", arr(), p(), p(), p())),
        21 => (
            "for_break",
            format!("{{% for x in {} %}}{{% if {} %}}{{% break %}}{{% endif %}}{{{{ {} }}}}{{% endfor %}}{{{{ {} }}}}", arr(), p(), p(), p()),
        ),
        22 => (
            "for_continue",
            format!("{{% for x in {} %}}{{{{ {} }}}}{{% if {} %}}{{% continue %}}{{% endif %}}{{{{ {} }}}}{{% endfor %}}", arr(), p(), p(), p()),
        ),
        23 => ("for_else_break", format!("{{% for x in {} %}}{{{{ x }}}}{{% break %}}{{% else %}}{{{{ {} }}}}{{% endfor %}}{{{{ {} }}}}", arr(), p(), p())),
        24 => ("for_kv", format!("{{% for k, v in {} %}}{{{{ v }}}}{{{{ k }}}}{{{{ {} }}}}{{% endfor %}}", p(), p())),
        25 => ("for_lit", format!("{{% for y in [1, 2] %}}{{{{ {} }}}}{{% endfor %}}", p())),
        26 => ("filter_section", format!("{{% filter upper %}}{{{{ {} }}}}{{% endfilter %}}{{{{ {} }}}}", p(), p())),
        27 => ("filter_section_if", format!("{{% filter upper %}}{{% if {} %}}{{{{ {} }}}}{{% endif %}}{{% endfilter %}}", p(), p())),
        28 => ("set", format!("{{% set v = {} %}}{{{{ v }}}}{{{{ {} }}}}", p(), p())),
        29 => ("set_and", format!("{{% set v = {} and {} %}}{{{{ v }}}}", p(), p())),
        30 => ("set_ternary", format!("{{% set v = {} if {} else {} %}}{{{{ v.b }}}}", p(), p(), p())),
        31 => ("set_block", format!("{{% set v %}}{{{{ {} }}}}{{% if {} %}}{{{{ {} }}}}{{% endif %}}{{% endset %}}{{{{ v }}}}", p(), p(), p())),
        32 => ("set_block_filter", format!("{{% set v | upper %}}{{{{ {} }}}}{{% endset %}}{{{{ v }}}}", p())),
        33 => ("comprehension_if", format!("{{{{ [y.b for y in {} if {}] }}}}", arr(), p())),
        34 => ("comprehension", format!("{{{{ [{} for y in {}] }}}}", p(), arr())),
        35 => ("plain", format!("{{{{ {} }}}}{{{{ {} }}}}", p(), p())),
        36 => ("text_between", format!("x{{{{ {} }}}}y{{{{ {} }}}}", p(), p())),
        37 => ("dump_if", format!("{{% if __tera_context.a %}}{{{{ {} }}}}{{% endif %}}", p())),
        38 => {
            let q = p();
            ("is_defined", format!("{{% if {q} is defined %}}{{{{ {q} }}}}{{% endif %}}"))
        }
        39 => ("array_lit", format!("{{{{ [{}, {} and {}] }}}}", p(), p(), p())),
        40 => ("filter_default", format!("{{{{ {} | default(value={}) }}}}", p(), p())),
        41 => ("subscript", format!("{{{{ a[{}] }}}}{{{{ {}[{} and \"b\"] }}}}", key(), p(), p())),
        42 => (
            "for_nested",
            format!("{{% for x in {} %}}{{% for y in {} %}}{{{{ y }}}}{{{{ x.b }}}}{{% endfor %}}{{{{ {} }}}}{{% endfor %}}", arr(), arr(), p()),
        ),
        43 => ("concat", format!("{{{{ {} ~ {} }}}}", p(), p())),
        44 => ("not", format!("{{{{ not {} }}}}", p())),
        45 => ("cmp", format!("{{{{ {} == {} }}}}", p(), p())),
        46 => ("in", format!("{{{{ {} in {} }}}}", p(), p())),
        47 => ("or_or_subscript", format!("{{{{ ({} or {} or {})[\"b\"] }}}}", p(), p(), p())),
        48 => ("if_not", format!("{{% if not {} %}}{{{{ {} }}}}{{% endif %}}{{{{ {} }}}}", p(), p(), p())),
        49 => ("map_lit", format!("{{{{ {{\"k\": {}, \"l\": {} or {}}} }}}}", p(), p(), p())),
        50 if in_loop => ("break_if", format!("{{% if {} %}}{{% break %}}{{% endif %}}{{{{ {} }}}}", p(), p())),
        51 if in_loop => ("continue_if", format!("{{{{ {} }}}}{{% if {} %}}{{% continue %}}{{% endif %}}{{{{ {} }}}}", p(), p(), p())),
        52 => (
            "set_safe_in_map",
            format!("{{% set m = {{\"k\": {} | safe, \"l\": \"<i>&\" | safe, \"n\": \"<u>&\"}} %}}{{{{ m.k }}}}{{{{ m.l }}}}{{{{ m.n }}}}{{{{ m }}}}", p()),
        ),
        53 => ("dump_paths", format!("{{{{ __tera_context.a.b.b }}}}{{% if __tera_context.{} is defined %}}{{{{ __tera_context.b.b.c.b }}}}{{% endif %}}", rng.pick(&ROOTS))),
        // a template-local variable with the NAME of a context variable (different field values),
        // then loaded, written, tested and re-assigned paths through it, outside any loop
        54 | 55 => {
            let r = *rng.pick(&ROOTS);
            let kw = if k == 54 { "set" } else { "set_global" };
            (
                if k == 54 { "shadow_set" } else { "shadow_set_global" },
                format!(
                    "{{% {kw} {r} = {{\"b\": {{\"b\": \"SET\", \"c\": {{\"b\": \"<s>&\" }} }}, \"c\": [7] }} %}}{{% if {r}.b.b == \"SET\" %}}y{{% else %}}n{{% endif %}}{{{{ {r}.b.b | upper }}}}{{{{ {r}.b.c.b ~ \"!\" }}}}{{% set q = {r}.b.c %}}{{{{ q.b }}}}{{{{ {r}.b.b }}}}{{{{ {r}.c | length }}}}{{{{ {r}.b.x | default(value=\"dx\") }}}}{{{{ {} }}}}",
                    p()
                ),
            )
        }
        56 => {
            let r = *rng.pick(&ROOTS);
            ("shadow_set_block", format!("{{% set {r} %}}txt{{{{ {} }}}}{{% endset %}}{{{{ {r}.b | default(value=\"nb\") }}}}{{% if {r}.b %}}m{{% else %}}s{{% endif %}}{{{{ {r} ~ \"!\" }}}}{{{{ {r}.b is defined }}}}", p()))
        }
        // an included template executed inside the includer's loop reads the loop variable's fields
        57 => {
            let r = *rng.pick(&ROOTS);
            (
                "include_in_loop",
                format!(
                    "{{% for {r} in [{{\"b\": {{\"b\": \"LOOP\", \"c\": {{\"b\": \"<l>&\" }} }} }}] %}}{{% include \"@@IS@@\" %}}{{% endfor %}}{{% for lv in [{}] %}}{{% include \"@@IS@@\" %}}{{% endfor %}}",
                    p()
                ),
            )
        }
        // direct (escaped) writes at every level of nested captures, with text in between
        58 => (
            "nested_capture",
            format!(
                "{{% filter upper %}}o{{{{ {} }}}}{{% set v %}}i{{{{ {} }}}}j{{% filter lower %}}K{{{{ {} }}}}L{{% endfilter %}}{{% endset %}}m{{{{ v | lower }}}}n{{{{ {} }}}}{{% <@@HB@@ v={{ 1 }}> %}}p{{{{ {} }}}}q{{% </@@HB@@> %}}{{% endfilter %}}r{{{{ {} }}}}",
                p(), p(), p(), p(), p(), p()
            ),
        ),
        _ => ("write", format!("{{{{ {} }}}}", p())),
    }
}

/// general statement / expression generator (always parses; may fail at render time)
pub fn gen_expr(rng: &mut Rng, depth: u32, lv: &[&str]) -> String {
    if depth == 0 || rng.chance(2, 5) {
        return path(rng, lv);
    }
    let d = depth - 1;
    match rng.below(27) {
        0 => format!("{} and {}", gen_expr(rng, d, lv), gen_expr(rng, d, lv)),
        1 => format!("{} or {}", gen_expr(rng, d, lv), gen_expr(rng, d, lv)),
        2 => format!("({} if {} else {})", gen_expr(rng, d, lv), gen_expr(rng, d, lv), gen_expr(rng, d, lv)),
        3 => format!("not ({})", gen_expr(rng, d, lv)),
        4 => format!("a[{}].b", gen_expr(rng, d, lv)),
        5 => format!("b[{}]?.b.c", gen_expr(rng, d, lv)),
        6 => format!("({})[{}]", gen_expr(rng, d, lv), gen_expr(rng, d, lv)),
        7 => {
            // unary operators are not allowed directly after some binary operators
            let operand = |rng: &mut Rng| {
                let e = gen_expr(rng, d, lv);
                if e.starts_with("not ") || e.starts_with("(-") { path(rng, lv) } else { e }
            };
            let (l, r) = (operand(rng), operand(rng));
            format!("({} {} {})", l, rng.pick(&["+", "-", "*", "/", "//", "%", "**", "==", "!=", "<", "<=", ">", ">=", "~", "in"]), r)
        }
        8 => format!("{} | {}", path(rng, lv), rng.pick(&["upper", "length", "str", "first", "last", "safe", "keys", "reverse"])),
        9 => format!("{} | default(value={})", path(rng, lv), gen_expr(rng, d, lv)),
        10 => format!("{} is {}", path(rng, lv), rng.pick(&["defined", "undefined", "string", "map", "array", "none", "number"])),
        11 => format!("[{}, {}]", gen_expr(rng, d, lv), gen_expr(rng, d, lv)),
        12 => format!("[y for y in {} if {}]", gen_expr(rng, d, lv), gen_expr(rng, d, &[lv, &["y"]].concat())),
        13 => format!("[{} for y in {}]", gen_expr(rng, d, &[lv, &["y"]].concat()), path(rng, lv)),
        14 => format!("{{\"k\": {} }}", gen_expr(rng, d, lv)),
        15 => format!("({})[1:]", gen_expr(rng, d, lv)),
        16 => format!("(-{})", path(rng, lv)),
        17 => format!("range(end={} or 2)", path(rng, lv)),
        18 => format!("[...{}, {}]", path(rng, lv), path(rng, lv)),
        20 => format!("{{...{}, \"k\": {} }}", path(rng, lv), gen_expr(rng, d, lv)),
        21 => match rng.below(4) {
            0 => format!("{} | replace(from=\"b\", to={})", path(rng, lv), gen_expr(rng, d, lv)),
            1 => format!("{} | truncate(length={})", path(rng, lv), rng.pick(&["2", "a.c", "b.b.b", "0"])),
            2 => format!("{} | join(sep={})", path(rng, lv), gen_expr(rng, d, lv)),
            _ => format!("{} | get(key=\"b\", default={})", path(rng, lv), gen_expr(rng, d, lv)),
        },
        22 => match rng.below(3) {
            0 => format!("{} is containing(pat={})", path(rng, lv), path(rng, lv)),
            1 => format!("{} is divisible_by(divisor={})", path(rng, lv), rng.pick(&["2", "0", "a.c", "b"])),
            _ => format!("{} is starting_with(pat=\"b\")", path(rng, lv)),
        },
        23 => format!("range(start={} or 1, end={} or 3)", path(rng, lv), path(rng, lv)),
        24 => format!("<@@HI@@ v={{ {} }} w={{{}}}/>", gen_expr(rng, d, lv), path(rng, lv)),
        25 => format!("({})[{}:{}]", path(rng, lv), rng.pick(&["", "1", "a.c", "-1"]), rng.pick(&["", "2", "b", "none"])),
        _ => format!("({} and {})[\"b\"]", gen_expr(rng, d, lv), gen_expr(rng, d, lv)),
    }
}

pub fn gen_stmt(rng: &mut Rng, depth: u32, lv: &[&str], in_loop: bool, in_capture: bool) -> String {
    let body = |rng: &mut Rng, lv: &[&str], in_loop: bool, in_capture: bool| -> String {
        let n = 1 + rng.below(3);
        (0..n).map(|_| gen_stmt(rng, depth.saturating_sub(1), lv, in_loop, in_capture)).collect()
    };
    if depth == 0 {
        return match rng.below(4) {
            0 => "txt".into(),
            _ => format!("{{{{ {} }}}}", gen_expr(rng, 1, lv)),
        };
    }
    match rng.below(20) {
        0 | 1 => format!("{{{{ {} }}}}", gen_expr(rng, 2, lv)),
        2 => format!("{{% if {} %}}{}{{% endif %}}", gen_expr(rng, 2, lv), body(rng, lv, in_loop, in_capture)),
        3 => format!(
            "{{% if {} %}}{}{{% else %}}{}{{% endif %}}",
            gen_expr(rng, 2, lv),
            body(rng, lv, in_loop, in_capture),
            body(rng, lv, in_loop, in_capture)
        ),
        4 => format!(
            "{{% if {} %}}{}{{% elif {} %}}{}{{% else %}}{}{{% endif %}}",
            gen_expr(rng, 1, lv),
            body(rng, lv, in_loop, in_capture),
            gen_expr(rng, 1, lv),
            body(rng, lv, in_loop, in_capture),
            body(rng, lv, in_loop, in_capture)
        ),
        5 => {
            let lv2 = [lv, &["x"]].concat();
            format!("{{% for x in {} %}}{}{{% endfor %}}", gen_expr(rng, 1, lv), body(rng, &lv2, true, false))
        }
        6 => {
            let lv2 = [lv, &["x"]].concat();
            format!(
                "{{% for x in {} %}}{}{{% else %}}{}{{% endfor %}}",
                gen_expr(rng, 1, lv),
                body(rng, &lv2, true, false),
                body(rng, lv, in_loop, in_capture)
            )
        }
        7 => format!("{{% filter {} %}}{}{{% endfilter %}}", rng.pick(&["upper", "lower", "trim"]), body(rng, lv, false, true)),
        8 => format!("{{% set v = {} %}}", gen_expr(rng, 2, lv)),
        9 => format!("{{% set v %}}{}{{% endset %}}{{{{ v }}}}", body(rng, lv, false, true)),
        10 if in_loop && !in_capture => format!("{{% if {} %}}{{% break %}}{{% endif %}}", gen_expr(rng, 1, lv)),
        11 if in_loop && !in_capture => format!("{{% if {} %}}{{% continue %}}{{% endif %}}", gen_expr(rng, 1, lv)),
        12 => format!("{{% set_global g = {} %}}{{{{ g.b }}}}", gen_expr(rng, 1, lv)),
        14 => format!("{{% <@@HB@@ v={{ {} }}> %}}{}{{% </@@HB@@> %}}", gen_expr(rng, 1, lv), body(rng, lv, false, true)),
        15 => "{% include \"@@I@@\" %}".to_string(),
        16 => {
            let lv2 = [lv, &["k", "v"]].concat();
            format!("{{% for k, v in {} %}}{}{{% endfor %}}", path(rng, lv), body(rng, &lv2, true, false))
        }
        17 => format!(
            "{{% set v | upper | truncate(length={}) %}}{}{{% endset %}}{{{{ v }}}}",
            rng.pick(&["3", "a.c", "b.b.b"]),
            body(rng, lv, false, true)
        ),
        18 => format!("{{% filter replace(from=\"a\", to={}) %}}{}{{% endfilter %}}", gen_expr(rng, 1, lv), body(rng, lv, false, true)),
        _ => format!("t{{{{ {} }}}}", path(rng, lv)),
    }
}

pub fn generate_cases(rng: &mut Rng, reps: usize, n_general: usize) -> Vec<Case> {
    let mut out = Vec::new();
    let mut id = 0usize;
    for _ in 0..reps {
        for k in 0..N_SHAPES {
            for place in PLACES {
                let in_loop = place == Place::ForBody;
                if (k == 50 || k == 51) && !in_loop {
                    continue;
                }
                let lv: Vec<&str> = if in_loop { vec!["x"] } else { vec![] };
                let (name, text) = shape(k, rng, &lv, in_loop);
                let mut segs = Vec::new();
                // a neighbour before / after so that jump targets at the edges of the shape sit
                // next to another path
                if rng.chance(1, 2) {
                    segs.push(shape(35 + rng.below(2), rng, &lv, in_loop).1);
                }
                segs.push(text);
                if rng.chance(1, 2) {
                    let k2 = rng.below(50);
                    segs.push(shape(k2, rng, &lv, in_loop).1);
                }
                out.push(Case { id, stream: "jump-adjacent", shape: name.to_string(), place, segs });
                id += 1;
            }
        }
    }
    for _ in 0..n_general {
        let place = *rng.pick(&PLACES);
        let in_loop = place == Place::ForBody;
        let in_capture = matches!(place, Place::FilterSection | Place::SetBlock | Place::ComponentBody);
        let lv: Vec<&str> = if in_loop { vec!["x"] } else { vec![] };
        let n = 1 + rng.below(4);
        let segs = (0..n).map(|_| gen_stmt(rng, 2, &lv, in_loop, in_capture)).collect();
        out.push(Case { id, stream: "general", shape: "general".into(), place, segs });
        id += 1;
    }
    out
}

// ------------------------------------------------------------------------------ contexts

/// values a variable can be bound to, in the wire form of `wire.rs` (`-` = not bound at all)
pub const RICH: usize = 27;
pub const RICH_SAFE: usize = 28;
pub const LATTICE: [&str; 33] = [
    "-",
    "U",
    "N",
    "B0",
    "B1",
    "i64:0",
    "i64:7",
    "s:",
    "s:7374",
    "s:3c623e",
    "S:3c623e",
    "M0",
    "M1 s:62 i64:1",
    "M1 s:62 U",
    "M1 s:62 N",
    "M1 s:62 B0",
    "M1 s:62 M1 s:63 i64:2",
    "M1 s:62 M1 s:63 U",
    "M1 s:62 M1 s:63 M1 s:62 s:64",
    "M1 s:62 M0",
    "M1 s:62 A2 i64:1 i64:2",
    "M2 s:62 s:78 s:63 s:79",
    "A0",
    "A2 i64:1 i64:2",
    "A2 M1 s:62 i64:1 M1 s:62 U",
    "A1 M1 s:62 M1 s:63 i64:3",
    "M2 s:62 M1 s:63 s:3c69 s:63 M1 s:62 B1",
    // {"b": {"b": "b", "c": {"b": D}}, "c": [R1, R1]} with R1 = {"b": {"b": "b", "c": {"b": D}}}, D = `<d>&"'`:
    // every path form of the generator is defined, `.c` is iterable, `.b.b` is a valid key, the
    // deepest leaf needs escaping (RICH: normal string, RICH_SAFE: marked safe)
    "M2 s:62 M2 s:62 s:62 s:63 M1 s:62 s:3c643e262227 s:63 A2 M1 s:62 M2 s:62 s:62 s:63 M1 s:62 s:3c643e262227 M1 s:62 M2 s:62 s:62 s:63 M1 s:62 s:3c643e262227",
    "M2 s:62 M2 s:62 s:62 s:63 M1 s:62 S:3c643e262227 s:63 A2 M1 s:62 M2 s:62 s:62 s:63 M1 s:62 S:3c643e262227 M1 s:62 M2 s:62 s:62 s:63 M1 s:62 S:3c643e262227",
    "M1 s:62 S:3c623e26",
    "M1 s:62 s:3c623e26",
    "M1 s:62 M1 s:63 S:3c623e26",
    "M1 s:62 M1 s:63 s:3c623e26",
];

pub type Ctx = [usize; 3];

pub fn make_ctx(c: &Ctx) -> Context {
    let mut ctx = Context::new();
    for (i, name) in ROOTS.iter().enumerate() {
        let w = LATTICE[c[i]];
        if w != "-" {
            ctx.insert_value(*name, decode(w).expect("lattice value"));
        }
    }
    ctx
}

pub fn ctx_json(c: &Ctx) -> serde_json::Value {
    serde_json::json!({"a": LATTICE[c[0]], "b": LATTICE[c[1]], "c": LATTICE[c[2]]})
}

pub fn contexts_for(rng: &mut Rng, n_random: usize) -> Vec<Ctx> {
    // fixed: every path of the generator defined / nothing bound / undefined leaves inside maps
    let mut v: Vec<Ctx> = vec![[RICH, RICH, RICH], [0, 0, 0], [17, 13, 12], [RICH_SAFE, RICH_SAFE, RICH_SAFE]];
    for _ in 0..n_random {
        let mut c = [0usize; 3];
        for x in c.iter_mut() {
            *x = if rng.chance(17, 20) { if rng.chance(1, 2) { RICH } else { RICH_SAFE } } else { rng.below(LATTICE.len()) };
        }
        v.push(c);
    }
    v
}

