//! C06 — registering any source text ends in Ok or Err: no panic, abort, stack overflow or hang.
//!
//! Every case is (delimiter set, template name, source[, further templates], action, stack).
//!  * implementation: run in CHILD processes (`c06 --child`, this same binary), each case under
//!    `catch_unwind`, on the child's main thread (rlimit stack, 8 MiB here) or on a 2 MiB thread;
//!    a dead / silent child is attributed to the first unanswered case (abort / timeout), which is
//!    then re-run alone with a long timeout before it counts
//!  * direct oracle (the property itself): outcome is `ok`, `err:<ErrorKind>` or, for a delimiter
//!    set outside `D::accepted()`, `rejected` — anything else is a violation, minimised (depth
//!    bisection for generated probes, delta debugging otherwise), then classified by shape:
//!    `chain_shape` = one long left-nested chain in a source (known finding F1),
//!    `set_chain_shape` = one long include / extends chain across templates (known finding F14);
//!    every other crash, hang or panic is reported with known = None
//!  * correspondence with the Lean lexer model (`drv_c06`): canonical token text, raw and
//!    whitespace-filtered, plus `validate <delims>` for every delimiter set seen
//!
//! Streams: the repo's snapshot inputs (as they are, re-spelled with other delimiters, every
//! prefix, mutated), a grammar-driven generator of mostly valid templates, a hostile list, every
//! source of up to 3 (4) symbols over a small alphabet, nesting amplification of every nesting
//! construct at depths around the limit and far beyond, flat width probes, rejected delimiter sets.
//! Template SETS on an instance with fallback prefixes (`set_fallback_prefixes`): include / extends
//! cycles, self references and chains whose names resolve only through a prefix, shadowed short
//! names, several prefixes, at once (`add_raw_templates`) and one `add_raw_template` per template.
//! Other entry points: `--replay <file>`, `--gen-debug N`, `--shape-check`.
use std::collections::{BTreeMap, HashSet};
use std::hash::{Hash, Hasher};
use std::io::{BufRead, BufReader, Write};
use std::path::{Path, PathBuf};
use std::process::{Command, Stdio};
use std::sync::atomic::{AtomicUsize, Ordering};
use std::sync::{mpsc, Mutex};
use std::time::{Duration, Instant};
use tera::{Context, Tera};
use tera_verif_harness::lexwire::{self, D};
use tera_verif_harness::report::{out_path, replay_path, Report, Violation};
use tera_verif_harness::rng::Rng;
use tera_verif_harness::wire::{hex, unhex};
use tera_verif_harness::{catch, driver, quiet_panics, Env};

const SELFTEST_LOOP: &str = "__C06_SELFTEST_LOOP__";
const SELFTEST_ABORT: &str = "__C06_SELFTEST_ABORT__";
const SELFTEST_PANIC: &str = "__C06_SELFTEST_PANIC__";
const SELFTEST_OVERFLOW: &str = "__C06_SELFTEST_OVERFLOW__";
/// sources longer than this are not sent to the Lean driver
const MODEL_MAX_BYTES: usize = 20_000;
/// a run of more than this many repeated left-nested links is the F1 shape
const CHAIN_LINKS: usize = 200;
/// a template set forming one include / extends chain longer than this is the F14 shape
const SET_CHAIN_LINKS: usize = 2000;

#[derive(Clone, Copy, PartialEq, Eq, Debug)]
enum Action {
    Add,
    AddMany,
    /// the same templates, one `add_raw_template` call each on the same instance (errors of
    /// single calls do not stop the sequence)
    AddIncremental,
    RenderStr,
}

impl Action {
    fn label(self) -> &'static str {
        match self {
            Action::Add => "add_raw_template",
            Action::AddMany => "add_raw_templates",
            Action::AddIncremental => "add_raw_template-per-template",
            Action::RenderStr => "render_str",
        }
    }
}

#[derive(Clone, Copy, PartialEq, Eq, Debug)]
enum Stack {
    Main,
    Small,
}

impl Stack {
    fn label(self) -> &'static str {
        match self {
            Stack::Main => "main",
            Stack::Small => "2MiB",
        }
    }
}

#[derive(Clone, Debug)]
struct Case {
    stream: &'static str,
    /// nesting / chain / width construct or mutation kind ("" when not applicable)
    construct: String,
    depth: usize,
    d: D,
    name: String,
    src: String,
    extra: Vec<(String, String)>,
    action: Action,
    stack: Stack,
    /// `Some(list)`: `set_fallback_prefixes(list)` is called before anything is added
    prefixes: Option<Vec<String>>,
}

fn enc(s: &str) -> String {
    if s.is_empty() { "-".into() } else { hex(s.as_bytes()) }
}

fn dec(s: &str) -> Option<String> {
    if s == "-" { Some(String::new()) } else { String::from_utf8(unhex(s)?).ok() }
}

impl Case {
    /// request line for the child (without the leading index)
    fn line(&self) -> String {
        let a = match self.action {
            Action::Add => "A",
            Action::AddMany => "M",
            Action::AddIncremental => "I",
            Action::RenderStr => "R",
        };
        let s = match self.stack {
            Stack::Main => "m",
            Stack::Small => "s",
        };
        let d = self.d.fields().iter().map(|f| enc(f)).collect::<Vec<_>>().join(",");
        let pf = match &self.prefixes {
            None => "~".to_string(),
            Some(v) if v.is_empty() => "~0".to_string(),
            Some(v) => v.iter().map(|p| enc(p)).collect::<Vec<_>>().join(","),
        };
        let mut out = format!("{a} {s} {d} {pf} {} {}", enc(&self.name), enc(&self.src));
        for (n, c) in &self.extra {
            out.push(' ');
            out.push_str(&enc(n));
            out.push(' ');
            out.push_str(&enc(c));
        }
        out
    }

    fn parse(line: &str) -> Option<Case> {
        let mut it = line.split(' ');
        let action = match it.next()? {
            "A" => Action::Add,
            "M" => Action::AddMany,
            "I" => Action::AddIncremental,
            "R" => Action::RenderStr,
            _ => return None,
        };
        let stack = match it.next()? {
            "m" => Stack::Main,
            "s" => Stack::Small,
            _ => return None,
        };
        let df: Vec<String> = it.next()?.split(',').map(dec).collect::<Option<Vec<_>>>()?;
        if df.len() != 6 {
            return None;
        }
        let d = D::new(&df[0], &df[1], &df[2], &df[3], &df[4], &df[5]);
        let prefixes = match it.next()? {
            "~" => None,
            "~0" => Some(Vec::new()),
            pf => Some(pf.split(',').map(dec).collect::<Option<Vec<_>>>()?),
        };
        let name = dec(it.next()?)?;
        let src = dec(it.next()?)?;
        let mut extra = Vec::new();
        while let Some(n) = it.next() {
            let c = it.next()?;
            extra.push((dec(n)?, dec(c)?));
        }
        Some(Case { stream: "wire", construct: String::new(), depth: 0, d, name, src, extra, action, stack, prefixes })
    }

    fn replay_json(&self, outcome: &str) -> serde_json::Value {
        let total: usize = self.src.len() + self.extra.iter().map(|(n, c)| n.len() + c.len()).sum::<usize>();
        let generated = matches!(self.stream, "nest-probe" | "width-probe" | "f1-probe" | "chain-100" | "set-chain-probe" | "set-chain");
        // big generated inputs are stored as their recipe (`generate`), everything else verbatim
        let compact = generated && total > 100_000;
        let mut j = serde_json::json!({
            "delims": self.d.to_json(),
            "name": self.name,
            "source": if self.src.len() <= 4000 { self.src.clone() } else { format!("{}… ({} bytes)", self.src.chars().take(400).collect::<String>(), self.src.len()) },
            "action": self.action.label(),
            "fallback_prefixes": self.prefixes,
            "all_templates": if total <= 4000 { serde_json::json!(std::iter::once((&self.name, &self.src)).chain(self.extra.iter().map(|(n, c)| (n, c))).map(|(n, c)| serde_json::json!([n, c])).collect::<Vec<_>>()) } else { serde_json::Value::Null },
            "stack": self.stack.label(),
            "outcome": outcome,
            "stream": self.stream,
            "construct": self.construct,
            "depth": self.depth,
            "templates": 1 + self.extra.len(),
            "rerun": "harness/target/release/c06 --replay <this file>",
        });
        if generated {
            j["generate"] = serde_json::json!({"family": self.stream, "kind": self.construct, "n": self.depth});
        }
        if !compact {
            j["source_hex"] = hex(self.src.as_bytes()).into();
            j["extra"] = self.extra.iter().map(|(n, c)| serde_json::json!([n, hex(c.as_bytes())])).collect::<Vec<_>>().into();
        }
        j
    }

    fn from_replay(j: &serde_json::Value) -> Option<Case> {
        let d = D::from_json(&j["delims"])?;
        let stack = if j["stack"].as_str() == Some("2MiB") { Stack::Small } else { Stack::Main };
        if j["source_hex"].as_str().is_none() {
            // stored as a recipe
            let g = &j["generate"];
            let family: &'static str = match g["family"].as_str()? {
                "nest-probe" => "nest-probe",
                "width-probe" => "width-probe",
                "f1-probe" => "f1-probe",
                "chain-100" => "chain-100",
                "set-chain-probe" => "set-chain-probe",
                "set-chain" => "set-chain",
                _ => return None,
            };
            let mut proto = mk(family, g["kind"].as_str()?, 0, &d, j["name"].as_str().unwrap_or("tpl"), String::new(), Action::Add, stack);
            if j["action"].as_str() == Some("render_str") {
                proto.action = Action::RenderStr;
            }
            return rebuild(&proto, g["n"].as_u64()? as usize);
        }
        let src = String::from_utf8(unhex(j["source_hex"].as_str()?)?).ok()?;
        let mut extra = Vec::new();
        if let Some(a) = j["extra"].as_array() {
            for e in a {
                extra.push((e[0].as_str()?.to_string(), String::from_utf8(unhex(e[1].as_str()?)?).ok()?));
            }
        }
        let action = match j["action"].as_str()? {
            "add_raw_templates" => Action::AddMany,
            "add_raw_template-per-template" => Action::AddIncremental,
            "render_str" => Action::RenderStr,
            _ => Action::Add,
        };
        let prefixes = j["fallback_prefixes"].as_array().map(|a| a.iter().filter_map(|p| p.as_str().map(|s| s.to_string())).collect::<Vec<_>>());
        Some(Case { stream: "replay", construct: String::new(), depth: 0, d, name: j["name"].as_str()?.to_string(), src, extra, action, stack, prefixes })
    }
}

// ---------------------------------------------------------------- child side

fn kind_name(k: &tera::ErrorKind) -> &'static str {
    use tera::ErrorKind::*;
    match k {
        Msg(_) => "Msg",
        SyntaxError(_) => "SyntaxError",
        RenderingError(_) => "RenderingError",
        CircularExtend { .. } => "CircularExtend",
        CircularInclude { .. } => "CircularInclude",
        MissingParent { .. } => "MissingParent",
        TemplateNotFound(_) => "TemplateNotFound",
        ComponentNotFound(_) => "ComponentNotFound",
        InvalidArgument { .. } => "InvalidArgument",
        MissingArgument { .. } => "MissingArgument",
        OutOfRangeArgument { .. } => "OutOfRangeArgument",
        Io(_) => "Io",
        Utf8Conversion => "Utf8Conversion",
        _ => "Other",
    }
}

fn one_line(s: &str) -> String {
    let t: String = s.chars().map(|c| if c.is_control() { ' ' } else { c }).take(240).collect();
    t
}

#[allow(unconditional_recursion)]
fn overflow_forever(n: u64) -> u64 {
    let pad = [n; 64];
    std::hint::black_box(&pad);
    overflow_forever(n + 1) + pad[(n % 64) as usize]
}

/// `ok` | `rejected` | `err:<Kind>[!display-panic:<msg>]` | `panic:<msg>`
fn run_case(c: &Case, selftest: bool) -> String {
    if selftest {
        match c.src.as_str() {
            SELFTEST_LOOP => loop {
                std::thread::sleep(Duration::from_millis(50));
            },
            SELFTEST_ABORT => std::process::abort(),
            SELFTEST_OVERFLOW => return format!("ok {}", overflow_forever(0)),
            _ => {}
        }
    }
    let r = catch(std::panic::AssertUnwindSafe(|| {
        if selftest && c.src == SELFTEST_PANIC {
            panic!("selftest panic");
        }
        let mut t = Tera::default();
        if t.set_delimiters(c.d.to_delimiters()).is_err() {
            return "rejected".to_string();
        }
        if let Some(pf) = &c.prefixes {
            if t.set_fallback_prefixes(pf.clone()).is_err() {
                return "err:Msg".to_string();
            }
        }
        let res = match c.action {
            Action::AddIncremental => {
                let mut first_err = None;
                for (n, s) in std::iter::once((&c.name, &c.src)).chain(c.extra.iter().map(|(n, s)| (n, s))) {
                    if let Err(e) = t.add_raw_template(n, s) {
                        first_err.get_or_insert(e);
                    }
                }
                match first_err {
                    None => Ok(()),
                    Some(e) => Err(e),
                }
            }
            Action::Add => t.add_raw_template(&c.name, &c.src),
            Action::AddMany => {
                let mut all: Vec<(&str, &str)> = vec![(c.name.as_str(), c.src.as_str())];
                all.extend(c.extra.iter().map(|(n, s)| (n.as_str(), s.as_str())));
                t.add_raw_templates(all)
            }
            Action::RenderStr => t.render_str(&c.src, &Context::new(), false).map(|_| ()),
        };
        match res {
            Ok(()) => "ok".to_string(),
            Err(e) => {
                let k = kind_name(e.kind());
                // the error value must also be presentable
                let shown = catch(std::panic::AssertUnwindSafe(|| e.to_string().len() + format!("{e:?}").len()));
                match shown {
                    Ok(_) => format!("err:{k}"),
                    Err(p) => format!("err:{k}!display-panic:{}", one_line(&p)),
                }
            }
        }
    }));
    match r {
        Ok(s) => s,
        Err(p) => format!("panic:{}", one_line(&p)),
    }
}

fn child_main() {
    quiet_panics();
    let selftest = std::env::var("C06_SELFTEST").ok().as_deref() == Some("1");
    let stdin = std::io::stdin();
    let stdout = std::io::stdout();
    for line in stdin.lock().lines() {
        let Ok(line) = line else { break };
        let (idx, rest) = line.split_once(' ').unwrap_or((line.as_str(), ""));
        let out = match Case::parse(rest) {
            None => "bad-request".to_string(),
            Some(case) => match case.stack {
                Stack::Main => run_case(&case, selftest),
                Stack::Small => std::thread::scope(|s| {
                    std::thread::Builder::new()
                        .stack_size(2 << 20)
                        .spawn_scoped(s, || run_case(&case, selftest))
                        .map(|h| h.join().unwrap_or_else(|_| "panic:worker thread".into()))
                        .unwrap_or_else(|e| format!("panic:cannot spawn thread {e}"))
                }),
            },
        };
        let mut o = stdout.lock();
        let _ = writeln!(o, "{idx} {out}");
        let _ = o.flush();
    }
}

// ---------------------------------------------------------------- parent side: isolation

fn describe_status(st: std::io::Result<std::process::ExitStatus>) -> String {
    match st {
        Err(e) => format!("abort(wait failed {e})"),
        Ok(s) => {
            #[cfg(unix)]
            {
                use std::os::unix::process::ExitStatusExt;
                if let Some(sig) = s.signal() {
                    return format!("abort(signal {sig})");
                }
            }
            format!("abort(exit {})", s.code().unwrap_or(-1))
        }
    }
}

/// Runs the request lines in child processes; one outcome per line, whatever the children do.
fn run_isolated(exe: &Path, lines: &[String], timeout: Duration, selftest: bool) -> Vec<String> {
    let mut out: Vec<String> = Vec::with_capacity(lines.len());
    while out.len() < lines.len() {
        let start = out.len();
        let mut cmd = Command::new(exe);
        cmd.arg("--child").stdin(Stdio::piped()).stdout(Stdio::piped()).stderr(Stdio::null());
        if selftest {
            cmd.env("C06_SELFTEST", "1");
        } else {
            cmd.env_remove("C06_SELFTEST");
        }
        let mut child = match cmd.spawn() {
            Ok(c) => c,
            Err(e) => {
                while out.len() < lines.len() {
                    out.push(format!("spawn-error:{e}"));
                }
                break;
            }
        };
        let mut stdin = child.stdin.take().unwrap();
        let stdout = child.stdout.take().unwrap();
        let mut payload = String::new();
        for (k, l) in lines[start..].iter().enumerate() {
            payload.push_str(&format!("{} {}\n", start + k, l));
        }
        let writer = std::thread::spawn(move || {
            let _ = stdin.write_all(payload.as_bytes());
        });
        let (tx, rx) = mpsc::channel::<Option<String>>();
        let reader = std::thread::spawn(move || {
            for l in BufReader::new(stdout).lines() {
                match l {
                    Ok(l) => {
                        if tx.send(Some(l)).is_err() {
                            return;
                        }
                    }
                    Err(_) => break,
                }
            }
            let _ = tx.send(None);
        });
        let mut died = false;
        while out.len() < lines.len() {
            match rx.recv_timeout(timeout) {
                Ok(Some(l)) => {
                    let (idx, o) = l.split_once(' ').unwrap_or((l.as_str(), ""));
                    if idx.parse::<usize>().ok() == Some(out.len()) {
                        out.push(o.to_string());
                    } else {
                        out.push(format!("protocol-error:{}", one_line(&l)));
                    }
                }
                Ok(None) | Err(mpsc::RecvTimeoutError::Disconnected) => {
                    out.push(describe_status(child.wait()));
                    died = true;
                    break;
                }
                Err(mpsc::RecvTimeoutError::Timeout) => {
                    let _ = child.kill();
                    let _ = child.wait();
                    out.push("timeout".into());
                    died = true;
                    break;
                }
            }
        }
        if !died {
            let _ = child.wait();
        }
        let _ = writer.join();
        let _ = reader.join();
    }
    out
}

/// `ok`, `err`, `rejected`, `panic`, `abort`, `timeout`, `display-panic`, `other`
fn class_of(outcome: &str) -> &'static str {
    if outcome == "ok" {
        "ok"
    } else if outcome == "rejected" {
        "rejected"
    } else if outcome.starts_with("err:") {
        if outcome.contains("!display-panic") { "display-panic" } else { "err" }
    } else if outcome.starts_with("panic:") {
        "panic"
    } else if outcome.starts_with("abort(") {
        "abort"
    } else if outcome == "timeout" {
        "timeout"
    } else {
        "other"
    }
}

fn is_fine(outcome: &str) -> bool {
    matches!(class_of(outcome), "ok" | "err" | "rejected")
}

struct Runner {
    exe: PathBuf,
    threads: usize,
    timeout: Duration,
    confirm_timeout: Duration,
    batch: usize,
    /// sources longer than this are not sent to the Lean driver (its cost grows faster than linearly)
    model_max: usize,
}

impl Runner {
    fn one(&self, c: &Case, timeout: Duration) -> String {
        run_isolated(&self.exe, &[c.line()], timeout, false).pop().unwrap_or_else(|| "other".into())
    }

    /// All cases, in parallel children; suspicious outcomes are re-run alone with the long
    /// timeout (a loaded machine must not turn into a false `timeout`). Returns
    /// (outcome per case, number of first-pass outcomes not reproduced).
    fn run(&self, cases: &[Case]) -> (Vec<String>, u64) {
        // batches: crash probes alone, the rest grouped
        let mut batches: Vec<(usize, usize)> = Vec::new();
        let mut i = 0;
        while i < cases.len() {
            if matches!(cases[i].stream, "f1-probe" | "set-chain-probe") {
                batches.push((i, i + 1));
                i += 1;
                continue;
            }
            let mut j = i;
            while j < cases.len() && j - i < self.batch && !matches!(cases[j].stream, "f1-probe" | "set-chain-probe") {
                j += 1;
            }
            batches.push((i, j));
            i = j;
        }
        let next = AtomicUsize::new(0);
        let results: Mutex<Vec<String>> = Mutex::new(vec![String::new(); cases.len()]);
        std::thread::scope(|s| {
            for _ in 0..self.threads {
                s.spawn(|| loop {
                    let b = next.fetch_add(1, Ordering::SeqCst);
                    if b >= batches.len() {
                        break;
                    }
                    let (lo, hi) = batches[b];
                    let lines: Vec<String> = cases[lo..hi].iter().map(|c| c.line()).collect();
                    let outs = run_isolated(&self.exe, &lines, self.timeout, false);
                    let mut r = results.lock().unwrap();
                    for (k, o) in outs.into_iter().enumerate() {
                        r[lo + k] = o;
                    }
                });
            }
        });
        let mut results = results.into_inner().unwrap();
        // confirmation pass
        let suspects: Vec<usize> = (0..cases.len()).filter(|&i| !is_fine(&results[i]) && class_of(&results[i]) != "display-panic").collect();
        let unconfirmed = AtomicUsize::new(0);
        let confirmed: Mutex<Vec<(usize, String)>> = Mutex::new(Vec::new());
        let nexts = AtomicUsize::new(0);
        std::thread::scope(|s| {
            for _ in 0..self.threads.min(suspects.len().max(1)) {
                s.spawn(|| loop {
                    let k = nexts.fetch_add(1, Ordering::SeqCst);
                    if k >= suspects.len() {
                        break;
                    }
                    let i = suspects[k];
                    let again = self.one(&cases[i], self.confirm_timeout);
                    if class_of(&again) != class_of(&results[i]) {
                        unconfirmed.fetch_add(1, Ordering::SeqCst);
                    }
                    confirmed.lock().unwrap().push((i, again));
                });
            }
        });
        for (i, o) in confirmed.into_inner().unwrap() {
            results[i] = o;
        }
        (results, unconfirmed.load(Ordering::SeqCst) as u64)
    }
}

// ---------------------------------------------------------------- construct builders

fn v(d: &D, inner: &str) -> String {
    format!("{} {} {}", d.vs, inner, d.ve)
}

fn tg(d: &D, inner: &str) -> String {
    format!("{} {} {}", d.bs, inner, d.be)
}

fn rep(s: &str, n: usize) -> String {
    s.repeat(n)
}

const NEST_DEPTHS: [usize; 11] = [10, 20, 30, 39, 40, 41, 42, 100, 1000, 10_000, 100_000];

const NEST_KINDS: &[&str] = &[
    "paren", "array", "map", "index", "optindex", "slice", "ternary-paren-true", "ternary-paren-else",
    "ternary-paren-cond", "ternary-right", "ternary-cond", "not", "minus-spaced", "minus-tight", "not-minus",
    "not-paren", "minus-paren", "call", "filter-arg", "test-arg", "pow", "paren-array", "mixed-brackets",
    "list-comp-elem", "list-comp-target", "list-comp-cond", "array-spread", "map-spread", "inline-comp-attr",
    "inline-comp-spread", "if", "if-else", "for", "for-else", "block", "filter-section", "set-block",
    "comp-body", "if-for-mixed", "filter-tag-kwargs", "comp-def-default-array", "comp-def-default-map",
    "comp-def-meta-map", "comp-call-attr-tag", "set-value", "if-cond-paren", "var-open", "tag-open",
    "comment-open", "raw-open",
];

/// Source nesting construct `kind` to depth `n` (never the F1 chain shape).
fn nest_src(kind: &str, n: usize, d: &D) -> Option<String> {
    let wrap = |a: &str, mid: &str, b: &str| v(d, &format!("{}{}{}", rep(a, n), mid, rep(b, n)));
    Some(match kind {
        "paren" => wrap("(", "1", ")"),
        "array" => wrap("[", "1", "]"),
        "map" => wrap("{\"a\": ", "1", " }"),
        "index" => wrap("a[", "0", "]"),
        "optindex" => wrap("a?[", "0", "]"),
        "slice" => wrap("a[1:", "2", "]"),
        "ternary-paren-true" => wrap("(", "1", " if 1 else 1)"),
        "ternary-paren-else" => wrap("(1 if 1 else ", "1", ")"),
        "ternary-paren-cond" => wrap("(1 if ", "1", " else 1)"),
        "ternary-right" => wrap("1 if 1 else ", "1", ""),
        "ternary-cond" => wrap("1 if ", "1", " else 1"),
        "not" => wrap("not ", "a", ""),
        "minus-spaced" => wrap("- ", "1", ""),
        "minus-tight" => wrap("-", "1", ""),
        "not-minus" => wrap("not - ", "1", ""),
        "not-paren" => wrap("not (", "a", ")"),
        "minus-paren" => wrap("-(", "1", ")"),
        "call" => wrap("f(a=", "1", ")"),
        "filter-arg" => wrap("a | f(x=", "1", ")"),
        "test-arg" => wrap("a is t(x=", "1", ")"),
        "pow" => wrap("", "2", "**2"),
        "paren-array" => wrap("([", "1", "])"),
        "mixed-brackets" => wrap("({\"a\": [", "1", "] })"),
        "list-comp-elem" => wrap("[", "1", " for x in a]"),
        "list-comp-target" => wrap("[1 for x in ", "a", "]"),
        "list-comp-cond" => wrap("[1 for x in a if ", "a", "]"),
        "array-spread" => wrap("[...", "[]", "]"),
        "map-spread" => wrap("{...", "{ }", " }"),
        "inline-comp-attr" => wrap("<c x={", "1", "} />"),
        "inline-comp-spread" => wrap("<c {...", "a", "} />"),
        "if" => format!("{}x{}", rep(&tg(d, "if a"), n), rep(&tg(d, "endif"), n)),
        "if-else" => format!("{}x{}", rep(&format!("{}{}", tg(d, "if a"), tg(d, "else")), n), rep(&tg(d, "endif"), n)),
        "for" => format!("{}x{}", rep(&tg(d, "for x in a"), n), rep(&tg(d, "endfor"), n)),
        "for-else" => format!("{}x{}", rep(&format!("{}{}", tg(d, "for x in a"), tg(d, "else")), n), rep(&tg(d, "endfor"), n)),
        "block" => {
            let mut s = String::new();
            for i in 0..n {
                s.push_str(&tg(d, &format!("block b{i}")));
            }
            s.push('x');
            s.push_str(&rep(&tg(d, "endblock"), n));
            s
        }
        "filter-section" => format!("{}x{}", rep(&tg(d, "filter upper"), n), rep(&tg(d, "endfilter"), n)),
        "set-block" => format!("{}x{}", rep(&tg(d, "set v"), n), rep(&tg(d, "endset"), n)),
        "comp-body" => format!("{}x{}", rep(&tg(d, "<c>"), n), rep(&tg(d, "</c>"), n)),
        "if-for-mixed" => format!(
            "{}x{}",
            rep(&format!("{}{}", tg(d, "if a"), tg(d, "for x in a")), n),
            rep(&format!("{}{}", tg(d, "endfor"), tg(d, "endif")), n)
        ),
        "filter-tag-kwargs" => format!("{}x{}", tg(d, &format!("filter f(x={}1{})", rep("g(a=", n), rep(")", n))), tg(d, "endfilter")),
        "comp-def-default-array" => format!("{}x{}", tg(d, &format!("component c(a={}1{})", rep("[", n), rep("]", n))), tg(d, "endcomponent")),
        "comp-def-default-map" => format!("{}x{}", tg(d, &format!("component c(a={}1{})", rep("{\"k\": ", n), rep(" }", n))), tg(d, "endcomponent")),
        "comp-def-meta-map" => format!("{}x{}", tg(d, &format!("component c() {}1{}", rep("{\"k\": ", n), rep(" }", n))), tg(d, "endcomponent")),
        "comp-call-attr-tag" => format!("{}x{}", tg(d, &format!("<c x={{{}1{}}}>", rep("(", n), rep(")", n))), tg(d, "</c>")),
        "set-value" => tg(d, &format!("set v = {}1{}", rep("(", n), rep(")", n))),
        "if-cond-paren" => format!("{}x{}", tg(d, &format!("if {}1{}", rep("(", n), rep(")", n))), tg(d, "endif")),
        "var-open" => rep(&d.vs, n),
        "tag-open" => rep(&format!("{} ", d.bs), n),
        "comment-open" => format!("{}{}", rep(&d.cs, n), d.ce),
        "raw-open" => format!("{}{}", rep(&tg(d, "raw"), n), tg(d, "endraw")),
        _ => return None,
    })
}

const CHAIN_LENGTHS: [usize; 4] = [300, 3000, 30_000, 200_000];
const CHAIN_KINDS: &[&str] =
    &["binary-plus", "binary-and", "binary-not-in", "concat", "compare", "attr", "optattr", "filter", "index", "test", "elif"];

/// One long left-nested chain of `n` links: the shape of known finding F1.
fn chain_src(kind: &str, n: usize, d: &D) -> Option<String> {
    Some(match kind {
        "binary-plus" => v(d, &format!("1{}", rep("+1", n))),
        "binary-and" => v(d, &format!("a{}", rep(" and a", n))),
        "binary-not-in" => v(d, &format!("a{}", rep(" not in a", n))),
        "concat" => v(d, &format!("\"a\"{}", rep(" ~ \"a\"", n))),
        "compare" => v(d, &format!("1{}", rep(" == 1", n))),
        "attr" => v(d, &format!("a{}", rep(".b", n))),
        "optattr" => v(d, &format!("a{}", rep("?.b", n))),
        "filter" => v(d, &format!("a{}", rep(" | upper", n))),
        "index" => v(d, &format!("a{}", rep("[0]", n))),
        "test" => v(d, &format!("a{}", rep(" is defined", n))),
        "elif" => format!("{}x{}{}", tg(d, "if a"), rep(&format!("{}x", tg(d, "elif a")), n), tg(d, "endif")),
        _ => return None,
    })
}

const WIDTH_KINDS: &[&str] = &[
    "array-items", "map-entries", "kwargs", "vars", "ifs", "sets", "blocks", "comp-defs-ws", "comments", "raws",
    "long-string", "long-text", "long-ident", "long-number", "lines-then-error", "unknown-filters", "component-attrs",
    "includes", "dotted-comp-name", "ws-in-tag", "unclosed-raw-many-starts", "dashes",
];

/// Flat (not nested) sequences of `n` elements: parse time must stay bounded, no recursion involved.
fn width_src(kind: &str, n: usize, d: &D) -> Option<String> {
    let seq = |f: &dyn Fn(usize) -> String| (0..n).map(f).collect::<String>();
    Some(match kind {
        "array-items" => v(d, &format!("[{}]", rep("1, ", n))),
        "map-entries" => v(d, &format!("{{{} }}", seq(&|i| format!("\"k{i}\": 1, ")))),
        "kwargs" => v(d, &format!("f({})", seq(&|i| format!("a{i}=1, ")))),
        "vars" => rep(&v(d, "a"), n),
        "ifs" => rep(&format!("{}x{}", tg(d, "if a"), tg(d, "endif")), n),
        "sets" => rep(&tg(d, "set v = 1"), n),
        "blocks" => seq(&|i| format!("{}{}", tg(d, &format!("block b{i}")), tg(d, "endblock"))),
        "comp-defs-ws" => seq(&|i| format!(" {}{}", tg(d, &format!("component c{i}()")), tg(d, "endcomponent"))),
        "comments" => rep(&format!("{} c {}", d.cs, d.ce), n),
        "raws" => rep(&format!("{}x{}", tg(d, "raw"), tg(d, "endraw")), n),
        "long-string" => v(d, &format!("\"{}\"", rep("é", n * 10))),
        "long-text" => rep("xé ", n * 30),
        "long-ident" => v(d, &rep("a", n * 10)),
        "long-number" => v(d, &rep("9", n)),
        "lines-then-error" => format!("{}{}", rep(&format!("{}\n", v(d, "a")), n), v(d, "(")),
        "unknown-filters" => rep(&format!("{}\n", v(d, "a | nope")), n.min(2000)),
        "component-attrs" => v(d, &format!("<c {}/>", seq(&|i| format!("a{i}=\"x\" ")))),
        "includes" => rep(&tg(d, "include \"x\""), n),
        "dotted-comp-name" => v(d, &format!("<{}b />", rep("a.", n))),
        "ws-in-tag" => v(d, &format!("a{}", rep(" \n\t", n * 10))),
        "unclosed-raw-many-starts" => format!("{}{}", tg(d, "raw"), rep(&format!("{} x ", d.bs), n)),
        "dashes" => format!("{}{}{}", d.vs, rep("-", n), d.ve),
        _ => return None,
    })
}

const SET_CHAIN_KINDS: &[&str] = &["include", "extends"];

/// `n` templates, each a single tag naming the next one (`t000000` includes / extends `t000001` …,
/// the last is plain text), registered with one `add_raw_templates` call
fn set_chain_case(kind: &str, n: usize, d: &D, stack: Stack) -> Case {
    let name = |i: usize| format!("t{i:06}");
    let src = |i: usize| if i + 1 < n { tg(d, &format!("{kind} \"{}\"", name(i + 1))) } else { "x".to_string() };
    let mut c = mk("set-chain-probe", kind, n, d, &name(0), src(0), Action::AddMany, stack);
    c.extra = (1..n).map(|i| (name(i), src(i))).collect();
    c
}

/// the same generated case at another size (probe families only)
fn rebuild(c: &Case, n: usize) -> Option<Case> {
    let mut t = match c.stream {
        "set-chain-probe" | "set-chain" => {
            let mut t = set_chain_case(&c.construct, n.max(1), &c.d, c.stack);
            t.stream = c.stream;
            return Some(t);
        }
        _ => c.clone(),
    };
    t.src = match c.stream {
        "nest-probe" => nest_src(&c.construct, n, &c.d)?,
        "width-probe" => width_src(&c.construct, n, &c.d)?,
        "f1-probe" | "chain-100" => chain_src(&c.construct, n, &c.d)?,
        _ => return None,
    };
    t.depth = n;
    Some(t)
}

/// `Some("template-set-chain: <include|extends> x <n>")` when the registered set holds a chain of
/// more than `SET_CHAIN_LINKS` templates each naming the next by `include` / `extends`: the shape
/// of known finding F14 (unbounded recursion per template in `finalize_templates`)
fn set_chain_shape(c: &Case) -> Option<String> {
    if c.extra.len() < SET_CHAIN_LINKS || c.prefixes.is_some() {
        return None;
    }
    let mut next: std::collections::HashMap<&str, (&str, &'static str)> = std::collections::HashMap::new();
    let all = std::iter::once((&c.name, &c.src)).chain(c.extra.iter().map(|(n, s)| (n, s)));
    for (n, s) in all {
        for kw in ["include", "extends"] {
            if let Some(p) = s.find(kw) {
                let rest = s[p + kw.len()..].trim_start();
                if let Some(q) = rest.chars().next().filter(|q| matches!(q, '"' | '\'' | '`')) {
                    if let Some(end) = rest[1..].find(q) {
                        next.insert(n.as_str(), (&rest[1..1 + end], kw));
                    }
                }
            }
        }
    }
    let mut best: (usize, &'static str) = (0, "");
    let mut done: HashSet<&str> = HashSet::new();
    for start in next.keys() {
        if done.contains(start) {
            continue;
        }
        let (mut cur, mut len, mut kind) = (*start, 0usize, "");
        // DISTINCT templates only: a cycle ends the walk
        let mut walk: HashSet<&str> = HashSet::new();
        while let Some((nx, kw)) = next.get(cur) {
            if !walk.insert(cur) {
                break;
            }
            done.insert(cur);
            len += 1;
            kind = kw;
            cur = nx;
        }
        if len > best.0 {
            best = (len, kind);
        }
    }
    (best.0 > SET_CHAIN_LINKS).then(|| format!("template-set-chain: {} x {}", best.1, best.0))
}

// ---------------------------------------------------------------- shape classifier (F1)

const KEYWORDS: &[&str] = &["and", "or", "in", "is", "not", "if", "else", "elif", "for", "endif", "component", "endcomponent"];

fn token_keys(src: &str, d: &D) -> Option<Vec<String>> {
    if !d.accepted() {
        return None;
    }
    let delims = d.to_delimiters();
    let toks = catch(std::panic::AssertUnwindSafe(|| tera::verif_hooks::tokens_structured(src, delims, false))).ok()?;
    Some(
        toks.iter()
            .filter_map(|t| t.as_ref().ok())
            .map(|t| {
                if t.kind == "IDENT" {
                    let x = t.text.as_deref().unwrap_or("");
                    if KEYWORDS.contains(&x) { x.to_string() } else { "IDENT".to_string() }
                } else {
                    t.kind.clone()
                }
            })
            .collect(),
    )
}

fn balanced(u: &[&str]) -> bool {
    let mut st: Vec<char> = Vec::new();
    for t in u {
        match *t {
            "LEFT_PAREN" => st.push('('),
            "LEFT_BRACKET" | "QUESTION_MARK_LEFT_BRACKET" => st.push('['),
            "LEFT_BRACE" => st.push('{'),
            "RIGHT_PAREN" => {
                if st.pop() != Some('(') {
                    return false;
                }
            }
            "RIGHT_BRACKET" => {
                if st.pop() != Some('[') {
                    return false;
                }
            }
            "RIGHT_BRACE" => {
                if st.pop() != Some('{') {
                    return false;
                }
            }
            _ => {}
        }
    }
    st.is_empty()
}

fn ends_operand(t: &str) -> bool {
    matches!(t, "IDENT" | "INTEGER" | "FLOAT" | "STRING" | "BOOL" | "RIGHT_PAREN" | "RIGHT_BRACKET" | "RIGHT_BRACE")
}

/// Is `u` one link `<left-associative operator or postfix> <complete operand>` of a left-nested chain?
fn link_kind(u: &[&str]) -> Option<String> {
    if u.len() >= 4 && u[0] == "TAG_START" && u[1] == "elif" {
        let starts = u.iter().filter(|t| **t == "TAG_START").count();
        let ends = u.iter().filter(|t| **t == "TAG_END").count();
        if starts == 1 && ends == 1 && !u.contains(&"VARIABLE_START") {
            return Some("elif".into());
        }
        return None;
    }
    if u.iter().any(|t| matches!(*t, "TAG_START" | "TAG_END" | "VARIABLE_START" | "VARIABLE_END" | "CONTENT" | "COMMENT" | "RAW_CONTENT")) {
        return None;
    }
    let first = u[0];
    let rest = &u[1..];
    if matches!(first, "LEFT_BRACKET" | "QUESTION_MARK_LEFT_BRACKET") {
        return (u.len() >= 3 && u[u.len() - 1] == "RIGHT_BRACKET" && balanced(u) && balanced(&u[1..u.len() - 1])).then(|| "index".into());
    }
    if rest.is_empty() || !balanced(rest) {
        return None;
    }
    // separators or ternary / comprehension keywords at bracket level 0 mean a flat list or a right-nested form
    let mut level = 0i32;
    for t in rest {
        match *t {
            "LEFT_PAREN" | "LEFT_BRACKET" | "QUESTION_MARK_LEFT_BRACKET" | "LEFT_BRACE" => level += 1,
            "RIGHT_PAREN" | "RIGHT_BRACKET" | "RIGHT_BRACE" => level -= 1,
            "COMMA" | "COLON" | "ASSIGN" | "if" | "else" | "for" | "elif" if level == 0 => return None,
            _ => {}
        }
    }
    let last = rest[rest.len() - 1];
    match first {
        "PLUS" | "MINUS" | "MUL" | "DIV" | "FLOORDIV" | "MOD" | "TILDE" | "EQ" | "NE" | "LT" | "GT" | "LTE" | "GTE" | "and" | "or" | "in" => {
            ends_operand(last).then(|| format!("binary:{first}"))
        }
        "not" => (rest[0] == "in" && rest.len() >= 2 && ends_operand(last)).then(|| "binary:not in".into()),
        "is" => ends_operand(last).then(|| "test".into()),
        "DOT" | "QUESTION_MARK_DOT" => (rest[0] == "IDENT").then(|| "attr".into()),
        "PIPE" => (rest[0] == "IDENT").then(|| "filter".into()),
        _ => None,
    }
}

/// `Some("chain-length: <link kind> x <links>")` when the source contains one run of more than
/// `CHAIN_LINKS` repetitions of the same left-nested link (operator/attribute/filter/index/test
/// chain inside one expression, or an `elif` chain): the shape of known finding F1.
/// Nesting (brackets, prefix operators, right-nested ternaries, `**`, nested tags) and flat
/// sequences are never classified.
fn chain_shape(src: &str, d: &D) -> Option<String> {
    let keys = token_keys(src, d)?;
    let k: Vec<&str> = keys.iter().map(|s| s.as_str()).collect();
    let n = k.len();
    for p in 1..=16usize {
        if n < p * CHAIN_LINKS {
            break;
        }
        let mut i = 0;
        while i + p < n {
            if k[i] != k[i + p] {
                i += 1;
                continue;
            }
            let start = i;
            while i + p < n && k[i] == k[i + p] {
                i += 1;
            }
            let units = (i - start + p) / p;
            if units > CHAIN_LINKS {
                for rot in 0..p {
                    if start + rot + p <= n {
                        if let Some(kind) = link_kind(&k[start + rot..start + rot + p]) {
                            // `<a.b.c …>` and `component a.b.c(` are dotted NAMES (one flat string), not attribute chains
                            let mut h = start + rot;
                            while h >= 2 && k[h - 1] == "IDENT" && matches!(k[h - 2], "DOT" | "QUESTION_MARK_DOT") {
                                h -= 2;
                            }
                            if kind == "attr" && h >= 2 && matches!(k[h - 2], "LT" | "CLOSING_TAG_START" | "component" | "endcomponent") {
                                continue;
                            }
                            return Some(format!("chain-length: {kind} x {units}"));
                        }
                    }
                }
            }
        }
    }
    None
}

// ---------------------------------------------------------------- delimiter sets and names

const PUNCT: &[u8] = b"{}[]()<>%#$@!&*+=~^|/\\:;,.?-_'\"` ";
const SCALARS2: &[char] = &['«', '»', '¿', 'ß', 'é', '\u{80}', '\u{7ff}', '·', '§', 'Ω', 'я'];

fn pair(rng: &mut Rng) -> String {
    if rng.chance(1, 4) {
        rng.pick(SCALARS2).to_string()
    } else {
        let a = *rng.pick(PUNCT) as char;
        let b = *rng.pick(PUNCT) as char;
        format!("{a}{b}")
    }
}

fn handwritten_sets() -> Vec<D> {
    vec![
        D::new("<%", "%>", "<<", ">>", "<#", "#>"),
        D::new("[[", "]]", "((", "))", "[#", "#]"),
        D::new("{%", "}}", "{{", "}}", "{#", "}}"),
        D::new("{%", "{{", "{{", "{%", "{#", "{#"),
        D::new("--", "--", "{{", "}}", "{#", "#}"),
        D::new("{-", "-}", "{{", "-}", "{#", "-}"),
        D::new("- ", " -", "-{", "}-", "-#", "#-"),
        D::new("«", "»", "¿", "??", "§", "§"),
        D::new("$$", "$$", "@@", "@@", "##", "##"),
        D::new("\\b", "\\e", "\\v", "\\w", "\\c", "\\d"),
        D::new("{%", "%}", "{{", "}}", "{#", "%}"),
        D::new("é", "é", "ß", "ß", "я", "я"),
        D::new("\"{", "}\"", "'{", "}'", "`{", "}`"),
        D::new("{ ", " }", "{{", "}}", "{\n", "\n}"),
        D::new("((", "))", "[[", "]]", "{{", "}}"),
        D::new("..", "..", "**", "**", "//", "//"),
    ]
}

fn gen_accepted(rng: &mut Rng) -> D {
    loop {
        let d = match rng.below(4) {
            0 => rng.pick(&handwritten_sets()).clone(),
            1 => D::new(&pair(rng), &pair(rng), &pair(rng), &pair(rng), &pair(rng), &pair(rng)),
            2 => {
                // sets sharing bytes: everything from a pool of three characters
                let pool: Vec<char> = (0..3).map(|_| *rng.pick(PUNCT) as char).collect();
                let mut p = || format!("{}{}", pool[rng.below(3)], pool[rng.below(3)]);
                D::new(&p(), &p(), &p(), &p(), &p(), &p())
            }
            _ => {
                // the default with one or two fields changed (dash / space / scalar containing)
                let mut f: Vec<String> = D::default().fields().iter().map(|s| s.to_string()).collect();
                for _ in 0..=rng.below(2) {
                    let i = rng.below(6);
                    f[i] = match rng.below(5) {
                        0 => "--".into(),
                        1 => "- ".into(),
                        2 => format!("-{}", *rng.pick(PUNCT) as char),
                        3 => format!("{}-", *rng.pick(PUNCT) as char),
                        _ => pair(rng),
                    };
                }
                D::new(&f[0], &f[1], &f[2], &f[3], &f[4], &f[5])
            }
        };
        if d.accepted() {
            return d;
        }
    }
}

fn gen_rejected(rng: &mut Rng) -> D {
    let base = if rng.chance(1, 2) { D::default() } else { gen_accepted(rng) };
    let mut f: Vec<String> = base.fields().iter().map(|s| s.to_string()).collect();
    match rng.below(9) {
        0 => f[rng.below(6)] = String::new(),
        1 => f[rng.below(6)] = (*rng.pick(PUNCT) as char).to_string(),
        2 => f[rng.below(6)] = "{{{".into(),
        3 => f[rng.below(6)] = "日".into(),
        4 => f[rng.below(6)] = "😀".into(),
        5 => f[rng.below(6)] = "é{".into(),
        6 => f[2] = f[0].clone(),
        7 => f[4] = f[0].clone(),
        _ => f[4] = f[2].clone(),
    }
    let d = D::new(&f[0], &f[1], &f[2], &f[3], &f[4], &f[5]);
    if d.accepted() { D::new("", &f[1], &f[2], &f[3], &f[4], &f[5]) } else { d }
}

fn d_class(d: &D) -> &'static str {
    if !d.accepted() {
        let f = d.fields();
        if f.iter().any(|x| x.is_empty()) {
            "rejected-empty"
        } else if f.iter().any(|x| x.len() == 1) {
            "rejected-1byte"
        } else if f.iter().any(|x| x.len() >= 3) {
            "rejected-3plus-bytes"
        } else {
            "rejected-equal-starts"
        }
    } else if *d == D::default() {
        "default"
    } else if d.fields().iter().any(|x| !x.is_ascii()) {
        "two-byte-scalar"
    } else if d.fields().iter().any(|x| x.contains('-')) {
        "dash"
    } else if d.fields().iter().any(|x| x.contains(|c: char| c.is_ascii_whitespace())) {
        "whitespace"
    } else if [&d.be, &d.ve, &d.ce].iter().any(|e| [&d.bs, &d.vs, &d.cs].contains(e)) {
        "end-equals-start"
    } else {
        "ascii"
    }
}

fn pick_delims(rng: &mut Rng) -> D {
    match rng.below(100) {
        0..=44 => D::default(),
        45..=91 => gen_accepted(rng),
        _ => gen_rejected(rng),
    }
}

const TPL_NAMES: &[&str] = &["a.html", "b.html", "base", "c/d.html", "tpl", "components", "é.html", "日本/😀", "../x", "a/../b", "", " ", "__tera_one_off", "a\nb", "x\0y"];

fn gen_name(rng: &mut Rng) -> String {
    match rng.below(12) {
        0 => "n".repeat(1 + rng.below(20_000)),
        1 => format!("{}/{}", rng.pick(TPL_NAMES), rng.pick(TPL_NAMES)),
        _ => rng.pick(TPL_NAMES).to_string(),
    }
}

/// default-delimiter text re-spelled with `d`
fn respell(src: &str, d: &D) -> String {
    if *d == D::default() {
        return src.to_string();
    }
    let mut out = String::with_capacity(src.len());
    let mut rest = src;
    'outer: while !rest.is_empty() {
        for (from, to) in [("{{", &d.vs), ("}}", &d.ve), ("{%", &d.bs), ("%}", &d.be), ("{#", &d.cs), ("#}", &d.ce)] {
            if let Some(r) = rest.strip_prefix(from) {
                out.push_str(to);
                rest = r;
                continue 'outer;
            }
        }
        let c = rest.chars().next().unwrap();
        out.push(c);
        rest = &rest[c.len_utf8()..];
    }
    out
}

// ---------------------------------------------------------------- stream (a): valid-ish sources

const IDENTS: &[&str] = &[
    "a", "b", "x", "item", "user", "name", "items", "loop", "self", "body", "none", "null", "None", "true", "True", "false",
    "False", "and", "or", "not", "is", "in", "if", "else", "for", "continue", "break", "__tera_context", "_", "_a1", "a_b", "endif",
    "raw", "set", "block", "super",
];
const FILTERS: &[&str] = &[
    "safe", "default", "upper", "lower", "wordcount", "escape_html", "trim", "replace", "capitalize", "title", "truncate", "str", "int",
    "float", "length", "reverse", "split", "abs", "round", "first", "last", "nth", "join", "sort", "unique", "get", "keys", "values",
    "group_by", "nope", "json_encode",
];
const TESTS: &[&str] = &[
    "string", "number", "map", "bool", "array", "integer", "float", "none", "iterable", "defined", "undefined", "odd", "even",
    "divisible_by", "starting_with", "ending_with", "containing", "nope",
];
const BINOPS: &[&str] = &["+", "-", "*", "/", "//", "%", "**", "~", "==", "!=", "<", ">", "<=", ">=", "and", "or", "in", "not in"];
const TEXTS: &[&str] = &[
    "hello ", "<p>", "</p>\n", "é", "日本語", "😀", "e\u{301}", "\u{2028}", "\t", "\r\n", "\n\n", "  ", "}", "} }", "-",
    "a < b", "\"", "'", "\\", "x=\"1\"", "&amp;", "\u{a0}", "\u{feff}",
];
const COMPONENTS: &[&str] = &["btn", "ui.button", "card", "forms.input", "c"];
const TYPES: &[&str] = &["string", "bool", "integer", "float", "number", "array", "map", "bytes", "string", "integer", "array", "map", "nope"];

struct Gen<'a> {
    rng: &'a mut Rng,
    d: D,
}

impl Gen<'_> {
    fn ident(&mut self) -> String {
        if self.rng.chance(1, 15) { self.rng.pick(IDENTS).to_string() } else { self.rng.pick(&IDENTS[..8]).to_string() }
    }

    fn plain_ident(&mut self) -> String {
        self.rng.pick(&["a", "b", "x", "item", "user", "k", "v", "name"]).to_string()
    }

    fn number(&mut self) -> String {
        match self.rng.below(250) {
            0 => "9223372036854775807".into(),
            1 => "9223372036854775808".into(),
            2 => "170141183460469231731687303715884105728".into(),
            3 => "340282366920938463463374607431768211456".into(),
            4 => "9".repeat(400),
            5 => "1.".into(),
            6 => "1.2.3".into(),
            7 => "1e5".into(),
            8 => "1E-5".into(),
            9 => ".5".into(),
            10 => format!("{}.{}", "1".repeat(400), "7".repeat(400)),
            11 => "0.0".into(),
            12 => "00".into(),
            13 => "1_000".into(),
            14 => "0x1F".into(),
            15 => "1.5".into(),
            16 => "18446744073709551616".into(),
            17..=24 => format!("{}.{}", self.rng.below(100), self.rng.below(1000)),
            _ => self.rng.below(100).to_string(),
        }
    }

    fn string_lit(&mut self) -> String {
        let q = *self.rng.pick(&['"', '"', '\'', '`']);
        let mut s = String::new();
        s.push(q);
        for _ in 0..self.rng.below(4) {
            match self.rng.below(16) {
                0 => s.push_str("\\n\\t\\r"),
                1 => s.push_str("\\\\"),
                2 => {
                    s.push('\\');
                    s.push(if q == '`' { '\\' } else { q });
                }
                3 => s.push_str("\\/"),
                4 => s.push_str("\\'\\\""),
                5 if self.rng.chance(1, 5) => s.push_str(*self.rng.pick(&["\\x", "\\u00e9", "\\0", "\\é", "\\ ", "\\😀", "\\`"])),
                6 => s.push_str(&self.d.vs.clone()),
                7 => s.push_str(&self.d.be.clone()),
                8 => s.push_str(*self.rng.pick(&["é", "日", "😀", "e\u{301}", "\u{2028}", "\n", "\0"])),
                9 => s.push_str(*self.rng.pick(TPL_NAMES)),
                _ => s.push_str(*self.rng.pick(&["abc", "x y", "1", "a.html", "primary", "%", "#", "-"])),
            }
        }
        if !self.rng.chance(1, 40) {
            s.push(q);
        }
        s
    }

    fn atom(&mut self) -> String {
        match self.rng.below(10) {
            0..=3 => self.ident(),
            4 | 5 => self.number(),
            6 | 7 => self.string_lit(),
            8 => self.rng.pick(&["true", "false", "True", "False", "none", "None", "null"]).to_string(),
            _ => format!("{}.{}", self.plain_ident(), self.rng.pick(&["b", "b", "c", "d", "index", "index0", "first", "last", "length", "name", "id", "nope", "x", "y", "z", "w", "key", "val", "n", "m", "p", "q", "title", "0"])),
        }
    }

    fn kwargs(&mut self, depth: usize) -> String {
        let n = self.rng.below(3);
        let mut parts: Vec<String> = Vec::new();
        for i in 0..n {
            let k = if self.rng.chance(1, 12) { "a".to_string() } else { format!("{}{}", self.rng.pick(&["a", "end", "from", "to", "value", "sep"]), i) };
            parts.push(format!("{k}={}", self.expr(depth.saturating_sub(1))));
        }
        if self.rng.chance(1, 10) {
            parts.push(String::new());
        }
        format!("({})", parts.join(", "))
    }

    fn expr(&mut self, depth: usize) -> String {
        if depth == 0 {
            return self.atom();
        }
        let dd = depth - 1;
        match self.rng.below(26) {
            0..=3 => self.atom(),
            4..=6 => {
                let mut s = self.expr(dd);
                for _ in 0..1 + self.rng.below(3) {
                    let op = *self.rng.pick(BINOPS);
                    let rhs = self.expr(dd);
                    s = if self.rng.chance(1, 6) { format!("{s}{op}{rhs}") } else { format!("{s} {op} {rhs}") };
                }
                s
            }
            7 => format!("not {}", self.expr(dd)),
            8 => format!("-{}", self.expr(dd)),
            9 => format!("({})", self.expr(dd)),
            10 => format!("{} if {} else {}", self.expr(dd), self.expr(dd), self.expr(dd)),
            11 | 12 => {
                let mut s = self.expr(dd);
                for _ in 0..1 + self.rng.below(2) {
                    let f = *self.rng.pick(FILTERS);
                    let kw = if self.rng.chance(1, 2) { self.kwargs(dd) } else { String::new() };
                    s = format!("{s} | {f}{kw}");
                }
                s
            }
            13 => {
                let t = *self.rng.pick(TESTS);
                let kw = if self.rng.chance(1, 3) { self.kwargs(dd) } else { String::new() };
                format!("{} is {}{t}{kw}", self.expr(dd), if self.rng.chance(1, 3) { "not " } else { "" })
            }
            14 => {
                let n = self.rng.below(4);
                let items: Vec<String> = (0..n).map(|_| if self.rng.chance(1, 6) { format!("...{}", self.expr(dd)) } else { self.expr(dd) }).collect();
                format!("[{}{}]", items.join(", "), if self.rng.chance(1, 8) { "," } else { "" })
            }
            15 => {
                let n = self.rng.below(3);
                let items: Vec<String> = (0..n)
                    .map(|_| match self.rng.below(6) {
                        0 => format!("...{}", self.expr(dd)),
                        1 => format!("{}: {}", self.rng.below(5), self.expr(dd)),
                        2 => format!("true: {}", self.expr(dd)),
                        _ => format!("{}: {}", self.string_lit(), self.expr(dd)),
                    })
                    .collect();
                format!("{{{} }}", items.join(", "))
            }
            16 => {
                if self.rng.chance(5, 6) {
                    format!("range(end={})", self.rng.below(4))
                } else {
                    format!("{}{}", self.rng.pick(&["throw", "super", "nope", "f"]), self.kwargs(dd))
                }
            }
            17 => {
                let mut s = self.plain_ident();
                for _ in 0..1 + self.rng.below(3) {
                    s.push_str(*self.rng.pick(&[".", "?."]));
                    s.push_str(&self.plain_ident());
                }
                s
            }
            18 => format!("{}{}{}]", self.plain_ident(), self.rng.pick(&["[", "?["]), self.expr(dd)),
            19 => {
                let a = if self.rng.chance(1, 2) { self.expr(dd) } else { String::new() };
                let b = if self.rng.chance(1, 2) { self.expr(dd) } else { String::new() };
                let c = if self.rng.chance(1, 3) { format!(":{}", self.expr(dd)) } else { String::new() };
                format!("{}[{a}:{b}{c}]", self.plain_ident())
            }
            20 => self.component_open(dd, true),
            21 => format!("{} ~ {}", self.expr(dd), self.string_lit()),
            22 => {
                let kv = if self.rng.chance(1, 3) { "k, v" } else { "x" };
                let cond = if self.rng.chance(1, 2) { format!(" if {}", self.expr(dd)) } else { String::new() };
                format!("[{} for {kv} in {}{cond}]", self.expr(dd), self.expr(dd))
            }
            23 => format!("{} {} {}", self.expr(dd), self.rng.pick(&["in", "not in"]), self.expr(dd)),
            24 => format!("{}[{}][{}]", self.plain_ident(), self.expr(dd), self.expr(dd)),
            _ => format!("({}) {} ({})", self.expr(dd), self.rng.pick(BINOPS), self.expr(dd)),
        }
    }

    /// `<name attrs… />` (inline) or `<name attrs…>` (tag form)
    fn component_open(&mut self, depth: usize, inline: bool) -> String {
        let name = *self.rng.pick(COMPONENTS);
        let mut s = format!("<{name}");
        for _ in 0..self.rng.below(3) {
            s.push(' ');
            match self.rng.below(5) {
                0 => s.push_str(&self.plain_ident()),
                1 => s.push_str(&format!("{{...{}}}", self.expr(depth))),
                2 => s.push_str(&format!("{}={{{}}}", self.plain_ident(), self.expr(depth))),
                _ => s.push_str(&format!("{}={}", self.plain_ident(), self.string_lit())),
            }
        }
        s.push_str(if inline { " />" } else { ">" });
        s
    }

    fn ws(&mut self) -> &'static str {
        match self.rng.below(12) {
            0 => "",
            1 => "\n",
            2 => "  ",
            _ => " ",
        }
    }

    fn dash(&mut self) -> &'static str {
        if self.rng.chance(1, 7) { "-" } else { "" }
    }

    fn var(&mut self, depth: usize) -> String {
        let e = self.expr(depth);
        let (d1, w1, w2, d2) = (self.dash(), self.ws(), self.ws(), self.dash());
        format!("{}{d1}{w1}{e}{w2}{d2}{}", self.d.vs, self.d.ve)
    }

    fn tag(&mut self, inner: &str) -> String {
        let (d1, w1, w2, d2) = (self.dash(), self.ws(), self.ws(), self.dash());
        format!("{}{d1}{w1}{inner}{w2}{d2}{}", self.d.bs, self.d.be)
    }

    fn text(&mut self) -> String {
        let mut s = String::new();
        for _ in 0..1 + self.rng.below(3) {
            s.push_str(*self.rng.pick(TEXTS));
        }
        s
    }

    fn body(&mut self, depth: usize, top: bool, in_loop: bool) -> String {
        let mut s = String::new();
        for _ in 0..1 + self.rng.below(4) {
            s.push_str(&self.node(depth, top, in_loop));
        }
        s
    }

    fn node(&mut self, depth: usize, top: bool, in_loop: bool) -> String {
        let choice = if depth == 0 { self.rng.below(8) } else { self.rng.below(22) };
        let dd = depth.saturating_sub(1);
        let ed = 1 + self.rng.below(3);
        match choice {
            0 | 1 => self.text(),
            2 | 3 | 4 => self.var(ed),
            5 => {
                let (d1, t, d2) = (self.dash(), self.text(), self.dash());
                format!("{}{d1}{t}{d2}{}", self.d.cs, self.d.ce)
            }
            6 => {
                let inner = format!("{}{}{}", self.text(), self.tag("if a"), self.var(1));
                format!("{}{inner}{}", self.tag("raw"), self.tag("endraw"))
            }
            7 => {
                let e = self.expr(ed);
                let kw = *self.rng.pick(&["set", "set_global"]);
                let id = self.plain_ident();
                self.tag(&format!("{kw} {id} = {e}"))
            }
            8 => {
                let n = self.string_lit();
                self.tag(&format!("include {n}"))
            }
            9..=11 => {
                let mut s = {
                    let e = self.expr(ed);
                    self.tag(&format!("if {e}"))
                };
                s.push_str(&self.body(dd, false, in_loop));
                for _ in 0..self.rng.below(3) {
                    let e = self.expr(ed);
                    s.push_str(&self.tag(&format!("elif {e}")));
                    s.push_str(&self.body(dd, false, in_loop));
                }
                if self.rng.chance(1, 2) {
                    s.push_str(&self.tag("else"));
                    s.push_str(&self.body(dd, false, in_loop));
                }
                s.push_str(&self.tag("endif"));
                s
            }
            12..=14 => {
                let target = match self.rng.below(5) {
                    0 => format!("range(end={})", self.rng.below(4)),
                    1 => "[1, 2, 3]".to_string(),
                    2 => "\"abc\"".to_string(),
                    _ => self.expr(ed),
                };
                let vars = if self.rng.chance(1, 3) { format!("{}, {}", self.plain_ident(), self.plain_ident()) } else if self.rng.chance(1, 12) { self.ident() } else { self.plain_ident() };
                let mut s = self.tag(&format!("for {vars} in {target}"));
                s.push_str(&self.body(dd, false, true));
                if self.rng.chance(1, 3) {
                    s.push_str(&self.var(0).replace(self.d.vs.as_str(), &format!("{} loop.index + ", self.d.vs)));
                }
                if self.rng.chance(1, 4) {
                    s.push_str(&self.tag("else"));
                    s.push_str(&self.body(dd, false, false));
                }
                s.push_str(&self.tag("endfor"));
                s
            }
            15 => {
                let mut filters = String::new();
                for _ in 0..self.rng.below(3) {
                    filters.push_str(&format!(" | {}", self.rng.pick(FILTERS)));
                }
                let id = self.plain_ident();
                let mut s = self.tag(&format!("set {id}{filters}"));
                s.push_str(&self.body(dd, false, in_loop));
                s.push_str(&self.tag("endset"));
                s
            }
            16 => {
                let kw = if self.rng.chance(1, 3) { self.kwargs(1) } else { String::new() };
                let f = *self.rng.pick(FILTERS);
                let mut s = self.tag(&format!("filter {f}{kw}"));
                s.push_str(&self.body(dd, false, in_loop));
                s.push_str(&self.tag("endfilter"));
                s
            }
            17 | 18 => {
                if !top && !self.rng.chance(1, 15) {
                    return self.var(ed);
                }
                let name = format!("{}{}", self.rng.pick(&["content", "title", "b", "head"]), self.rng.below(4));
                let mut s = self.tag(&format!("block {name}"));
                s.push_str(&self.body(dd, true, false));
                if self.rng.chance(1, 3) {
                    s.push_str(&v(&self.d.clone(), "super()"));
                }
                let end = match self.rng.below(10) {
                    0..=2 => format!("endblock {name}"),
                    3 => "endblock other".to_string(),
                    _ => "endblock".to_string(),
                };
                s.push_str(&self.tag(&end));
                s
            }
            19 => {
                let open = self.component_open(1, false);
                let name = open[1..].split(|c: char| c == ' ' || c == '>').next().unwrap_or("c").to_string();
                let mut s = self.tag(&open);
                s.push_str(&self.body(dd, false, in_loop));
                s.push_str(&self.tag(&format!("</{name}>")));
                s
            }
            20 if in_loop || self.rng.chance(1, 6) => {
                let t = *self.rng.pick(&["break", "continue"]);
                self.tag(t)
            }
            _ => {
                if in_loop {
                    let t = *self.rng.pick(&["break", "continue"]);
                    self.tag(t)
                } else {
                    self.var(ed)
                }
            }
        }
    }

    fn component_def(&mut self) -> String {
        let name = *self.rng.pick(COMPONENTS);
        let mut args: Vec<String> = Vec::new();
        for i in 0..self.rng.below(4) {
            let mut a = format!("{}{}", self.rng.pick(&["label", "variant", "n", "size", "title", "kind", "items", "id", "cls", "body"]), if self.rng.chance(1, 8) { String::new() } else { i.to_string() });
            if self.rng.chance(1, 2) {
                a.push_str(&format!(": {}", self.rng.pick(TYPES)));
            }
            if self.rng.chance(1, 2) {
                let dv = match self.rng.below(12) {
                    0 | 6 | 7 => "[1, [2, 3]]".to_string(),
                    8 | 9 => "\"primary\"".to_string(),
                    10 => "true".to_string(),
                    11 => "1.5".to_string(),
                    1 => "{\"a\": 1, \"b\": [true] }".to_string(),
                    2 if self.rng.chance(1, 3) => "[a]".to_string(),
                    3 => self.number(),
                    4 => self.string_lit(),
                    _ => if self.rng.chance(1, 4) { self.atom() } else { self.rng.below(50).to_string() },
                };
                a.push_str(&format!(" = {dv}"));
            }
            args.push(a);
        }
        if self.rng.chance(1, 4) {
            args.push("...rest".into());
        }
        let meta = if self.rng.chance(1, 4) { " {\"css\": \"./a.css\", \"n\": [1, 2] }" } else { "" };
        let mut s = self.tag(&format!("component {name}({}){meta}", args.join(", ")));
        s.push_str(&self.body(2, false, false));
        let end = match self.rng.below(10) {
            0..=3 => "endcomponent".to_string(),
            4..=8 => format!("endcomponent {name}"),
            _ => format!("endcomponent {}", self.rng.pick(COMPONENTS)),
        };
        s.push_str(&self.tag(&end));
        s
    }

    fn template(&mut self) -> String {
        let mut s = String::new();
        if self.rng.chance(1, 12) {
            if self.rng.chance(1, 2) {
                s.push_str(*self.rng.pick(&["\n", "  ", "{# c #}", "x"]));
            }
            let n = format!("\"{}\"", self.rng.pick(&TPL_NAMES[..6]));
            s.push_str(&self.tag(&format!("extends {n}")));
        }
        for _ in 0..self.rng.below(3) {
            if self.rng.chance(1, 3) {
                s.push_str(&self.component_def());
            }
        }
        let depth = self.rng.below(4);
        s.push_str(&self.body(depth, true, false));
        s
    }
}

// ---------------------------------------------------------------- stream (b): malformed sources

/// identifier runs, digit runs, whitespace runs, the six delimiters, any other single character
fn pieces<'a>(src: &'a str, d: &D) -> Vec<&'a str> {
    let mut out = Vec::new();
    let mut rest = src;
    while !rest.is_empty() {
        if let Some(f) = d.fields().iter().find(|f| !f.is_empty() && rest.starts_with(**f)) {
            out.push(&rest[..f.len()]);
            rest = &rest[f.len()..];
            continue;
        }
        let c = rest.chars().next().unwrap();
        let class = |c: char| if c.is_ascii_alphabetic() || c == '_' { 1 } else if c.is_ascii_digit() { 2 } else if c.is_ascii_whitespace() { 3 } else { 0 };
        let k = class(c);
        let mut len = c.len_utf8();
        if k != 0 {
            for c2 in rest[len..].chars() {
                if class(c2) != k {
                    break;
                }
                len += c2.len_utf8();
            }
        }
        out.push(&rest[..len]);
        rest = &rest[len..];
    }
    out
}

fn nasty_snippets(d: &D) -> Vec<String> {
    let (bs, be, vs, ve, cs, ce) = (&d.bs, &d.be, &d.vs, &d.ve, &d.cs, &d.ce);
    let mut out: Vec<String> = vec![
        format!("{vs}é{ve}"),
        format!("{bs}-é"),
        format!("{vs} \"é\\"),
        format!("{cs}é"),
        format!("é{vs}"),
        format!("{vs}😀"),
        format!("😀{be}"),
        format!("{vs}-{ve}"),
        format!("{bs}--{be}"),
        format!("{cs}-{ce}"),
        format!("{vs}-"),
        format!("{bs}-"),
        format!("{cs}-"),
        format!("-{ve}"),
        format!("-{be}"),
        format!("-{ce}"),
        format!("{bs}raw{be}"),
        format!("{bs}- raw -{be}"),
        format!("{bs} raw {be}{bs} endraw"),
        format!("{bs} raw {be}{bs}"),
        format!("{bs} raw {be}{bs}-"),
        format!("{bs} rawx {be}"),
        format!("{bs} raw{be}x{bs}endraw {be}"),
        format!("{bs} endraw {be}"),
        format!("{bs} raw -{be} é {bs}- endraw {be}"),
        format!("{bs} endif {be}"),
        format!("{bs} else {be}"),
        format!("{bs} elif {be}"),
        format!("{bs} endfor {be}"),
        format!("{bs} endblock {be}"),
        format!("{bs} </c> {be}"),
        format!("{vs} a ? . b {ve}"),
        format!("{vs} a?.{ve}"),
        format!("{vs} a?[ {ve}"),
        format!("{vs} ... {ve}"),
        format!("{vs} </ {ve}"),
        format!("{vs} a[::] {ve}"),
        format!("{vs} a[:] {ve}"),
        format!("{vs} 1 not {ve}"),
        format!("{vs} 1 is not {ve}"),
        format!("{vs} a ~ - 1 {ve}"),
        format!("{vs} loop.nope {ve}"),
    ];
    for s in ["😀", "e\u{301}", "\u{2028}", "\0", "\u{1}", "\u{7f}", "\u{85}", "-", "\"", "'", "`", "\\", "…", "é", "日", "\u{7ff}", "\u{800}", "\u{ffff}", "\u{10ffff}"] {
        out.push(s.to_string());
    }
    for f in d.fields() {
        out.push(f.to_string());
        if let Some(c) = f.chars().next() {
            out.push(c.to_string());
        }
        if let Some(c) = f.chars().last() {
            out.push(c.to_string());
        }
    }
    out
}

fn char_boundary_at(s: &str, mut i: usize) -> usize {
    i = i.min(s.len());
    while !s.is_char_boundary(i) {
        i -= 1;
    }
    i
}

/// one random mutation; returns the mutated text and the mutation kind
fn mutate(src: &str, d: &D, rng: &mut Rng, nasty: &[String]) -> (String, &'static str) {
    let ps = pieces(src, d);
    let n = ps.len();
    match rng.below(11) {
        0 => (src[..char_boundary_at(src, rng.below(src.len() + 1))].to_string(), "truncate-char"),
        1 if n > 0 => (ps[..rng.below(n)].concat(), "truncate-piece"),
        2 if n > 0 => {
            let i = rng.below(n);
            (format!("{}{}", ps[..i].concat(), ps[i + 1..].concat()), "delete-piece")
        }
        3 if n > 0 => {
            let i = rng.below(n);
            (format!("{}{}{}", ps[..=i].concat(), ps[i], ps[i + 1..].concat()), "duplicate-piece")
        }
        4 if n > 1 => {
            let (i, j) = (rng.below(n), rng.below(n));
            let mut q: Vec<&str> = ps.clone();
            q.swap(i, j);
            (q.concat(), "swap-pieces")
        }
        5 if n > 1 => {
            let (i, j) = (rng.below(n), rng.below(n));
            let mut q: Vec<&str> = ps.clone();
            q[i] = ps[j];
            (q.concat(), "replace-piece")
        }
        6 | 7 => {
            let i = if n == 0 { 0 } else { rng.below(n + 1) };
            (format!("{}{}{}", ps[..i].concat(), rng.pick(nasty), ps[i..].concat()), "insert-nasty")
        }
        8 => {
            // drop the last end delimiter / closing quote: unterminated construct
            let targets = [d.ve.as_str(), d.be.as_str(), d.ce.as_str(), "\"", "'", "`", ")", "]", "}"];
            let t = *rng.pick(&targets);
            match src.rfind(t) {
                Some(p) if !t.is_empty() => (format!("{}{}", &src[..p], &src[p + t.len()..]), "unterminate"),
                _ => (format!("{src}{}", rng.pick(nasty)), "append-nasty"),
            }
        }
        9 if n > 2 => {
            // delete a range of pieces
            let i = rng.below(n);
            let j = (i + 1 + rng.below(6)).min(n);
            (format!("{}{}", ps[..i].concat(), ps[j..].concat()), "delete-range")
        }
        _ => {
            let i = char_boundary_at(src, rng.below(src.len() + 1));
            (format!("{}{}{}", &src[..i], rng.pick(nasty), &src[i..]), "insert-nasty-anywhere")
        }
    }
}

/// fixed list of hostile sources spelled with `d`
fn special_sources(d: &D) -> Vec<String> {
    let (bs, be, vs, ve, cs, ce) = (&d.bs, &d.be, &d.vs, &d.ve, &d.cs, &d.ce);
    let mut out = nasty_snippets(d);
    out.push(String::new());
    for a in [bs, be, vs, ve, cs, ce] {
        for b in ["", "-", " ", "é", "\n", "😀", "--", "- ", " -"] {
            out.push(format!("{a}{b}"));
            out.push(format!("{b}{a}"));
            for c in [bs, be, vs, ve, cs, ce] {
                out.push(format!("{a}{b}{c}"));
            }
        }
    }
    for body in ["raw", " raw ", "- raw -", "-raw-", " raw -", "raw \n", "\traw\t", "rawx", "raw x", "r aw", "RAW", "endraw", " raw raw "] {
        for tail in ["", "x", "é", &format!("{bs} endraw {be}"), &format!("{bs}endraw{be}"), &format!("{bs}- endraw -{be}"), &format!("{bs} endraw"), &format!("{bs} endraw -"), &format!("{bs}"), &format!("{bs}-"), &format!("{bs} endrawx {be}"), &format!(" é {bs} endraw {be} é")] {
            out.push(format!("{bs}{body}{be}{tail}"));
        }
    }
    for q in ['"', '\'', '`'] {
        for inner in ["", "é", "\\", "\\\\", "\\n", "\\x", "\\é", "a\\", &format!("\\{q}"), &format!("{ve}"), "\n", "😀\\", "\\😀"] {
            out.push(format!("{vs} {q}{inner}{q} {ve}"));
            out.push(format!("{vs} {q}{inner} {ve}"));
            out.push(format!("{vs}{q}{inner}"));
            out.push(format!("{bs} include {q}{inner}{q} {be}"));
        }
    }
    for e in [
        "1.", "1..2", "1.2.3", ".5", "1e5", "1.e5", "9223372036854775808", "-9223372036854775808", "1.7976931348623157e309", "0.1.", "1.a", "1 .a",
        "a.1", "a.1.2", "a..b", "a.", ".a", "a?.", "a?", "a ? b : c", "a[", "a]", "a[]", "a[:]", "a[::]", "a[:::]", "a[1:2:3:4]", "a()", "a(b)",
        "a(b=)", "a(=1)", "a(b=1,,)", "a.b()", "a | ", "| a", "a | b |", "a is", "a is not", "a is not not b", "not", "not not a", "- - 1", "--1",
        "1 - -1", "a ~ -1", "a ~ not b", "1 if", "1 if 1", "1 if 1 else", "if 1 else 2", "[", "]", "[,]", "[1,,2]", "[...]", "[...a, ...]", "{", "}",
        "{ }", "{a: 1 }", "{1 2 }", "{\"a\" 1 }", "{\"a\": }", "{... }", "{...a, }", "<", "< a", "<a", "<a>", "<a/>", "<a />", "<a b=>", "<a b={ />",
        "<a b={1 } />", "<a {...} />", "<a.b.c />", "<a. />", "</a>", "< /a>", "[x for]", "[x for x]", "[x for x in]", "[x for x in y if]",
        "[x for x in y for z in w]", "[x for true in y]", "loop.index", "self", "a and", "and a", "a or or b", "a in", "a not b", "a not in",
        "1 < 2 < 3", "(", ")", "()", "(,)", "((1)", "a = 1", "a == ", "a != b != c", "a // b ** c % d", "true false", "a b", "1 2", "\"a\" \"b\"", "...", "....",
        "a...b", "?.", "?[", "?", ":", ",", "=", "!", "!a", "a!", "@", "$", "&", "^", ";", "é", "a é", "aé", "1é", "\"é\"é", "\0", "a\0b",
    ] {
        out.push(format!("{vs} {e} {ve}"));
        out.push(format!("{vs}{e}{ve}"));
        out.push(format!("{bs} if {e} {be}x{bs} endif {be}"));
        out.push(format!("{bs} set v = {e} {be}"));
    }
    for t in [
        "", "if", "if a", "elif a", "else", "endif", "for", "for x", "for x in", "for x, in a", "for x, y, z in a", "for loop in a", "for x in a", "endfor",
        "set", "set a", "set a =", "set a |", "set a | f(", "set true = 1", "set_global", "endset", "filter", "filter f(", "endfilter", "block", "block 1",
        "block a b", "endblock", "endblock a", "extends", "extends a", "extends \"a\" \"b\"", "include", "include a", "include \"a\" b", "component",
        "component c", "component c(", "component c(a", "component c(a:", "component c(a: nope)", "component c(a=", "component c(a=b)", "component c(a=[b])",
        "component c(...)", "component c(...body)", "component c(...r, a)", "component c(a, a)", "component c() {", "component c() {\"a\": b }", "component c() 1",
        "component a.b.c()", "component a.()", "endcomponent", "endcomponent c", "break", "continue", "<", "<c", "<c>", "<c/>", "<c />", "</c>", "</", "raw x",
        "endraw", "nope", "1", "\"s\"", "é", "-", "--", "if a if b else c", "super()", "macro", "import",
    ] {
        out.push(format!("{bs} {t} {be}"));
        out.push(format!("{bs}{t}{be}"));
        out.push(format!("{bs}- {t} -{be}"));
        out.push(format!("{bs} {t}"));
        out.push(format!("{bs} for x in a {be}{bs} {t} {be}{bs} endfor {be}"));
        out.push(format!("{bs} block b {be}{bs} {t} {be}{bs} endblock {be}"));
    }
    out.push(format!("{bs} if a {be}{bs} else {be}{bs} else {be}{bs} endif {be}"));
    out.push(format!("{bs} if a {be}{bs} else {be}{bs} elif b {be}{bs} endif {be}"));
    out.push(format!("{bs} for x in a {be}{bs} else {be}{bs} else {be}{bs} endfor {be}"));
    out.push(format!("{bs} for x in a {be}{bs} else {be}{bs} continue {be}{bs} endfor {be}"));
    out.push(format!("{bs} for x in a {be}{bs} if b {be}{bs} break {be}{bs} endif {be}{bs} endfor {be}"));
    out.push(format!("{bs} block a {be}{bs} for x in y {be}{bs} continue {be}{bs} endfor {be}{bs} endblock {be}"));
    out.push(format!("{bs} for x in a {be}{bs} set v {be}{bs} continue {be}{bs} endset {be}{bs} endfor {be}"));
    out.push(format!("{bs} extends \"a.html\" {be}{bs} extends \"a.html\" {be}"));
    out.push(format!("x{bs} extends \"a.html\" {be}"));
    out.push(format!("{cs} c {ce}\n {bs} extends \"a.html\" {be}"));
    out.push(format!("{bs} extends \"a.html\" {be}{bs} block nope {be}{vs} super() {ve}{bs} endblock {be}"));
    out.push(format!("{bs} block a {be}{bs} block a {be}{bs} endblock {be}{bs} endblock {be}"));
    out.push(format!("{bs} component c() {be}{bs} component d() {be}{bs} endcomponent {be}{bs} endcomponent {be}"));
    out.push(format!("{bs} component c() {be}{bs} block b {be}{bs} endblock {be}{bs} endcomponent {be}"));
    out.push(format!("{bs} component c() {be}{vs} <c /> {ve}{bs} endcomponent {be}{vs} <c /> {ve}"));
    out.push(format!("{bs} component c(a) {be}{vs} body {ve}{bs} endcomponent {be}{bs} <c a=\"1\"> {be}{bs} <c a={{1}}> {be}{bs} </c> {be}{bs} </c> {be}"));
    out.push(format!("{vs} super() {ve}"));
    out.push(format!("{bs} include \"a.html\" {be}"));
    out.push(format!("a\r\nb\r\n{vs} ( {ve}"));
    out.push(format!("\té\t{vs} a | nope {ve}\n\t{vs} nope() {ve} {vs} a is nope {ve} {vs} <nope /> {ve}"));
    out.push(format!("é\u{2028}é{vs}\u{2028}{ve}"));
    out.push(format!("{vs} a\n|\nnope\n{ve}"));
    out
}

/// every sequence of 1..=max_len symbols over: the characters of the delimiters, `-`, `"`, `\`,
/// a digit, a letter, space, newline, a 2-byte and a 3-byte character (plus the empty source)
fn small_alphabet(d: &D) -> Vec<String> {
    let mut a: Vec<String> = Vec::new();
    for f in d.fields() {
        for c in f.chars() {
            if !a.contains(&c.to_string()) {
                a.push(c.to_string());
            }
        }
    }
    for s in ["-", "\"", "\\", "1", "a", " ", "\n", "é", "日"] {
        if !a.contains(&s.to_string()) {
            a.push(s.to_string());
        }
    }
    a
}

fn small_exhaustive(d: &D, max_len: usize) -> Vec<String> {
    let a = small_alphabet(d);
    let mut out = vec![String::new()];
    let mut layer = vec![String::new()];
    for _ in 0..max_len {
        let mut next = Vec::with_capacity(layer.len() * a.len());
        for p in &layer {
            for s in &a {
                next.push(format!("{p}{s}"));
            }
        }
        out.extend(next.iter().cloned());
        layer = next;
    }
    out
}

// ---------------------------------------------------------------- corpus (the repo's own inputs)

struct Corpus {
    /// single sources (default delimiters)
    singles: Vec<String>,
    /// files made of several named templates (`$$ name` sections)
    sets: Vec<Vec<(String, String)>>,
    files: usize,
}

fn load_corpus() -> Corpus {
    let repo = std::env::var("TERA_REPO").unwrap_or_else(|_| "/repo".into());
    let root = Path::new(&repo).join("tera/src/snapshot_tests");
    let mut c = Corpus { singles: Vec::new(), sets: Vec::new(), files: 0 };
    let mut dirs: Vec<PathBuf> = ["lexer_inputs", "parser_inputs", "rendering_inputs", "compiler_inputs", "build_errors"].iter().map(|d| root.join(d)).collect();
    let mut files: Vec<PathBuf> = Vec::new();
    while let Some(dir) = dirs.pop() {
        let Ok(rd) = std::fs::read_dir(&dir) else { continue };
        for e in rd.flatten() {
            let p = e.path();
            if p.is_dir() {
                dirs.push(p);
            } else {
                files.push(p);
            }
        }
    }
    files.sort();
    for p in files {
        let Ok(text) = std::fs::read_to_string(&p) else { continue };
        c.files += 1;
        if text.lines().any(|l| l.starts_with("$$ ")) {
            let mut set: Vec<(String, String)> = Vec::new();
            for l in text.split_inclusive('\n') {
                if let Some(n) = l.strip_prefix("$$ ") {
                    set.push((n.trim().to_string(), String::new()));
                } else if let Some(last) = set.last_mut() {
                    last.1.push_str(l);
                }
            }
            for (_, s) in &set {
                c.singles.push(s.clone());
            }
            c.sets.push(set);
        } else {
            c.singles.push(text.clone());
            // most inputs hold one template per line
            if text.lines().count() > 1 && text.len() < 4000 {
                for l in text.lines().filter(|l| !l.trim().is_empty()).take(40) {
                    c.singles.push(l.to_string());
                }
            }
        }
    }
    c.singles.sort();
    c.singles.dedup();
    c
}

// ---------------------------------------------------------------- case assembly

fn mk(stream: &'static str, construct: &str, depth: usize, d: &D, name: &str, src: String, action: Action, stack: Stack) -> Case {
    Case { stream, construct: construct.to_string(), depth, d: d.clone(), name: name.to_string(), src, extra: Vec::new(), action, stack, prefixes: None }
}

/// render_str executes the template: keep it away from sources that may legitimately run long
fn renderable(src: &str) -> bool {
    !src.contains("range") && src.len() < 20_000
}

fn pick_action(rng: &mut Rng, src: &str) -> Action {
    match rng.below(100) {
        0..=14 if renderable(src) => Action::RenderStr,
        15..=29 => Action::AddMany,
        _ => Action::Add,
    }
}

fn pick_stack(rng: &mut Rng) -> Stack {
    if rng.chance(1, 2) { Stack::Main } else { Stack::Small }
}

/// the fixed part of a run: corpus, hostile list, enumerated small sources, depth / width / F1 probes
fn fixed_cases(env: &Env, rng: &mut Rng, corpus: &Corpus, notes: &mut Vec<String>) -> Vec<Case> {
    let dd = D::default();
    let mut cases: Vec<Case> = Vec::new();
    // corpus as it is, on both stacks, and each multi-template file as one add_raw_templates call
    for s in &corpus.singles {
        cases.push(mk("corpus", "", 0, &dd, "tpl", s.clone(), Action::Add, Stack::Main));
        cases.push(mk("corpus", "", 0, &dd, "tpl", s.clone(), if renderable(s) { Action::RenderStr } else { Action::Add }, Stack::Small));
    }
    for set in &corpus.sets {
        if let Some(((n0, s0), others)) = set.split_first() {
            let mut c = mk("corpus-set", "", 0, &dd, n0, s0.clone(), Action::AddMany, Stack::Main);
            c.extra = others.to_vec();
            cases.push(c.clone());
            // and in reverse order
            let mut rev = set.clone();
            rev.reverse();
            let ((n0, s0), others) = rev.split_first().unwrap();
            let mut c = mk("corpus-set", "", 0, &dd, n0, s0.clone(), Action::AddMany, Stack::Small);
            c.extra = others.to_vec();
            cases.push(c);
        }
    }
    // hostile list under the default set and some others
    let hw = handwritten_sets();
    let mut special_sets: Vec<D> = vec![dd.clone()];
    if env.quick() {
        special_sets.push(hw[(env.seed as usize) % hw.len()].clone());
    } else {
        special_sets.extend(hw.iter().cloned());
        for _ in 0..8 {
            special_sets.push(gen_accepted(rng));
        }
    }
    for d in &special_sets {
        for s in special_sources(d) {
            let st = pick_stack(rng);
            cases.push(mk("special", "", 0, d, "tpl", s, Action::Add, st));
        }
    }
    // enumerated small sources
    let max_len = env.budget(3, 4);
    let mut small_sets: Vec<D> = vec![dd.clone()];
    if !env.quick() {
        small_sets.extend([hw[0].clone(), hw[7].clone(), hw[4].clone()]);
    }
    for d in &small_sets {
        let all = small_exhaustive(d, max_len);
        notes.push(format!(
            "enumerated every source of 0..={max_len} symbols over the {}-symbol alphabet {:?} under delimiters {:?}: {} sources",
            small_alphabet(d).len(),
            small_alphabet(d),
            d.fields(),
            all.len()
        ));
        for s in all {
            cases.push(mk("small-exhaustive", "", 0, d, "tpl", s, Action::Add, Stack::Small));
        }
    }
    // nesting amplification, every construct, every depth, both stacks
    let mut probe_sets: Vec<D> = vec![dd.clone()];
    if !env.quick() {
        probe_sets.push(hw[0].clone());
        probe_sets.push(hw[7].clone());
    }
    for d in &probe_sets {
        for kind in NEST_KINDS {
            for &n in NEST_DEPTHS.iter().filter(|&&n| n < 100_000 || !env.quick()) {
                let src = nest_src(kind, n, d).unwrap();
                for st in [Stack::Main, Stack::Small] {
                    cases.push(mk("nest-probe", kind, n, d, "tpl", src.clone(), Action::Add, st));
                }
            }
            // a nesting probe through render_str too, at the limit
            let src = nest_src(kind, 40, d).unwrap();
            cases.push(mk("nest-probe", kind, 40, d, "tpl", src, Action::RenderStr, Stack::Small));
        }
        for kind in WIDTH_KINDS {
            // error reporting is quadratic in the number of reported places (every report copies and
            // scans the whole source): those kinds stay small so that slow never reads as a hang
            let quadratic = matches!(*kind, "includes" | "unknown-filters" | "comp-defs-ws" | "lines-then-error");
            for n in if quadratic { [300usize, 1000] } else { [1000usize, env.budget(5000, 20_000)] } {
                let src = width_src(kind, n, d).unwrap();
                cases.push(mk("width-probe", kind, n, d, "tpl", src, Action::Add, Stack::Small));
            }
        }
        // chains up to the allowed 100 links are ordinary inputs
        for kind in CHAIN_KINDS {
            for n in [10usize, 100] {
                let src = chain_src(kind, n, d).unwrap();
                cases.push(mk("chain-100", kind, n, d, "tpl", src.clone(), Action::Add, Stack::Small));
                cases.push(mk("chain-100", kind, n, d, "tpl", src, Action::RenderStr, Stack::Small));
            }
        }
    }
    // the one family that exercises known finding F1
    // quick: one probe per named chain kind just above the measured 2 MiB threshold (~1600 links,
    // ~800 for `not in`, ~1000 for elif) plus one on the main stack; thorough: every kind, four
    // lengths, both stacks, and the thresholds by bisection
    if env.quick() {
        for kind in ["binary-plus", "attr", "filter", "index", "elif"] {
            cases.push(mk("f1-probe", kind, 2500, &dd, "tpl", chain_src(kind, 2500, &dd).unwrap(), Action::Add, Stack::Small));
        }
        cases.push(mk("f1-probe", "binary-plus", 9000, &dd, "tpl", chain_src("binary-plus", 9000, &dd).unwrap(), Action::Add, Stack::Main));
    } else {
        for kind in CHAIN_KINDS {
            for &n in &CHAIN_LENGTHS {
                let src = chain_src(kind, n, &dd).unwrap();
                for st in [Stack::Main, Stack::Small] {
                    cases.push(mk("f1-probe", kind, n, &dd, "tpl", src.clone(), Action::Add, st));
                }
            }
        }
    }
    // chains ACROSS templates (one tag per template): include / extends chains in one add_raw_templates call.
    // Sizes between ~1500 and the overflow size are left out on purpose: the cycle checks are
    // super-linear there (thousands of templates take tens of seconds), which is slow, not a hang.
    // up to 1000 templates is an ordinary input (must be ok / err); the long ones are the shape of
    // known finding F14, exercised once in the quick tier
    for kind in SET_CHAIN_KINDS {
        for n in [10usize, 100, 1000] {
            for st in [Stack::Main, Stack::Small] {
                if n < 1000 || st == Stack::Small {
                    let mut c = set_chain_case(kind, n, &dd, st);
                    c.stream = "set-chain";
                    cases.push(c);
                }
            }
        }
    }
    if env.quick() {
        cases.push(set_chain_case("include", 20_000, &dd, Stack::Small));
    } else {
        for kind in SET_CHAIN_KINDS {
            cases.push(set_chain_case(kind, 20_000, &dd, Stack::Small));
            cases.push(set_chain_case(kind, 100_000, &dd, Stack::Small));
            cases.push(set_chain_case(kind, 100_000, &dd, Stack::Main));
        }
    }
    cases.extend(prefix_set_cases(env, rng));
    // rejected delimiter sets, one of each kind, with sources that use them
    for _ in 0..env.budget(60, 600) {
        let d = gen_rejected(rng);
        let src = format!("{} a {}{} if a {}x{} endif {}{} c {}{} raw {}é{} endraw {}", d.vs, d.ve, d.bs, d.be, d.bs, d.be, d.cs, d.ce, d.bs, d.be, d.bs, d.be);
        cases.push(mk("rejected-delims", "", 0, &d, "tpl", src, Action::Add, Stack::Main));
    }
    // all prefixes (on character boundaries) of some corpus sources
    let mut budget = env.budget(2500, 70_000);
    let mut order: Vec<usize> = (0..corpus.singles.len()).collect();
    for i in (1..order.len()).rev() {
        order.swap(i, rng.below(i + 1));
    }
    for i in order {
        let s = &corpus.singles[i];
        if s.len() > 400 && env.quick() {
            continue;
        }
        let cuts: Vec<usize> = s.char_indices().map(|(i, _)| i).collect();
        if cuts.len() > budget {
            break;
        }
        budget -= cuts.len();
        for c in cuts {
            cases.push(mk("truncate-all-prefixes", "", 0, &dd, "tpl", s[..c].to_string(), Action::Add, Stack::Small));
        }
    }
    cases
}

const PREFIX_CONFIGS: &[&[&str]] = &[
    &["themes/cool/"],
    &["themes/cool"],
    &[""],
    &["日本/"],
    &["child/", "parent/"],
    &["parent/", "child/"],
    &["a/", "a/b/"],
    &["x/", "x/"],
    &["/"],
    &["themes/", "themes/cool/"],
    &["é", "😀/", "--"],
    &[],
];

fn set_case(stream: &'static str, construct: &str, depth: usize, d: &D, prefixes: &[&str], tpls: Vec<(String, String)>, action: Action, stack: Stack) -> Case {
    let mut it = tpls.into_iter();
    let (n0, s0) = it.next().unwrap_or_default();
    let mut c = mk(stream, construct, depth, d, &n0, s0, action, stack);
    c.extra = it.collect();
    c.prefixes = Some(prefixes.iter().map(|p| p.to_string()).collect());
    c
}

/// Template SETS registered on an instance with fallback prefixes: cycles, self references and
/// chains whose `include` / `extends` names resolve only through a prefix, shadowed short names,
/// several prefixes of different priority. Every registration must end in Ok or Err.
fn prefix_set_cases(env: &Env, rng: &mut Rng) -> Vec<Case> {
    let dd = D::default();
    let mut out: Vec<Case> = Vec::new();
    let short = |i: usize| format!("n{i}.html");
    let mut delim_sets = vec![dd.clone()];
    if !env.quick() {
        delim_sets.push(handwritten_sets()[0].clone());
        delim_sets.push(handwritten_sets()[7].clone());
    }
    for d in &delim_sets {
        for pf in PREFIX_CONFIGS {
            let p0 = pf.first().copied().unwrap_or("");
            let p1 = pf.get(1).copied().unwrap_or(p0);
            let mut sets: Vec<(String, usize, Vec<(String, String)>)> = Vec::new();
            for kw in ["include", "extends"] {
                // cycles of 1..=4 templates, every reference by SHORT name
                for len in 1..=4usize {
                    sets.push((format!("{kw}-cycle-short"), len, (0..len).map(|i| (format!("{p0}{}", short(i)), format!("<x>{}</x>", tg(d, &format!("{kw} \"{}\"", short((i + 1) % len)))))).collect()));
                    // references alternate between the short and the full name
                    sets.push((
                        format!("{kw}-cycle-mixed"),
                        len,
                        (0..len)
                            .map(|i| {
                                let target = if i % 2 == 0 { short((i + 1) % len) } else { format!("{p0}{}", short((i + 1) % len)) };
                                (format!("{p0}{}", short(i)), tg(d, &format!("{kw} \"{target}\"")))
                            })
                            .collect(),
                    ));
                    // the cycle alternates between two prefixes
                    sets.push((
                        format!("{kw}-cycle-two-prefixes"),
                        len,
                        (0..len).map(|i| (format!("{}{}", if i % 2 == 0 { p0 } else { p1 }, short(i)), tg(d, &format!("{kw} \"{}\"", short((i + 1) % len))))).collect(),
                    ));
                }
                // acyclic chains through the prefix
                for len in [2usize, 10, 100] {
                    sets.push((
                        format!("{kw}-chain-short"),
                        len,
                        (0..len).map(|i| (format!("{p0}{}", short(i)), if i + 1 < len { tg(d, &format!("{kw} \"{}\"", short(i + 1))) } else { "end".to_string() })).collect(),
                    ));
                }
                // shadowing: the short name also exists as an exact template
                sets.push((
                    format!("{kw}-shadowed-plain"),
                    2,
                    vec![
                        (format!("{p0}a.html"), tg(d, &format!("{kw} \"b.html\""))),
                        (format!("{p0}b.html"), tg(d, &format!("{kw} \"a.html\""))),
                        ("b.html".to_string(), "plain".to_string()),
                    ],
                ));
                sets.push((
                    format!("{kw}-shadowed-cycle"),
                    3,
                    vec![
                        (format!("{p0}a.html"), tg(d, &format!("{kw} \"b.html\""))),
                        (format!("{p0}b.html"), "unused".to_string()),
                        ("b.html".to_string(), tg(d, &format!("{kw} \"a.html\""))),
                    ],
                ));
                sets.push((
                    format!("{kw}-both-prefixes-hold-target"),
                    3,
                    vec![
                        (format!("{p0}a.html"), tg(d, &format!("{kw} \"b.html\""))),
                        (format!("{p0}b.html"), tg(d, &format!("{kw} \"a.html\""))),
                        (format!("{p1}b.html"), "other".to_string()),
                        (format!("{p1}a.html"), tg(d, &format!("{kw} \"b.html\""))),
                    ],
                ));
                // a template whose own name IS the prefix, or empty short name
                sets.push((format!("{kw}-name-equals-prefix"), 1, vec![(p0.to_string(), tg(d, &format!("{kw} \"\"")))]));
            }
            // include and extends mixed in one cycle, blocks with super(), components of different priority
            sets.push((
                "include-extends-cycle".to_string(),
                2,
                vec![(format!("{p0}a.html"), tg(d, "extends \"b.html\"")), (format!("{p0}b.html"), format!("{}{}{}", tg(d, "block c"), tg(d, "include \"a.html\""), tg(d, "endblock")))],
            ));
            sets.push((
                "blocks-through-prefix".to_string(),
                3,
                vec![
                    (format!("{p1}base.html"), format!("{}base{}", tg(d, "block c"), tg(d, "endblock"))),
                    (format!("{p0}mid.html"), format!("{}{}{}{}", tg(d, "extends \"base.html\""), tg(d, "block c"), v(d, "super()"), tg(d, "endblock"))),
                    ("page.html".to_string(), format!("{}{}{}{}", tg(d, "extends \"mid.html\""), tg(d, "block c"), v(d, "super()"), tg(d, "endblock"))),
                ],
            ));
            sets.push((
                "components-by-priority".to_string(),
                3,
                vec![
                    (format!("{p0}c1.html"), format!("{}one{}", tg(d, "component c()"), tg(d, "endcomponent"))),
                    (format!("{p1}c2.html"), format!("{}two{}", tg(d, "component c()"), tg(d, "endcomponent"))),
                    ("c3.html".to_string(), format!("{}three{}{}", tg(d, "component c()"), tg(d, "endcomponent"), v(d, "<c />"))),
                ],
            ));
            for (construct, len, tpls) in sets {
                let mut rev = tpls.clone();
                rev.reverse();
                out.push(set_case("prefix-set", &construct, len, d, pf, tpls.clone(), Action::AddMany, Stack::Small));
                out.push(set_case("prefix-set", &construct, len, d, pf, rev.clone(), Action::AddMany, if rng.chance(1, 2) { Stack::Main } else { Stack::Small }));
                out.push(set_case("prefix-set", &construct, len, d, pf, tpls, Action::AddIncremental, Stack::Small));
                out.push(set_case("prefix-set", &construct, len, d, pf, rev, Action::AddIncremental, Stack::Small));
            }
        }
    }
    out
}

/// a random small template set on an instance with random fallback prefixes
fn random_prefix_set(rng: &mut Rng) -> Case {
    let d = if rng.chance(3, 4) { D::default() } else { gen_accepted(rng) };
    let pool: &[&str] = &["themes/cool/", "themes/", "t/", "a/", "a/b/", "", "日本/", "x", "/", "../"];
    let prefixes: Vec<&str> = (0..rng.below(4)).map(|_| *rng.pick(pool)).collect();
    let shorts: &[&str] = &["a.html", "b.html", "base", "nav.html", "c/d.html", "é.html", ""];
    let any_name = |rng: &mut Rng| -> String {
        let s = *rng.pick(shorts);
        if !prefixes.is_empty() && rng.chance(2, 3) { format!("{}{s}", rng.pick(&prefixes)) } else { s.to_string() }
    };
    let n = 1 + rng.below(5);
    let mut tpls: Vec<(String, String)> = Vec::new();
    for _ in 0..n {
        let name = any_name(rng);
        let mut src = String::new();
        if rng.chance(1, 3) {
            let target = if rng.chance(2, 3) { rng.pick(shorts).to_string() } else { any_name(rng) };
            src.push_str(&tg(&d, &format!("extends \"{target}\"")));
        }
        for _ in 0..rng.below(4) {
            match rng.below(4) {
                0 | 1 => {
                    let target = if rng.chance(2, 3) { rng.pick(shorts).to_string() } else { any_name(rng) };
                    src.push_str(&tg(&d, &format!("include \"{target}\"")));
                }
                2 => {
                    let b = format!("b{}", rng.below(3));
                    src.push_str(&format!("{}{}{}", tg(&d, &format!("block {b}")), if rng.chance(1, 2) { v(&d, "super()") } else { "x".to_string() }, tg(&d, "endblock")));
                }
                _ => {
                    let mut g = Gen { rng: &mut *rng, d: d.clone() };
                    src.push_str(&g.body(1, false, false));
                }
            }
        }
        tpls.push((name, src));
    }
    let action = if rng.chance(1, 3) { Action::AddIncremental } else { Action::AddMany };
    let stack = pick_stack(rng);
    set_case("prefix-random", "", n, &d, &prefixes, tpls, action, stack)
}

/// `n` random cases: valid-ish generator output and mutations of it / of the corpus
fn random_cases(rng: &mut Rng, corpus: &Corpus, n: usize) -> Vec<Case> {
    let mut cases = Vec::with_capacity(n);
    while cases.len() < n {
        if rng.chance(1, 16) {
            cases.push(random_prefix_set(rng));
            continue;
        }
        let d = pick_delims(rng);
        let nasty = nasty_snippets(&d);
        // a base source spelled with d
        let from_corpus = !corpus.singles.is_empty() && rng.chance(1, 4);
        let base = if from_corpus {
            let pick: &String = rng.pick(&corpus.singles);
            respell(pick, &d)
        } else {
            let mut g = Gen { rng: &mut *rng, d: d.clone() };
            g.template()
        };
        let malformed = rng.chance(55, 100);
        let (src, stream, construct): (String, &'static str, &'static str) = if malformed {
            let mut s = base;
            let mut kind = "";
            for _ in 0..1 + rng.below(3) {
                let (m, k) = mutate(&s, &d, rng, &nasty);
                s = m;
                kind = k;
            }
            (s, if from_corpus { "malformed-corpus" } else { "malformed-generated" }, kind)
        } else {
            (base, if from_corpus { "corpus-respelled" } else { "valid-ish" }, "")
        };
        let action = pick_action(rng, &src);
        let stack = pick_stack(rng);
        let name = gen_name(rng);
        let mut c = mk(stream, construct, 0, &d, &name, src, action, stack);
        if action == Action::AddMany {
            for _ in 0..1 + rng.below(2) {
                let other = if !corpus.sets.is_empty() && rng.chance(1, 4) {
                    let set = rng.pick(&corpus.sets);
                    let (n, s) = rng.pick(set);
                    (n.clone(), respell(s, &d))
                } else {
                    let mut g = Gen { rng: &mut *rng, d: d.clone() };
                    let t = g.template();
                    (rng.pick(&TPL_NAMES[..6]).to_string(), t)
                };
                c.extra.push(other);
            }
            if rng.chance(1, 2) {
                c.name = rng.pick(&TPL_NAMES[..6]).to_string();
            }
        }
        cases.push(c);
    }
    cases
}

// ---------------------------------------------------------------- shrinking

/// smallest depth in (lo, hi] whose outcome class is `class` (outcome assumed monotone in depth)
fn bisect_depth(run: &Runner, c: &Case, class: &str, mut lo: usize, mut hi: usize, precise: bool) -> usize {
    while hi - lo > if precise { 1 } else { (lo / 50).max(1) } {
        let mid = lo + (hi - lo) / 2;
        let Some(t) = rebuild(c, mid) else { break };
        if class_of(&run.one(&t, run.timeout)) == class { hi = mid } else { lo = mid }
    }
    hi
}

/// delta debugging on the characters of the source while the outcome class stays `class`
fn shrink_source(run: &Runner, c: &Case, class: &str, max_attempts: usize) -> Case {
    let mut best = c.clone();
    // extra templates first: none, then halves (bounded number of attempts)
    for _ in 0..14 {
        if best.extra.is_empty() {
            break;
        }
        let mut t = best.clone();
        t.extra.clear();
        if class_of(&run.one(&t, run.timeout)) == class {
            best = t;
            break;
        }
        let half = best.extra.len() / 2;
        let mut first = best.clone();
        first.extra.truncate(best.extra.len() - half.max(1));
        let mut second = best.clone();
        second.extra.drain(..half.max(1));
        if class_of(&run.one(&first, run.timeout)) == class {
            best = first;
        } else if class_of(&run.one(&second, run.timeout)) == class {
            best = second;
        } else {
            break;
        }
    }
    // single extra templates, one at a time (small sets)
    if best.extra.len() <= 8 {
        let mut i = 0;
        while i < best.extra.len() {
            let mut t = best.clone();
            t.extra.remove(i);
            if class_of(&run.one(&t, run.timeout)) == class { best = t } else { i += 1 }
        }
    }
    // fallback prefixes, one at a time
    if let Some(pf) = best.prefixes.clone() {
        let mut i = 0;
        let mut cur = pf;
        while i < cur.len() {
            let mut t = best.clone();
            let mut fewer = cur.clone();
            fewer.remove(i);
            t.prefixes = Some(fewer.clone());
            if class_of(&run.one(&t, run.timeout)) == class {
                best = t;
                cur = fewer;
            } else {
                i += 1;
            }
        }
    }
    // then the text of the main template and of up to four further templates
    let deadline = Instant::now() + Duration::from_secs(40);
    let mut attempts = 0usize;
    let slots = 1 + best.extra.len().min(4);
    for slot in 0..slots {
        let text = if slot == 0 { best.src.clone() } else { best.extra[slot - 1].1.clone() };
        let with = |base: &Case, txt: String| {
            let mut t = base.clone();
            if slot == 0 { t.src = txt } else { t.extra[slot - 1].1 = txt }
            t
        };
        let mut chars: Vec<char> = text.chars().collect();
        let mut n = 2usize;
        while !chars.is_empty() && attempts < max_attempts && Instant::now() < deadline {
            let chunk = chars.len().div_ceil(n);
            let mut reduced = false;
            let mut i = 0;
            while i < chars.len() && attempts < max_attempts {
                let j = (i + chunk).min(chars.len());
                let cand: String = chars[..i].iter().chain(chars[j..].iter()).collect();
                let t = with(&best, cand.clone());
                attempts += 1;
                if class_of(&run.one(&t, run.timeout)) == class {
                    chars = cand.chars().collect();
                    best = t;
                    reduced = true;
                    n = n.saturating_sub(1).max(2);
                    break;
                }
                i = j;
            }
            if !reduced {
                if chunk <= 1 {
                    break;
                }
                n = (n * 2).min(chars.len());
            }
        }
    }
    best
}

// ---------------------------------------------------------------- lexer correspondence

#[derive(Clone)]
struct Mismatch {
    stage: &'static str,
    case: Case,
    model: String,
    imp: String,
}

#[derive(Default)]
struct LexStats {
    reached_lexer: u64,
    past_lexer: u64,
    lexer_panics: Vec<(Case, String)>,
    comparisons: u64,
    disagreements: u64,
    skipped_long: u64,
    mismatches: Vec<Mismatch>,
    driver_error: Option<String>,
    lex_err_classes: BTreeMap<String, u64>,
}

fn lexer_err_class(ans: &str) -> Option<String> {
    let p = ans.rfind("ERR:")?;
    Some(ans[p + 4..].split('@').next().unwrap_or("").to_string())
}

/// tokens of every case with an accepted delimiter set, in-process (the lexer cannot overflow),
/// compared with the model when the driver is there
fn lex_stage(cases: &[Case], exe: Option<&Path>, threads: usize, model_max: usize) -> LexStats {
    // the same (delimiters, source) is sent to the model once (probes run on two stacks)
    let mut seen: HashSet<u64> = HashSet::new();
    let first: Vec<bool> = cases.iter().map(|c| seen.insert(case_hash(c))).collect();
    // dynamic queue of small batches: the driver's cost grows faster than linearly with the
    // number of tokens, so equal-sized static chunks would leave one straggler
    let step = 64usize;
    let nbatches = cases.len().div_ceil(step);
    let next = AtomicUsize::new(0);
    let parts: Vec<LexStats> = std::thread::scope(|s| {
        let hs: Vec<_> = (0..threads)
            .map(|_| {
                s.spawn(|| {
                    let mut st = LexStats::default();
                    loop {
                        let b = next.fetch_add(1, Ordering::SeqCst);
                        if b >= nbatches {
                            break;
                        }
                        let lo = b * step;
                        let cs = &cases[lo..(lo + step).min(cases.len())];
                        let mut reqs: Vec<String> = Vec::new();
                        let mut meta: Vec<(usize, &'static str, String)> = Vec::new();
                        for (i, c) in cs.iter().enumerate() {
                            if !c.d.accepted() {
                                continue;
                            }
                            st.reached_lexer += 1;
                            let raw = lexwire::canon_tokens(&c.src, &c.d, false);
                            let fil = lexwire::canon_tokens(&c.src, &c.d, true);
                            if raw.contains("PANIC:") || fil.contains("PANIC:") {
                                st.lexer_panics.push((c.clone(), if raw.contains("PANIC:") { raw.clone() } else { fil.clone() }));
                            }
                            match lexer_err_class(&fil) {
                                Some(k) => *st.lex_err_classes.entry(k).or_insert(0) += 1,
                                None => st.past_lexer += 1,
                            }
                            if exe.is_some() && first[lo + i] {
                                if c.src.len() > model_max {
                                    st.skipped_long += 1;
                                } else {
                                    reqs.push(lexwire::lex_request(false, &c.d, &c.src));
                                    meta.push((i, "lex-raw", raw));
                                    reqs.push(lexwire::lex_request(true, &c.d, &c.src));
                                    meta.push((i, "lex-filtered", fil));
                                }
                            }
                        }
                        if let (Some(exe), false) = (exe, reqs.is_empty()) {
                            match model_batch(exe, &reqs, 1) {
                                Err(e) => st.driver_error = Some(e),
                                Ok(ans) => {
                                    for (a, (i, stage, imp)) in ans.iter().zip(meta.iter()) {
                                        st.comparisons += 1;
                                        if !lexwire::same_answer(a, imp) {
                                            st.disagreements += 1;
                                            if st.mismatches.len() < 8 {
                                                st.mismatches.push(Mismatch { stage, case: cs[*i].clone(), model: a.clone(), imp: imp.clone() });
                                            }
                                        }
                                    }
                                }
                            }
                        }
                    }
                    st
                })
            })
            .collect();
        hs.into_iter().map(|h| h.join().unwrap()).collect()
    });
    let mut all = LexStats::default();
    for p in parts {
        all.reached_lexer += p.reached_lexer;
        all.past_lexer += p.past_lexer;
        all.lexer_panics.extend(p.lexer_panics);
        all.comparisons += p.comparisons;
        all.disagreements += p.disagreements;
        all.skipped_long += p.skipped_long;
        all.mismatches.extend(p.mismatches);
        if all.driver_error.is_none() {
            all.driver_error = p.driver_error;
        }
        for (k, n) in p.lex_err_classes {
            *all.lex_err_classes.entry(k).or_insert(0) += n;
        }
    }
    all
}

fn set_delimiters_ok(d: &D) -> bool {
    catch(std::panic::AssertUnwindSafe(|| Tera::default().set_delimiters(d.to_delimiters()).is_ok())).unwrap_or(false)
}

/// the driver binary may be relinked while a long run is going: retry before giving up
fn model_batch(exe: &Path, reqs: &[String], threads: usize) -> Result<Vec<String>, String> {
    let mut last = String::new();
    for attempt in 0..4 {
        match driver::run_batch_parallel(exe, reqs, threads) {
            Ok(a) => return Ok(a),
            Err(e) => last = e,
        }
        std::thread::sleep(Duration::from_secs(2 + 4 * attempt));
    }
    Err(last)
}

fn model_single(exe: &Path, req: String) -> Option<String> {
    driver::run_batch(exe, &[req]).ok().and_then(|mut v| v.pop())
}

/// shrink a lexer disagreement by delta debugging against the driver
fn shrink_mismatch(exe: &Path, m: &Mismatch) -> Mismatch {
    let filtered = m.stage == "lex-filtered";
    let differs = |src: &str| -> Option<(String, String)> {
        let imp = lexwire::canon_tokens(src, &m.case.d, filtered);
        let model = model_single(exe, lexwire::lex_request(filtered, &m.case.d, src))?;
        (!lexwire::same_answer(&model, &imp)).then_some((model, imp))
    };
    let mut best = m.clone();
    let mut chars: Vec<char> = m.case.src.chars().collect();
    let mut n = 2usize;
    let mut attempts = 0;
    while chars.len() >= 2 && attempts < 200 {
        let chunk = chars.len().div_ceil(n);
        let mut reduced = false;
        let mut i = 0;
        while i < chars.len() && attempts < 200 {
            let j = (i + chunk).min(chars.len());
            let cand: String = chars[..i].iter().chain(chars[j..].iter()).collect();
            attempts += 1;
            if let Some((model, imp)) = differs(&cand) {
                chars = cand.chars().collect();
                best.case.src = cand;
                best.model = model;
                best.imp = imp;
                reduced = true;
                n = n.saturating_sub(1).max(2);
                break;
            }
            i = j;
        }
        if !reduced {
            if chunk <= 1 {
                break;
            }
            n = (n * 2).min(chars.len());
        }
    }
    best
}

// ---------------------------------------------------------------- replay and self-test

fn replay(path: &str, run: &Runner, env: &Env) {
    let text = std::fs::read_to_string(path).expect("replay file");
    let j: serde_json::Value = serde_json::from_str(&text).expect("replay json");
    let Some(c) = Case::from_replay(&j) else {
        println!("replay file lacks delims/name/source_hex");
        return;
    };
    println!(
        "delimiters: {:?}  fallback prefixes: {:?}  name: {:?}  action: {}  stack: {}  source: {} bytes  templates: {}",
        c.d.fields(),
        c.prefixes,
        c.name,
        c.action.label(),
        c.stack.label(),
        c.src.len(),
        1 + c.extra.len()
    );
    println!("recorded outcome: {}", j["outcome"].as_str().unwrap_or("?"));
    let out = run.one(&c, run.confirm_timeout);
    println!("implementation (child process): {out}");
    println!("oracle: {}", if is_fine(&out) { "fine (ok / err / rejected)" } else { "VIOLATED (must be ok or an error value)" });
    println!("shape: {:?}", chain_shape(&c.src, &c.d));
    println!("set_delimiters ok: {}   D::accepted: {}", set_delimiters_ok(&c.d), c.d.accepted());
    let exe = driver::driver_path(&env.verif_dir, "drv_c06");
    if !exe.exists() {
        println!("model: driver {} not built", exe.display());
        return;
    }
    println!("model validate: {:?}", model_single(&exe, format!("validate {}", c.d.wire())));
    if c.d.accepted() && c.src.len() <= MODEL_MAX_BYTES {
        for filtered in [false, true] {
            let imp = lexwire::canon_tokens(&c.src, &c.d, filtered);
            let model = model_single(&exe, lexwire::lex_request(filtered, &c.d, &c.src)).unwrap_or_else(|| "<no answer>".into());
            println!("tokens {}: {}", if filtered { "filtered" } else { "raw" }, if lexwire::same_answer(&model, &imp) { "model and implementation agree" } else { "DISAGREE" });
            println!("  implementation: {}", imp.chars().take(2000).collect::<String>());
            println!("  model:          {}", model.chars().take(2000).collect::<String>());
        }
    }
}

/// The isolation machinery must see a hang, an abort, a stack overflow and a panic of a child
/// (the child misbehaves on these magic sources only when C06_SELFTEST=1 is set for it).
fn isolation_selftest(exe: &Path, timeout: Duration) -> Result<String, String> {
    let dd = D::default();
    let srcs = ["plain {{ a }}", SELFTEST_PANIC, SELFTEST_ABORT, "{{ 1 }}", SELFTEST_OVERFLOW, SELFTEST_LOOP, "{{ ( }}"];
    let lines: Vec<String> = srcs.iter().map(|s| mk("selftest", "", 0, &dd, "tpl", s.to_string(), Action::Add, Stack::Main).line()).collect();
    let outs = run_isolated(exe, &lines, timeout, true);
    let classes: Vec<&str> = outs.iter().map(|o| class_of(o)).collect();
    let want = ["ok", "panic", "abort", "ok", "abort", "timeout", "err"];
    if classes == want {
        Ok(format!("isolation self-test passed: a child that panics / aborts / overflows its stack / hangs is seen as {outs:?} and the cases after it are still answered"))
    } else {
        Err(format!("isolation self-test FAILED: expected classes {want:?}, got {outs:?}"))
    }
}

// ---------------------------------------------------------------- aggregation

#[derive(Default)]
struct Agg {
    distinct: HashSet<u64>,
    bad: Vec<(Case, String)>,
    bad_total: u64,
    display_panics: Vec<(Case, String)>,
    validate_fail: Vec<(Case, String)>,
    /// construct -> depth -> [main, 2MiB]
    probes: BTreeMap<String, BTreeMap<usize, [String; 2]>>,
    f1: BTreeMap<String, BTreeMap<usize, [String; 2]>>,
    set_chain: BTreeMap<String, BTreeMap<usize, [String; 2]>>,
    mismatches: Vec<Mismatch>,
    delim_sets: HashSet<D>,
    reached_lexer: u64,
    past_lexer: u64,
    skipped_long: u64,
    unconfirmed: u64,
    driver_error: Option<String>,
    child_secs: f64,
    lex_secs: f64,
}

fn len_bucket(n: usize) -> &'static str {
    match n {
        0 => "0",
        1..=3 => "1-3",
        4..=15 => "4-15",
        16..=63 => "16-63",
        64..=255 => "64-255",
        256..=1023 => "256-1023",
        1024..=19_999 => "1k-20k",
        _ => "20k+",
    }
}

fn case_hash(c: &Case) -> u64 {
    let mut h = std::collections::hash_map::DefaultHasher::new();
    c.d.hash(&mut h);
    c.src.hash(&mut h);
    h.finish()
}

fn process_round(cases: &[Case], run: &Runner, drv: Option<&Path>, report: &mut Report, agg: &mut Agg) {
    let t0 = Instant::now();
    let (outs, unconfirmed) = run.run(cases);
    agg.child_secs += t0.elapsed().as_secs_f64();
    agg.unconfirmed += unconfirmed;
    let t1 = Instant::now();
    let lex = lex_stage(cases, drv, run.threads, run.model_max);
    agg.lex_secs += t1.elapsed().as_secs_f64();
    agg.reached_lexer += lex.reached_lexer;
    agg.past_lexer += lex.past_lexer;
    agg.skipped_long += lex.skipped_long;
    report.model_comparisons += lex.comparisons;
    report.model_disagreements += lex.disagreements;
    for (k, n) in &lex.lex_err_classes {
        report.count_n(&format!("lexer-error.{k}"), *n);
    }
    if agg.mismatches.len() < 40 {
        agg.mismatches.extend(lex.mismatches);
    }
    if agg.driver_error.is_none() {
        agg.driver_error = lex.driver_error;
    }
    for (c, ans) in lex.lexer_panics {
        // the child saw the same panic; keep the in-process observation too
        report.count("lexer.panic-in-process");
        if agg.bad.len() < 400 && !agg.bad.iter().any(|(b, _)| b.src == c.src) {
            agg.bad.push((c, format!("panic:{}", one_line(&ans))));
        }
    }
    for (c, o) in cases.iter().zip(outs.iter()) {
        report.evaluations += 1;
        let class = class_of(o);
        report.count(&format!("stream.{}", c.stream));
        report.count(&format!("outcome.{class}"));
        report.count(&format!("stream-outcome.{}.{class}", c.stream));
        if class == "err" || class == "display-panic" {
            report.count(&format!("error-kind.{}", o.trim_start_matches("err:").split('!').next().unwrap_or("")));
        }
        if c.stream == "prefix-set" {
            report.count(&format!("prefix-set.{}.{class}", c.construct));
        }
        if c.prefixes.is_some() {
            report.count(&format!("fallback-prefixes.{}", c.prefixes.as_ref().map(|p| p.len()).unwrap_or(0)));
        }
        report.count(&format!("delims.{}", d_class(&c.d)));
        report.count(&format!("source-bytes.{}", len_bucket(c.src.len())));
        report.count(&format!("action.{:?}", c.action));
        report.count(&format!("stack.{}", c.stack.label()));
        if !c.construct.is_empty() && !matches!(c.stream, "nest-probe" | "width-probe" | "f1-probe" | "chain-100" | "set-chain-probe" | "set-chain" | "prefix-set") {
            report.count(&format!("mutation.{}", c.construct));
        }
        if c.d.accepted() && agg.distinct.insert(case_hash(c)) {
            report.distinct_nontrivial += 1;
        }
        agg.delim_sets.insert(c.d.clone());
        let slot = if c.stack == Stack::Main { 0 } else { 1 };
        if c.stream == "nest-probe" && c.action == Action::Add && c.d == D::default() {
            agg.probes.entry(c.construct.clone()).or_default().entry(c.depth).or_default()[slot] = o.clone();
            report.count(&format!("nest-depth.{}.{class}", c.depth));
        }
        if matches!(c.stream, "set-chain-probe" | "set-chain") {
            agg.set_chain.entry(c.construct.clone()).or_default().entry(c.depth).or_default()[slot] = o.clone();
        }
        if c.stream == "f1-probe" {
            agg.f1.entry(c.construct.clone()).or_default().entry(c.depth).or_default()[slot] = o.clone();
        }
        // the property itself
        report.oracle_checks += 2;
        if (class == "rejected") != !c.d.accepted() {
            report.oracle_failures += 1;
            if agg.validate_fail.len() < 10 {
                agg.validate_fail.push((c.clone(), o.clone()));
            }
        }
        if class == "display-panic" {
            if agg.display_panics.len() < 10 {
                agg.display_panics.push((c.clone(), o.clone()));
            }
        } else if !is_fine(o) {
            report.oracle_failures += 1;
            agg.bad_total += 1;
            if agg.bad.len() < 400 {
                agg.bad.push((c.clone(), o.clone()));
            }
        }
    }
    // samples: one real case per stream
    for (c, o) in cases.iter().zip(outs.iter()) {
        let seen = report.samples.iter().any(|s| s["stream"] == c.stream);
        if !seen && c.src.len() < 300 && !c.src.is_empty() {
            report.sample(serde_json::json!({"stream": c.stream, "construct": c.construct, "delims": c.d.to_json(), "name": c.name, "source": c.src, "action": format!("{:?}", c.action), "stack": c.stack.label(), "outcome": o}));
        }
    }
}

fn probe_table(t: &BTreeMap<String, BTreeMap<usize, [String; 2]>>) -> Vec<String> {
    let short = |o: &str| -> String {
        match class_of(o) {
            "err" => "err".into(),
            _ => o.chars().take(40).collect(),
        }
    };
    t.iter()
        .map(|(k, row)| {
            let cells: Vec<String> = row.iter().map(|(d, o)| if o[0] == o[1] { format!("{d}:{}", short(&o[0])) } else { format!("{d}:{}|{}", short(&o[0]), short(&o[1])) }).collect();
            format!("{k}: {}", cells.join(" "))
        })
        .collect()
}

// ---------------------------------------------------------------- main

fn main() {
    if std::env::args().any(|a| a == "--child") {
        child_main();
        return;
    }
    quiet_panics();
    let started = Instant::now();
    let env = Env::from_env();
    let mut report = Report::new("C06");
    let threads = std::thread::available_parallelism().map(|n| n.get()).unwrap_or(8).min(16);
    let exe = std::env::current_exe().expect("own path");
    let run = Runner {
        exe: exe.clone(),
        threads,
        timeout: Duration::from_secs(env.budget(2, 5) as u64),
        confirm_timeout: Duration::from_secs(20),
        batch: env.budget(400, 1500),
        model_max: env.budget(8000, MODEL_MAX_BYTES),
    };
    if let Some(path) = replay_path() {
        replay(&path, &run, &env);
        return;
    }
    // classifier inspection: `c06 --shape-check` applies the shape classifiers to every probe family
    if std::env::args().any(|a| a == "--shape-check") {
        let mut wrong = 0;
        for d in [D::default(), handwritten_sets()[0].clone(), handwritten_sets()[7].clone()] {
            for k in NEST_KINDS {
                for n in [300usize, 1000] {
                    if let Some(s) = chain_shape(&nest_src(k, n, &d).unwrap(), &d) {
                        wrong += 1;
                        println!("WRONG: nesting {k} x {n} classified as {s}");
                    }
                }
            }
            for k in WIDTH_KINDS {
                if let Some(s) = chain_shape(&width_src(k, 1000, &d).unwrap(), &d) {
                    wrong += 1;
                    println!("WRONG: width {k} classified as {s}");
                }
            }
            for k in CHAIN_KINDS {
                let long = chain_shape(&chain_src(k, 300, &d).unwrap(), &d);
                let short = chain_shape(&chain_src(k, 150, &d).unwrap(), &d);
                println!("chain {k}: 300 links -> {long:?}, 150 links -> {short:?}");
                if long.is_none() || short.is_some() {
                    wrong += 1;
                    println!("WRONG: chain {k}");
                }
            }
        }
        for k in SET_CHAIN_KINDS {
            let long = set_chain_shape(&set_chain_case(k, 3000, &D::default(), Stack::Small));
            let short = set_chain_shape(&set_chain_case(k, 1000, &D::default(), Stack::Small));
            println!("set chain {k}: 3000 -> {long:?}, 1000 -> {short:?}");
            if long.is_none() || short.is_some() {
                wrong += 1;
            }
        }
        println!("shape-check: {wrong} wrong");
        return;
    }
    // generator inspection: `c06 --gen-debug N` prints N valid-ish sources with the engine's answer
    if let Some(n) = std::env::args().position(|a| a == "--gen-debug").and_then(|i| std::env::args().nth(i + 1)).and_then(|s| s.parse::<usize>().ok()) {
        let mut rng = Rng::new(env.seed);
        let mut tally: BTreeMap<String, u64> = BTreeMap::new();
        for _ in 0..n {
            let mut g = Gen { rng: &mut rng, d: D::default() };
            let src = g.template();
            let msg = match catch(std::panic::AssertUnwindSafe(|| Tera::default().add_raw_template("tpl", &src))) {
                Ok(Ok(())) => "ok".to_string(),
                Ok(Err(e)) => match e.kind() {
                    tera::ErrorKind::SyntaxError(r) => format!("syntax: {}", r.message()),
                    k => format!("{}: {}", kind_name(k), one_line(&e.to_string())),
                },
                Err(p) => format!("PANIC {p}"),
            };
            *tally.entry(msg.chars().take(60).collect()).or_insert(0) += 1;
            if n <= 200 {
                println!("{msg}\n    {}", one_line(&src));
            }
        }
        let mut t: Vec<_> = tally.into_iter().collect();
        t.sort_by_key(|x| std::cmp::Reverse(x.1));
        for (k, v) in t.iter().take(40) {
            println!("{v:6} {k}");
        }
        return;
    }

    // the machinery that everything below relies on
    let selftest = {
        let exe = exe.clone();
        let t = run.timeout;
        std::thread::spawn(move || isolation_selftest(&exe, t))
    };

    // measurement only: registration time of include chains across templates (super-linear cycle checks)
    let growth = {
        let exe = exe.clone();
        std::thread::spawn(move || {
            let dd = D::default();
            let mut cells = Vec::new();
            for n in [250usize, 500, 1000] {
                let line = set_chain_case("include", n, &dd, Stack::Small).line();
                let t = Instant::now();
                let o = run_isolated(&exe, &[line], Duration::from_secs(20), false).pop().unwrap_or_default();
                cells.push(format!("{n} templates: {o} in {} ms", t.elapsed().as_millis()));
            }
            cells.push("and one template with N tags `include \"x\"` of an unknown template (every reported place copies and scans the whole source, quadratic)".into());
            for n in [1000usize, 2000, 4000] {
                let line = mk("measure", "includes", n, &dd, "tpl", width_src("includes", n, &dd).unwrap(), Action::Add, Stack::Small).line();
                let t = Instant::now();
                let o = run_isolated(&exe, &[line], Duration::from_secs(30), false).pop().unwrap_or_default();
                cells.push(format!("N={n}: {o} in {} ms", t.elapsed().as_millis()));
            }
            cells
        })
    };

    let drv_path = driver::driver_path(&env.verif_dir, "drv_c06");
    let drv: Option<&Path> = if drv_path.exists() { Some(drv_path.as_path()) } else { None };
    if drv.is_none() {
        let e = format!("model driver {} not built", drv_path.display());
        report.notes.push(format!("model driver unavailable: {e}"));
        report.violation("model-mismatch", format!("model driver could not be run: {e}"), serde_json::json!({"stage": "driver", "error": e}));
    }

    let corpus = load_corpus();
    report.count_n("corpus.files", corpus.files as u64);
    report.count_n("corpus.sources", corpus.singles.len() as u64);
    report.count_n("corpus.template-sets", corpus.sets.len() as u64);
    if corpus.singles.is_empty() {
        report.notes.push("the repository's snapshot inputs were not found (TERA_REPO): corpus streams are empty".into());
    }
    if let Ok(l) = std::fs::read_to_string("/proc/self/limits") {
        if let Some(line) = l.lines().find(|l| l.starts_with("Max stack size")) {
            report.notes.push(format!("main-thread stack of the children: {}", line.split_whitespace().collect::<Vec<_>>().join(" ")));
        }
    }

    let mut rng = Rng::new(env.seed);
    let mut agg = Agg::default();
    let total = env.budget(20_000, 1_500_000);
    let mut notes = Vec::new();
    let fixed = fixed_cases(&env, &mut rng, &corpus, &mut notes);
    report.notes.extend(notes);
    report.count_n("cases.fixed-part", fixed.len() as u64);
    let mut remaining = total.saturating_sub(fixed.len()).max(env.budget(6000, 200_000));
    let round_size: usize = 100_000;
    let mut round: Vec<Case> = fixed;
    loop {
        let n = remaining.min(round_size.saturating_sub(round.len()).max(if round.is_empty() { round_size } else { 0 }));
        let mut r = rng.fork();
        round.extend(random_cases(&mut r, &corpus, n));
        remaining -= n;
        process_round(&round, &run, drv, &mut report, &mut agg);
        round = Vec::new();
        if remaining == 0 {
            break;
        }
    }

    // validate: every delimiter set seen, accepted or not, model vs set_delimiters
    let mut sets: Vec<D> = agg.delim_sets.iter().cloned().collect();
    sets.sort_by_key(|d| d.wire());
    report.count_n("delimiter-sets.distinct", sets.len() as u64);
    report.count_n("delimiter-sets.accepted", sets.iter().filter(|d| d.accepted()).count() as u64);
    for d in &sets {
        // independent restatement vs the implementation (in-process: validation cannot overflow)
        report.oracle_checks += 1;
        if set_delimiters_ok(d) != d.accepted() {
            report.oracle_failures += 1;
            if agg.validate_fail.len() < 10 {
                agg.validate_fail.push((mk("validate", "", 0, d, "tpl", String::new(), Action::Add, Stack::Main), format!("set_delimiters ok = {}", set_delimiters_ok(d))));
            }
        }
    }
    let mut validate_mismatch: Vec<(D, String)> = Vec::new();
    if let Some(drv) = drv {
        let reqs: Vec<String> = sets.iter().map(|d| format!("validate {}", d.wire())).collect();
        match model_batch(drv, &reqs, threads) {
            Err(e) => {
                if agg.driver_error.is_none() {
                    agg.driver_error = Some(e);
                }
            }
            Ok(ans) => {
                for (d, a) in sets.iter().zip(ans.iter()) {
                    report.model_comparisons += 1;
                    let imp = if set_delimiters_ok(d) { "ok" } else { "err" };
                    if a.trim() != imp {
                        report.model_disagreements += 1;
                        validate_mismatch.push((d.clone(), a.clone()));
                    }
                }
            }
        }
    }
    if let Some(e) = &agg.driver_error {
        report.notes.push(format!("model driver failed: {e}"));
        report.violation("model-mismatch", format!("model driver could not be run: {e}"), serde_json::json!({"stage": "driver", "error": e}));
    }

    // ---- model disagreements: shrink, then a targeted burst looking for a direct failure
    let mut model_violations: Vec<Violation> = Vec::new();
    if let Some(drv) = drv {
        let mut seen_src: Vec<String> = Vec::new();
        let ms = agg.mismatches.clone();
        for m in ms.iter() {
            if model_violations.len() >= 4 {
                break;
            }
            let small = shrink_mismatch(drv, m);
            if seen_src.contains(&small.case.src) {
                continue;
            }
            seen_src.push(small.case.src.clone());
            // burst: mutants of the shrunk and of the original case, same delimiters
            let mut r = rng.fork();
            let nasty = nasty_snippets(&small.case.d);
            let mut burst: Vec<Case> = Vec::new();
            for k in 0..env.budget(400, 4000) {
                let base = if k % 2 == 0 { &small.case.src } else { &m.case.src };
                let (s, _) = mutate(base, &small.case.d, &mut r, &nasty);
                let mut c = small.case.clone();
                c.stream = "mismatch-burst";
                c.src = s;
                c.stack = if k % 3 == 0 { Stack::Main } else { Stack::Small };
                burst.push(c);
            }
            let before = agg.bad_total;
            process_round(&burst, &run, Some(drv), &mut report, &mut agg);
            let found = agg.bad_total > before;
            report.notes.push(format!(
                "model disagreement at stage {} on {:?} (delimiters {:?}): burst of {} mutants {} a direct failure",
                small.stage,
                small.case.src.chars().take(120).collect::<String>(),
                small.case.d.fields(),
                burst.len(),
                if found { "FOUND" } else { "did not find" }
            ));
            if !found {
                let mut rj = small.case.replay_json("(lexer only)");
                rj["stage"] = small.stage.into();
                rj["model"] = small.model.chars().take(3000).collect::<String>().into();
                rj["implementation"] = small.imp.chars().take(3000).collect::<String>().into();
                model_violations.push(Violation {
                    kind: "model-mismatch".into(),
                    summary: format!("{}: model and lexer tokens differ on {:?} with delimiters {:?}", small.stage, small.case.src.chars().take(80).collect::<String>(), small.case.d.fields()),
                    replay: rj,
                    known: None,
                });
            }
        }
        for (d, a) in validate_mismatch.iter().take(2) {
            model_violations.push(Violation {
                kind: "model-mismatch".into(),
                summary: format!("validate: model says `{a}` for delimiters {:?}, set_delimiters ok = {}", d.fields(), set_delimiters_ok(d)),
                replay: serde_json::json!({"stage": "validate", "delims": d.to_json(), "name": "tpl", "source": "", "source_hex": "", "model": a, "implementation": if set_delimiters_ok(d) { "ok" } else { "err" }}),
                known: None,
            });
        }
    }

    // ---- direct failures: classify (F1 = chain shape), shrink the others
    let mut known: Vec<Violation> = Vec::new();
    let mut unknown: Vec<Violation> = Vec::new();
    let mut groups: BTreeMap<(String, String, String), Vec<usize>> = BTreeMap::new();
    for (i, (c, o)) in agg.bad.iter().enumerate() {
        groups.entry((c.stream.to_string(), c.construct.clone(), class_of(o).to_string())).or_default().push(i);
    }
    // instances of known shapes: (finding id, shape, case, outcome)
    let mut known_instances: Vec<(&'static str, String, Case, String)> = Vec::new();
    let mut f1_thresholds: Vec<String>;
    for ((stream, construct, class), idxs) in &groups {
        let &best = idxs.iter().min_by_key(|&&i| (agg.bad[i].0.depth, agg.bad[i].0.src.len(), agg.bad[i].0.stack == Stack::Main)).unwrap();
        let (c, o) = &agg.bad[best];
        let stack = c.stack.label();
        // a crash / hang is attributed to a known finding only for exactly its shape
        if matches!(class.as_str(), "abort" | "timeout") {
            if let Some(shape) = set_chain_shape(c) {
                report.count_n("violations.known-F14-instances", idxs.len() as u64);
                known_instances.push(("F14", shape, c.clone(), o.clone()));
                continue;
            }
            if let Some(shape) = chain_shape(&c.src, &c.d) {
                report.count_n("violations.known-F1-instances", idxs.len() as u64);
                known_instances.push(("F1", shape, c.clone(), o.clone()));
                continue;
            }
        }
        if unknown.len() >= 8 {
            continue;
        }
        // minimise
        let mut small = c.clone();
        let mut detail = String::new();
        let is_set = c.stream == "set-chain-probe";
        if c.depth > 1 && rebuild(c, c.depth).is_some() && (!is_set || !env.quick()) {
            // set chains answer slowly (super-linear cycle checks) below the overflow size: coarse there
            let d = bisect_depth(&run, c, class, 0, c.depth, !is_set);
            if let Some(t) = rebuild(c, d) {
                small = t;
                detail = format!(" (smallest {} with this outcome: {d}{})", if is_set { "number of templates" } else { "depth" }, if is_set { " ±2 %" } else { "" });
            }
        }
        if small.src.len() < 200_000 && !is_set {
            small = shrink_source(&run, &small, class, env.budget(150, 600));
        }
        let again = run.one(&small, run.confirm_timeout);
        let outcome = if class_of(&again) == class { again } else { o.clone() };
        if class_of(&outcome) != class.as_str() {
            small = c.clone();
        }
        let shape = chain_shape(&small.src, &small.d);
        let set_shape = set_chain_shape(&small);
        let mut rj = small.replay_json(&outcome);
        if let Some(pf) = &small.prefixes {
            let all: Vec<String> = std::iter::once((&small.name, &small.src)).chain(small.extra.iter().map(|(n, s)| (n, s))).take(6).map(|(n, s)| format!("{n:?}: {:?}", s.chars().take(80).collect::<String>())).collect();
            detail.push_str(&format!(" [fallback prefixes {pf:?}; templates {}]", all.join(", ")));
        }
        if let Some(ss) = &set_shape {
            rj["set_shape"] = ss.clone().into();
            detail.push_str(&format!(" [{ss}: {} templates in one add_raw_templates call]", small.extra.len() + 1));
        }
        rj["shape"] = serde_json::json!(shape);
        rj["group_size"] = idxs.len().into();
        let v = Violation {
            kind: "property".into(),
            summary: format!(
                "{outcome} (stack {stack}, {}) on {:?}{} [stream {stream} {construct}]{detail}: registering must end in Ok or Err",
                small.action.label(),
                small.src.chars().take(160).collect::<String>(),
                if small.src.len() > 160 { "…" } else { "" }
            ),
            replay: rj,
            known: if matches!(class.as_str(), "abort" | "timeout") {
                if set_shape.is_some() { Some("F14".to_string()) } else { shape.as_ref().map(|_| "F1".to_string()) }
            } else {
                None
            },
        };
        if v.known.is_some() { known.push(v) } else { unknown.push(v) }
    }
    for id in ["F1", "F14"] {
        let inst: Vec<&(&'static str, String, Case, String)> = known_instances.iter().filter(|k| k.0 == id).collect();
        let Some(first) = inst.iter().min_by_key(|k| k.2.src.len() + k.2.extra.len()) else { continue };
        let list: Vec<String> = inst.iter().map(|k| format!("{} on {} stack: {}", k.1, k.2.stack.label(), k.3)).collect();
        let mut rj = first.2.replay_json(&first.3);
        rj["shape"] = first.1.clone().into();
        rj["instances"] = list.clone().into();
        known.push(Violation {
            kind: "property".into(),
            summary: format!(
                "known finding {id}: {} while registering {} [{}]",
                first.3,
                if id == "F1" { "one long left-nested chain" } else { "a template set forming one long include / extends chain" },
                list.join("; ")
            ),
            replay: rj,
            known: Some(id.into()),
        });
    }
    for (c, o) in agg.validate_fail.iter().take(3) {
        unknown.push(Violation {
            kind: "property".into(),
            summary: format!("set_delimiters and the documented rule (six 2-byte strings, distinct starts) disagree on {:?}: {o}", c.d.fields()),
            replay: c.replay_json(o),
            known: None,
        });
    }
    for v in unknown.into_iter().chain(model_violations).chain(known) {
        if report.violations.len() < 24 {
            report.violations.push(v);
        }
    }

    // ---- F1 thresholds per chain kind and stack (coarse bisection between the probe lengths)
    {
        let mut jobs: Vec<(String, Stack, usize, usize, String)> = Vec::new();
        for (kind, row) in agg.f1.iter().filter(|_| !env.quick()) {
            for (slot, st) in [(0usize, Stack::Main), (1usize, Stack::Small)] {
                let lo = row.iter().filter(|(_, o)| is_fine(&o[slot])).map(|(d, _)| *d).max().unwrap_or(0);
                if let Some((hi, o)) = row.iter().filter(|(d, o)| !o[slot].is_empty() && !is_fine(&o[slot]) && **d > lo).map(|(d, o)| (*d, o[slot].clone())).next() {
                    jobs.push((kind.clone(), st, lo, hi, class_of(&o).to_string()));
                }
            }
        }
        let next = AtomicUsize::new(0);
        let found: Mutex<Vec<String>> = Mutex::new(Vec::new());
        std::thread::scope(|s| {
            for _ in 0..threads.min(jobs.len().max(1)) {
                s.spawn(|| loop {
                    let k = next.fetch_add(1, Ordering::SeqCst);
                    if k >= jobs.len() {
                        break;
                    }
                    let (kind, st, lo, hi, class) = &jobs[k];
                    let dd = D::default();
                    let c = mk("f1-probe", kind, *hi, &dd, "tpl", String::new(), Action::Add, *st);
                    let th = bisect_depth(&run, &c, class, *lo, *hi, false);
                    found.lock().unwrap().push(format!("{kind}/{}: {class} from ~{th} links", st.label()));
                });
            }
        });
        f1_thresholds = found.into_inner().unwrap();
        f1_thresholds.sort();
    }

    // ---- notes
    match selftest.join() {
        Ok(Ok(n)) => report.notes.push(n),
        Ok(Err(e)) => {
            report.notes.push(e.clone());
            report.violation("model-mismatch", e.clone(), serde_json::json!({"stage": "isolation-selftest", "error": e}));
        }
        Err(_) => report.notes.push("isolation self-test thread panicked".into()),
    }
    for (c, o) in agg.display_panics.iter().take(5) {
        report.notes.push(format!(
            "error value whose Display/Debug panics (not counted as a violation of C06, which is about the call returning): {o} on {:?} delimiters {:?}",
            c.src.chars().take(200).collect::<String>(),
            c.d.fields()
        ));
    }
    report.notes.push(format!("depth probes, default delimiters, add_raw_template, outcome at depth on main|2MiB stack (one cell when equal): {}", probe_table(&agg.probes).join(" ;; ")));
    report.notes.push(format!("F1 chain probes (links: outcome main|2MiB): {}", probe_table(&agg.f1).join(" ;; ")));
    report.notes.push(format!("template-set chain probes (templates: outcome main|2MiB; empty = not run on that stack): {}", probe_table(&agg.set_chain).join(" ;; ")));
    if let Ok(cells) = growth.join() {
        report.notes.push(format!(
            "measurement, not a violation: one add_raw_templates call with an include chain across templates (wall incl. child start): {}; the cycle checks of finalize_templates walk the chain once per template and compare names linearly, about cubic in the chain length (2000 templates ~6 s, 3000 > 20 s when measured by hand), before the recursion overflows (F14)",
            cells.join(", ")
        ));
    }
    if !f1_thresholds.is_empty() {
        report.notes.push(format!("F1 thresholds by bisection (±2 %): {}", f1_thresholds.join("; ")));
    }
    report.notes.push(format!(
        "reached the lexer (delimiter set accepted): {} of {} cases = {:.1} %; lexed without a lexer error (whole token stream reaches the parser): {} = {:.1} % of all cases",
        agg.reached_lexer,
        report.evaluations,
        100.0 * agg.reached_lexer as f64 / report.evaluations.max(1) as f64,
        agg.past_lexer,
        100.0 * agg.past_lexer as f64 / report.evaluations.max(1) as f64
    ));
    report.count_n("reach.lexer", agg.reached_lexer);
    report.count_n("reach.parser-without-lexer-error", agg.past_lexer);
    report.count_n(&format!("model.skipped-longer-than-{}-bytes", run.model_max), agg.skipped_long);
    report.count_n("outcome.first-pass-not-reproduced", agg.unconfirmed);
    report.count_n("violations.direct-failures-total", agg.bad_total);
    report.notes.push(format!(
        "wall: {:.1} s total, {:.1} s child processes ({} parallel children, per-case timeout {} s, confirmation timeout {} s), {:.1} s tokens + model",
        started.elapsed().as_secs_f64(),
        agg.child_secs,
        threads,
        run.timeout.as_secs(),
        run.confirm_timeout.as_secs(),
        agg.lex_secs
    ));
    report.exhaustive = true;
    report.notes.push("exhaustive only over the enumerated small-source space named above; every other stream is sampled from the seeded generator".into());
    report.rule = "a case is (delimiter set, template name, source[, further templates], add_raw_template | add_raw_templates | render_str, stack); non-trivial = its delimiter set is accepted by set_delimiters so the source reaches the lexer and parser; distinct by (delimiter set, source)".into();
    report.write(&out_path());
}

