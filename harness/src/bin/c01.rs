//! C01 — autoescaping: data never reaches an autoescaped output unescaped.
//!
//! A *routing generator* sends a context value (string, bytes, number, array, map …) / string literal /
//! operator result / `super()` to an output through chains of routing constructs (set, loops, captures,
//! filter sections, includes, blocks, inheritance + super(), component argument / body / result,
//! index / slice, pass-through filters, concatenation, string filters), under randomised autoescape
//! settings (suffix lists via `autoescape_on` before or after adding templates, template names that
//! end with / only contain / lack a suffix, `render_str` flag, `one_off`, `render_block`, a configured
//! escape function).  Every case is
//!   * rendered by the real engine,
//!   * sent, as the SafeFlow program the chain denotes, to the Lean model (`drv_c01`)  — correspondence,
//!   * judged by direct oracles that do not look at the model:
//!       O1  all participating templates autoescaped and no `safe`  ⇒ the output contains none of
//!           `< > " '` (literal template text is generated free of them; data is made of them); with
//!           the configured escaper `(lt)(gt)(amp)(q)(a)` not even `&`;
//!       O2  a value marked `| safe` (or made by a filter / function registered `is_safe`) is written
//!           verbatim (value-preserving chains);
//!       O3  with autoescape off everywhere every value is written verbatim;
//!       O4  a captured / component / super() / included text printed as is equals the same body
//!           rendered inline (no double escaping), and the inline body is escaped exactly once;
//!       O5  with a configured escape function every data byte goes through it — known finding
//!           F10 (bool / number bypass it) is recognised by shape, anything else is reported;
//!       O6  the autoescape flag of `render_component` decides for the component, the templates it
//!           includes and the components those call, whatever their names say.
//! Engine-only streams: V (every public way of making a string `Value` — `From<char | &str | String |
//! Cow | Key | Option>`, serde, collections of chars, custom filters / functions of every string-like
//! return type — × texts of 0 … 200 bytes around the 21 / 22-byte inline / heap boundary × every mint
//! point: registered-safe filters and functions, `call_filter`, `| safe`, captures, component results /
//! bodies / arguments, `super()`, pre-marked context values, the API `body`), W (every builtin filter / test / function / operator / statement on the
//! hostile context under O1), X (the escaper itself over every short string of special, neighbouring
//! and multi-byte characters: called directly, through both sinks, a capture, a filter and a loop,
//! against the five-replacement reference and the Lean `escapeHtml`), and the scalar-alphabet
//! assumption behind `escape_id_on_scalars` (text of random floats / integers).
//! Exhaustive: every chain of ≤ 3 (quick) / ≤ 4 (thorough) constructs over 41 construct variants.
use serde::{Deserialize, Serialize};
use std::collections::BTreeMap;
use tera::{Context, Tera, Value};
use tera_verif_harness::report::{out_path, replay_path, Report};
use tera_verif_harness::rng::Rng;
use tera_verif_harness::wire::hex;
use tera_verif_harness::{catch, driver, quiet_panics, Env};

// ------------------------------------------------------------------ data pools

/// Hostile strings: permutations of the special characters, alone and mixed with text and
/// multi-byte characters (no cased non-ASCII letters, no non-ASCII white space, no `\`, so that
/// `upper`/`lower`/`trim` and `{:?}` stay inside what the model implements).
const HOSTILE: &[&str] = &[
    "<>&\"'",
    "'\"&><",
    "<script>alert('x')</script>",
    "\"><img src=x onerror='1'>",
    "a<b>c&d\"e'f",
    "&amp;&lt;<",
    "日<本>\"語'&",
    "😀<😀>",
    "'",
    "\"",
    "<",
    ">",
    "&",
    "x' onmouseover=\"y",
    "  <pad>  ",
    "€→<→€'",
    "",
    "plain",
    "&&&&<<<<>>>>\"\"\"\"''''",
    "Abc<Def>",
];

/// strings with the code points `impl Debug for str` writes as `\u{..}` beyond ASCII (U+007F, C1
/// controls, U+00A0, U+00AD, combining marks, U+1680, U+2000–U+200F, U+2028–U+202F, U+205F–U+206F,
/// U+3000, U+FEFF) next to special characters: placed inside arrays and maps, where strings are
/// printed with `{:?}` before being escaped
const DEBUG_CPS: &[&str] = &[
    "a\u{a0}<b",
    "x\u{ad}'y",
    "e\u{301}>\"o\u{308}\u{36f}",
    "\u{1680}<ogham",
    "q\u{2003}\u{200b}&\u{200f}",
    "l\u{2028}<\u{2029}\u{202f}",
    "m\u{205f}\u{2060}>\u{206f}",
    "w\u{3000}'\u{2000}",
    "\u{feff}<bom",
    "c\u{7f}\u{85}\u{1}<\u{9f}",
    "\u{a0}",
    "\u{300}",
];

/// literal template text: free of `< > " '` (and of `{`, `[[`, `]]`)
const LITS: &[&str] = &["L:", " + ", "·日·", "|x|", "a=b;", "\n", "¿ ", "%)(", "T-"];

/// string literals used inside expressions (these are data)
const EXPR_LITS: &[&str] = &["<i>", "it's", "q\"q", "&<>\"'", "日'本", "z"];

fn quote(s: &str) -> String {
    let mut o = String::from("\"");
    for c in s.chars() {
        match c {
            '"' => o.push_str("\\\""),
            '\\' => o.push_str("\\\\"),
            '\n' => o.push_str("\\n"),
            _ => o.push(c),
        }
    }
    o.push('"');
    o
}

fn hostile_perm(rng: &mut Rng) -> String {
    // a fresh permutation of the five specials, optionally interleaved with text
    let mut cs: Vec<char> = "<>&\"'".chars().collect();
    for i in (1..cs.len()).rev() {
        cs.swap(i, rng.below(i + 1));
    }
    let fill = ["", "a", "日", "😀", "Zz", " "];
    let mut s = String::new();
    for c in cs {
        s.push(c);
        s.push_str(fill[rng.below(fill.len())]);
    }
    s
}

fn make_context(rng: &mut Rng, idx: usize) -> BTreeMap<String, Value> {
    let pick = |rng: &mut Rng| -> String {
        if rng.chance(1, 8) {
            DEBUG_CPS[rng.below(DEBUG_CPS.len())].to_string()
        } else if rng.chance(1, 3) {
            hostile_perm(rng)
        } else {
            HOSTILE[rng.below(HOSTILE.len())].to_string()
        }
    };
    let mut m = BTreeMap::new();
    let s1 = if idx == 0 { "<>&\"'".to_string() } else { pick(rng) };
    m.insert("s1".to_string(), Value::from(s1));
    m.insert("s2".to_string(), Value::from(pick(rng)));
    let mut arr: Vec<Value> = (0..2 + rng.below(2)).map(|_| Value::from(pick(rng))).collect();
    // directed: `{:?}`-escaped code points inside the array / maps of every context
    let dbg = |j: usize| DEBUG_CPS[(idx * 5 + j) % DEBUG_CPS.len()];
    arr.push(Value::from(dbg(0)));
    arr.push(Value::from(dbg(1)));
    m.insert("arr".to_string(), Value::from(arr));
    let mut mp = tera::Map::new();
    mp.insert("k".into(), Value::from(pick(rng)));
    mp.insert("u".into(), Value::from(dbg(2)));
    mp.insert(dbg(3).to_string().into(), Value::from("v"));
    mp.insert("q\"<".into(), Value::from(pick(rng)));
    m.insert("m".to_string(), Value::from(mp));
    let mut inner = tera::Map::new();
    inner.insert("k".into(), Value::from(pick(rng)));
    inner.insert("list".into(), Value::from(vec![Value::from(pick(rng)), Value::from(pick(rng)), Value::from(dbg(4))]));
    let mut nest = tera::Map::new();
    nest.insert("inner".into(), Value::from(inner));
    m.insert("nest".to_string(), Value::from(nest));
    let ints: [i64; 5] = [0, -7, 42, i64::MIN, 1234567890123];
    m.insert("n".to_string(), Value::from(ints[rng.below(ints.len())]));
    m.insert("b".to_string(), Value::from(rng.chance(1, 2)));
    let fs = [1.5f64, -0.0, 1e300, f64::NAN, f64::NEG_INFINITY, 1e-7, 3.0];
    m.insert("f".to_string(), Value::from(if idx == 0 { f64::NAN } else { fs[rng.below(fs.len())] }));
    m.insert("nn".to_string(), Value::none());
    // (no cased non-ASCII letters: `upper` / `lower` stay inside what the model implements)
    let bys: [&[u8]; 5] = [b"<>&\"'", b"x>y", b"\xff<\xfe'", "日>本".as_bytes(), "日\"本'".as_bytes()];
    m.insert("by".to_string(), Value::bytes(bys[(idx + rng.below(2)) % bys.len()].to_vec()));
    m
}

/// value → token of the model's wire format (scalars travel as their formatted text)
fn tval(v: &Value) -> String {
    use tera::value::ValueKind as K;
    match v.kind() {
        K::Undefined => "U".into(),
        K::None => "N".into(),
        K::Bool | K::U64 | K::I64 | K::U128 | K::I128 | K::F64 => format!("c:{}", hex(format!("{v}").as_bytes())),
        K::String => format!("{}:{}", if v.is_safe() { "S" } else { "s" }, hex(v.as_str().unwrap().as_bytes())),
        K::Bytes => format!("y:{}", hex(String::from_utf8_lossy(v.as_bytes().unwrap()).as_bytes())),
        K::Array => {
            let a = v.as_array().unwrap();
            let mut s = format!("A{}", a.len());
            for x in a {
                s.push(' ');
                s.push_str(&tval(x));
            }
            s
        }
        K::Map => {
            let m = v.as_map().unwrap();
            let mut es: Vec<_> = m.iter().collect();
            es.sort_by(|a, b| a.0.cmp(b.0));
            let mut s = format!("M{}", es.len());
            for (k, x) in es {
                s.push_str(&format!(" k:{} {}", hex(k.as_str().unwrap_or("?").as_bytes()), tval(x)));
            }
            s
        }
        _ => "U".into(),
    }
}

// ------------------------------------------------------------------ case description

#[derive(Clone, Debug, Serialize, Deserialize, PartialEq)]
enum Src {
    Var(String),
    /// (template expression, model tokens)
    Path(String, Vec<String>),
    StrLit(usize),
    Concat,
    Num,
    Bool,
    Float,
    NoneV,
    Arr,
    Map,
    /// `super()` of the parent block (inheritance mode only)
    Super,
    /// a bytes value
    Bytes,
    /// harmless text explicitly marked safe (`"zz" | safe`): what follows it must still be escaped
    SafeLit,
}

#[derive(Clone, Debug, Serialize, Deserialize, PartialEq)]
enum C {
    Set,
    LoopWrap,
    LoopOver,
    LoopChars,
    Capture(usize),
    FilterSection(u8),
    Include,
    Block,
    /// 0 plain `a={E}`, 1 typed param, 2 spread, 3 shorthand
    CompArg(u8),
    CompBody(usize),
    CompResult(usize),
    Index(i64),
    Slice(Option<i64>, Option<i64>, Option<i64>),
    Attr,
    Default(usize),
    First,
    Last,
    Nth,
    Get,
    Join(usize),
    ReverseArr,
    ReverseStr,
    ConcatLit(usize, bool),
    ConcatVar,
    ConcatNum,
    Upper,
    Lower,
    Trim,
    Replace(u8),
    EscapeFilter,
    Safe,
    WrapArr,
    WrapMap,
}

fn all_constructs() -> Vec<C> {
    vec![
        C::Set,
        C::LoopWrap,
        C::LoopOver,
        C::LoopChars,
        C::Capture(0),
        C::FilterSection(0),
        C::FilterSection(1),
        C::Include,
        C::Block,
        C::CompArg(0),
        C::CompArg(1),
        C::CompArg(2),
        C::CompArg(3),
        C::CompBody(1),
        C::CompResult(2),
        C::Index(0),
        C::Index(-1),
        C::Slice(Some(1), None, None),
        C::Slice(None, None, Some(-1)),
        C::Slice(Some(-3), Some(-1), None),
        C::Attr,
        C::Default(3),
        C::First,
        C::Last,
        C::Nth,
        C::Get,
        C::Join(3),
        C::ReverseArr,
        C::ReverseStr,
        C::ConcatLit(0, false),
        C::ConcatLit(3, true),
        C::ConcatVar,
        C::ConcatNum,
        C::Upper,
        C::Lower,
        C::Trim,
        C::Replace(0),
        C::Replace(1),
        C::EscapeFilter,
        C::WrapArr,
        C::WrapMap,
    ]
}

fn cname(c: &C) -> &'static str {
    match c {
        C::Set => "set",
        C::LoopWrap => "loop-wrap",
        C::LoopOver => "loop-over",
        C::LoopChars => "loop-chars",
        C::Capture(_) => "capture",
        C::FilterSection(_) => "filter-section",
        C::Include => "include",
        C::Block => "block",
        C::CompArg(_) => "component-arg",
        C::CompBody(_) => "component-body",
        C::CompResult(_) => "component-result",
        C::Index(_) => "index",
        C::Slice(..) => "slice",
        C::Attr => "attr",
        C::Default(_) => "default",
        C::First => "first",
        C::Last => "last",
        C::Nth => "nth",
        C::Get => "get",
        C::Join(_) => "join",
        C::ReverseArr => "reverse-array",
        C::ReverseStr => "reverse-string",
        C::ConcatLit(..) => "concat-literal",
        C::ConcatVar => "concat-var",
        C::ConcatNum => "concat-number",
        C::Upper => "upper",
        C::Lower => "lower",
        C::Trim => "trim",
        C::Replace(_) => "replace",
        C::EscapeFilter => "escape_html",
        C::Safe => "safe",
        C::WrapArr => "wrap-array",
        C::WrapMap => "wrap-map",
    }
}

#[derive(Clone, Debug, Serialize, Deserialize, PartialEq)]
enum Api {
    Render,
    RenderStr(bool),
    OneOff(bool),
    /// `Tera::render_block(child, "main", ..)` (inheritance mode only): the block's text alone
    RenderBlock,
}

#[derive(Clone, Debug, Serialize, Deserialize, PartialEq)]
struct Settings {
    /// None = the engine's default suffix list
    suffixes: Option<Vec<String>>,
    /// call `autoescape_on` after adding the templates (else before)
    suffix_after: bool,
    /// wanted autoescape flag of template i (bit i); what a name can get depends on the list
    ae_bits: u64,
    api: Api,
    /// root template is a child `{% extends %}` whose chain lives in a block
    inherit: bool,
    /// final expression gets `| safe`
    final_safe: bool,
    /// `set_escape_fn` with the escaper `<` ↦ `(lt)` (every other byte copied)
    #[serde(default)]
    custom_escaper: bool,
}

#[derive(Clone, Debug, Serialize, Deserialize)]
struct CaseSpec {
    src: Src,
    chain: Vec<C>,
    settings: Settings,
    ctx: BTreeMap<String, String>, // name -> wire encoding (harness wire, not model wire)
}

// ------------------------------------------------------------------ builder

#[derive(Clone, Copy, PartialEq, Debug)]
enum Kind {
    Str,
    Arr,
    Map,
    Scalar,
    NoneK,
    Bytes,
}

struct Tpl {
    name: String,
    src: String,
    ae: bool,
    /// may `{% block %}` be opened here (root / include, not a component template)
    blocks_ok: bool,
}

struct Scope {
    close_text: String,
    close_prog: Vec<String>,
    back_to: Option<usize>,
}

struct Builder<'a> {
    st: &'a Settings,
    suffixes: Vec<String>,
    tpls: Vec<Tpl>,
    cur: usize,
    prog: Vec<String>,
    scopes: Vec<Scope>,
    expr: String,
    eprog: Vec<String>,
    kind: Kind,
    /// 2 = path (index / filter / anything), 1 = filter chain, 0 = needs a `set` before postfix ops
    level: u8,
    n: usize,
    in_loop: bool,
    uses_safe: bool,
    /// harmless literal text was marked safe (`Src::SafeLit`): the direct oracles still apply, the
    /// model program is not `clean`
    safe_lit: bool,
    /// every construct so far hands the source value on unchanged
    preserving: bool,
    /// the run-time kind of the current value is known (no index / lookup that may miss)
    certain: bool,
    /// the current array / map was built around a value that is not a string: its elements are not
    /// taken out again (the generator tracks element kinds only for strings)
    wrapped_non_str: bool,
    parent_block: Option<(String, Vec<String>)>,
}

fn default_suffixes() -> Vec<String> {
    vec![".html".into(), ".htm".into(), ".xml".into()]
}

fn flag_of(name: &str, suffixes: &[String]) -> bool {
    suffixes.iter().any(|s| name.ends_with(s.as_str()))
}

impl<'a> Builder<'a> {
    fn new(st: &'a Settings) -> Self {
        let suffixes = st.suffixes.clone().unwrap_or_else(default_suffixes);
        Builder {
            st,
            suffixes,
            tpls: Vec::new(),
            cur: 0,
            prog: Vec::new(),
            scopes: Vec::new(),
            expr: String::new(),
            eprog: Vec::new(),
            kind: Kind::Str,
            level: 2,
            n: 0,
            in_loop: false,
            uses_safe: false,
            safe_lit: false,
            preserving: true,
            certain: true,
            wrapped_non_str: false,
            parent_block: None,
        }
    }

    fn new_tpl(&mut self, stem: &str, blocks_ok: bool) -> usize {
        let i = self.tpls.len();
        let want = (self.st.ae_bits >> (i % 64)) & 1 == 1;
        let on_sfx = self.suffixes.first().cloned();
        let name = if want && on_sfx.is_some() {
            format!("{stem}{i}{}", on_sfx.unwrap())
        } else {
            // an "off" name may still *contain* a listed suffix, just not end with it
            let mid = on_sfx.clone().filter(|s| !s.is_empty() && i % 2 == 1).map(|s| format!("{s}.bak"));
            let cands: Vec<String> = mid.into_iter().chain([".txt", ".md", ".HTML", ".htmlx", ""].iter().map(|s| s.to_string())).collect();
            let mut chosen = None;
            for c in &cands {
                let nm = format!("{stem}{i}{c}");
                if !flag_of(&nm, &self.suffixes) {
                    chosen = Some(nm);
                    break;
                }
            }
            chosen.unwrap_or_else(|| format!("{stem}{i}"))
        };
        let ae = flag_of(&name, &self.suffixes);
        self.tpls.push(Tpl { name, src: String::new(), ae, blocks_ok });
        i
    }

    fn fresh(&mut self, p: &str) -> String {
        self.n += 1;
        format!("{p}{}", self.n)
    }

    fn text(&mut self, s: &str) {
        let c = self.cur;
        self.tpls[c].src.push_str(s);
    }

    fn lit(&mut self, i: usize) {
        let l = LITS[i % LITS.len()];
        self.text(l);
        self.prog.push(format!("txt:{}", hex(l.as_bytes())));
    }

    fn set_cur_var(&mut self, v: &str, kind: Kind) {
        self.expr = v.to_string();
        self.eprog = vec![format!("ld:{v}")];
        self.kind = kind;
        self.level = 2;
    }

    fn do_set(&mut self) {
        let v = self.fresh("v");
        let e = self.expr.clone();
        self.text(&format!("{{% set {v} = {e} %}}"));
        let ep = self.eprog.clone();
        self.prog.extend(ep);
        self.prog.push(format!("set:{v}"));
        let k = self.kind;
        self.set_cur_var(&v, k);
    }

    fn ensure_level(&mut self, l: u8) {
        if self.level < l {
            self.do_set();
        }
    }

    fn is_ident(&self) -> bool {
        self.expr.chars().all(|c| c.is_ascii_alphanumeric() || c == '_') && !self.expr.is_empty()
    }

    fn filter(&mut self, text: &str, tok: String) {
        self.ensure_level(1);
        self.expr = format!("{} | {}", self.expr, text);
        self.eprog.push(tok);
        self.level = 1;
    }

    fn source(&mut self, src: &Src) -> bool {
        match src {
            Src::Var(v) => self.set_cur_var(v, Kind::Str),
            Src::Path(e, toks) => {
                self.expr = e.clone();
                self.eprog = toks.clone();
                self.kind = Kind::Str;
                self.level = 2;
                self.certain = false;
            }
            Src::StrLit(i) => {
                let l = EXPR_LITS[i % EXPR_LITS.len()];
                self.expr = quote(l);
                self.eprog = vec![format!("sl:{}", hex(l.as_bytes()))];
                self.kind = Kind::Str;
                self.level = 1;
            }
            Src::Concat => {
                self.expr = "s1 ~ s2".into();
                self.eprog = vec!["ld:s1".into(), "ld:s2".into(), "cat".into()];
                self.kind = Kind::Str;
                self.level = 0;
            }
            Src::Num => self.set_cur_var("n", Kind::Scalar),
            Src::Bool => self.set_cur_var("b", Kind::Scalar),
            Src::Float => self.set_cur_var("f", Kind::Scalar),
            Src::NoneV => self.set_cur_var("nn", Kind::NoneK),
            Src::Arr => self.set_cur_var("arr", Kind::Arr),
            Src::Map => self.set_cur_var("m", Kind::Map),
            Src::Bytes => self.set_cur_var("by", Kind::Bytes),
            Src::SafeLit => {
                self.expr = "\"zz\" | safe".into();
                self.eprog = vec![format!("sl:{}", hex(b"zz")), "safe".into()];
                self.kind = Kind::Str;
                self.level = 1;
                self.preserving = false;
                self.safe_lit = true;
            }
            Src::Super => {
                let Some((_, pprog)) = self.parent_block.clone() else { return false };
                self.expr = "super()".into();
                let mut t = vec!["super".to_string()];
                t.extend(pprog);
                t.push(".".into());
                self.eprog = t;
                self.kind = Kind::Str;
                self.level = 0;
                self.preserving = false;
                // a variable first: super() is only valid directly in the block
                self.do_set();
            }
        }
        true
    }

    /// open a component definition template; returns (component name)
    fn open_component(&mut self, params: &str) -> String {
        let cn = self.fresh("c");
        let back = self.cur;
        let t = self.new_tpl("comp", false);
        self.cur = t;
        self.text(&format!("{{% component {cn}({params}) %}}"));
        self.scopes.push(Scope {
            close_text: format!("{{% endcomponent {cn} %}}"),
            close_prog: vec![".".into(), "w".into()],
            back_to: Some(back),
        });
        self.in_loop = false;
        cn
    }

    fn apply(&mut self, c: &C) -> bool {
        use Kind::*;
        if !matches!(self.kind, Arr | Map) {
            self.wrapped_non_str = false;
        }
        let str_like = self.kind == Str;
        match c {
            C::Set => self.do_set(),
            C::LoopWrap => {
                let v = self.fresh("v");
                let e = self.expr.clone();
                self.text(&format!("{{% for {v} in [{e}] %}}"));
                let ep = self.eprog.clone();
                self.prog.extend(ep);
                self.prog.push("arr:1".into());
                self.prog.push(format!("for:{v}"));
                self.scopes.push(Scope { close_text: "{% endfor %}".into(), close_prog: vec![".".into()], back_to: None });
                let k = self.kind;
                self.set_cur_var(&v, k);
                self.in_loop = true;
            }
            C::LoopOver | C::LoopChars => {
                if (*c == C::LoopOver && (self.kind != Arr || self.wrapped_non_str)) || (*c == C::LoopChars && !str_like) {
                    return false;
                }
                self.ensure_level(1);
                let v = self.fresh("v");
                let e = self.expr.clone();
                self.text(&format!("{{% for {v} in {e} %}}"));
                let ep = self.eprog.clone();
                self.prog.extend(ep);
                self.prog.push(format!("for:{v}"));
                self.scopes.push(Scope { close_text: "{% endfor %}".into(), close_prog: vec![".".into()], back_to: None });
                self.set_cur_var(&v, Str);
                self.in_loop = true;
                self.preserving = false;
                if *c == C::LoopOver {
                    self.certain = false;
                }
            }
            C::Capture(l) => {
                let v = self.fresh("v");
                self.text(&format!("{{% set {v} %}}"));
                self.prog.push("cap".into());
                self.lit(*l);
                let e = self.expr.clone();
                self.text(&format!("{{{{ {e} }}}}{{% endset %}}"));
                let ep = self.eprog.clone();
                self.prog.extend(ep);
                self.prog.extend(["w".to_string(), "endcap".into(), format!("set:{v}")]);
                self.set_cur_var(&v, Str);
                self.preserving = false;
            }
            C::FilterSection(f) => {
                let (fname, tok) = match f % 3 {
                    0 => ("upper", "fn:upper"),
                    1 => ("trim", "fn:trim"),
                    _ => ("lower", "fn:lower"),
                };
                let v = self.fresh("v");
                let e = self.expr.clone();
                self.text(&format!("{{% set {v} %}}{{% filter {fname} %}}{{{{ {e} }}}}{{% endfilter %}}{{% endset %}}"));
                self.prog.extend(["cap".to_string(), "cap".into()]);
                let ep = self.eprog.clone();
                self.prog.extend(ep);
                self.prog.extend(["w".to_string(), "endcap".into(), tok.into(), "w".into(), "endcap".into(), format!("set:{v}")]);
                self.set_cur_var(&v, Str);
                self.preserving = false;
            }
            C::Include => {
                if matches!(self.st.api, Api::OneOff(_)) {
                    return false;
                }
                if !self.is_ident() {
                    self.do_set();
                }
                let back = self.cur;
                let t = self.new_tpl("inc", true);
                let name = self.tpls[t].name.clone();
                let ae = self.tpls[t].ae;
                self.text(&format!("{{% include {} %}}", quote(&name)));
                self.prog.push(format!("incl:{}", if ae { 1 } else { 0 }));
                self.cur = t;
                self.scopes.push(Scope { close_text: String::new(), close_prog: vec![".".into()], back_to: Some(back) });
                self.in_loop = false;
            }
            C::Block => {
                if self.in_loop || !self.tpls[self.cur].blocks_ok || (self.cur == 0 && self.st.api != Api::Render && self.st.api != Api::RenderBlock) {
                    return false;
                }
                let b = self.fresh("blk");
                self.text(&format!("{{% block {b} %}}"));
                self.prog.push("block".into());
                self.scopes.push(Scope { close_text: format!("{{% endblock {b} %}}"), close_prog: vec![".".into()], back_to: None });
            }
            C::CompArg(variant) => {
                if matches!(self.st.api, Api::OneOff(_)) {
                    return false;
                }
                if self.expr.contains('}') {
                    self.do_set();
                }
                let e = self.expr.clone();
                let ep = self.eprog.clone();
                let variant = if *variant == 3 && (!self.is_ident() || self.expr == "body") { 0 } else { *variant };
                let variant = if variant == 1 && !self.certain { 0 } else { variant };
                let pname = if variant == 3 { e.clone() } else { "a".to_string() };
                let tyname = match self.kind {
                    Str => "string",
                    Arr => "array",
                    Map => "map",
                    Bytes => "bytes",
                    _ => "",
                };
                let params = if variant == 1 && !tyname.is_empty() { format!("{pname}: {tyname}") } else { pname.clone() };
                // the call is written in the current template before switching
                let call = match variant {
                    2 => format!("{{{{ <CNAME {{...{{\"{pname}\": {e}}} }}/> }}}}"),
                    3 => format!("{{{{ <CNAME {pname}/> }}}}"),
                    _ => format!("{{{{ <CNAME {pname}={{{e}}}/> }}}}"),
                };
                let here = self.cur;
                let cn = self.open_component(&params);
                self.tpls[here].src.push_str(&call.replace("CNAME", &cn));
                self.prog.push(format!("comp:{pname}:0"));
                self.prog.extend(ep);
                self.prog.push(".".into());
                let k = self.kind;
                self.set_cur_var(&pname, k);
            }
            C::CompBody(l) => {
                if matches!(self.st.api, Api::OneOff(_)) {
                    return false;
                }
                let e = self.expr.clone();
                let ep = self.eprog.clone();
                let here = self.cur;
                let cn = self.open_component("");
                let lit = LITS[*l % LITS.len()];
                self.tpls[here].src.push_str(&format!("{{% <{cn}> %}}{lit}{{{{ {e} }}}}{{% </{cn}> %}}"));
                self.prog.push("comp::1".into());
                self.prog.push(format!("txt:{}", hex(lit.as_bytes())));
                self.prog.extend(ep);
                self.prog.extend(["w".to_string(), ".".into(), ".".into()]);
                self.set_cur_var("body", Str);
                self.preserving = false;
            }
            C::CompResult(l) => {
                if matches!(self.st.api, Api::OneOff(_)) {
                    return false;
                }
                if self.expr.contains('}') {
                    self.do_set();
                }
                let e = self.expr.clone();
                let ep = self.eprog.clone();
                let cn = self.fresh("c");
                let lit = LITS[*l % LITS.len()];
                let t = self.new_tpl("comp", false);
                self.tpls[t].src = format!("{{% component {cn}(a) %}}{lit}{{{{ a }}}}{{% endcomponent {cn} %}}");
                let v = self.fresh("v");
                self.text(&format!("{{% set {v} = <{cn} a={{{e}}}/> %}}"));
                self.prog.push("comp:a:0".into());
                self.prog.extend(ep);
                self.prog.push(".".into());
                self.prog.extend([format!("txt:{}", hex(lit.as_bytes())), "ld:a".into(), "w".into(), ".".into(), format!("set:{v}")]);
                self.set_cur_var(&v, Str);
                self.preserving = false;
            }
            C::Index(i) => {
                if !(str_like || self.kind == Arr) || (self.kind == Arr && self.wrapped_non_str) {
                    return false;
                }
                self.ensure_level(2);
                self.expr = format!("{}[{}]", self.expr, i);
                self.eprog.push(format!("ix:{i}"));
                self.kind = Str;
                self.preserving = false;
                self.certain = false;
            }
            C::Slice(a, b, s) => {
                if !(str_like || self.kind == Arr) {
                    return false;
                }
                self.ensure_level(2);
                let f = |x: &Option<i64>| x.map(|v| v.to_string()).unwrap_or_default();
                let g = |x: &Option<i64>| x.map(|v| v.to_string()).unwrap_or_else(|| "_".into());
                let txt = if s.is_some() { format!("[{}:{}:{}]", f(a), f(b), f(s)) } else { format!("[{}:{}]", f(a), f(b)) };
                self.expr = format!("{}{}", self.expr, txt);
                self.eprog.push(format!("slc:{}:{}:{}", g(a), g(b), g(s)));
                self.preserving = false;
            }
            C::Attr => {
                if self.kind != Map || self.wrapped_non_str {
                    return false;
                }
                self.ensure_level(2);
                self.expr = format!("{}.k", self.expr);
                self.eprog.push(format!("at:{}", hex(b"k")));
                self.kind = Str;
                self.preserving = false;
                self.certain = false;
            }
            C::Default(l) => {
                let d = EXPR_LITS[*l % EXPR_LITS.len()];
                self.filter(&format!("default(value={})", quote(d)), format!("df:{}", hex(d.as_bytes())));
            }
            C::First | C::Last | C::Nth => {
                let (t, tok) = match c {
                    C::First => ("first", "first"),
                    C::Last => ("last", "last"),
                    _ => ("nth(n=0)", "nth:0"),
                };
                if self.kind == Arr {
                    if self.wrapped_non_str {
                        return false;
                    }
                    self.filter(t, tok.into());
                    self.kind = Str;
                    self.preserving = false;
                    self.certain = false;
                } else {
                    // wrap, then unwrap: hands the value on unchanged
                    if self.expr.contains('[') || self.level == 0 {
                        self.do_set();
                    }
                    let e = self.expr.clone();
                    self.expr = format!("[{e}] | {t}");
                    self.eprog.push("arr:1".into());
                    self.eprog.push(tok.into());
                    self.level = 1;
                }
            }
            C::Get => {
                if self.kind == Map {
                    if self.wrapped_non_str {
                        return false;
                    }
                    self.filter("get(key=\"k\")", format!("get:{}", hex(b"k")));
                    self.kind = Str;
                    self.preserving = false;
                    self.certain = false;
                } else {
                    if self.expr.contains('}') {
                        self.do_set();
                    }
                    let e = self.expr.clone();
                    self.expr = format!("{{\"kk\": {e}}} | get(key=\"kk\")");
                    self.eprog.push(format!("map:{}", hex(b"kk")));
                    self.eprog.push(format!("get:{}", hex(b"kk")));
                    self.level = 1;
                }
            }
            C::Join(l) => {
                let d = EXPR_LITS[*l % EXPR_LITS.len()];
                if self.kind == Arr {
                    self.filter(&format!("join(sep={})", quote(d)), format!("join:{}", hex(d.as_bytes())));
                    self.wrapped_non_str = false;
                } else {
                    if self.expr.contains('[') {
                        self.do_set();
                    }
                    let e = self.expr.clone();
                    self.expr = format!("[{e}, s2] | join(sep={})", quote(d));
                    self.eprog.push("ld:s2".into());
                    self.eprog.push("arr:2".into());
                    self.eprog.push(format!("join:{}", hex(d.as_bytes())));
                    self.level = 1;
                }
                self.kind = Str;
                self.preserving = false;
            }
            C::ReverseArr => {
                if self.kind == Arr {
                    self.filter("reverse", "rev".into());
                    self.preserving = false;
                } else {
                    if self.expr.contains('[') {
                        self.do_set();
                    }
                    let e = self.expr.clone();
                    self.expr = format!("[s2, {e}] | reverse | first");
                    let mut t = vec!["ld:s2".to_string()];
                    t.extend(self.eprog.clone());
                    t.extend(["arr:2".to_string(), "rev".into(), "first".into()]);
                    self.eprog = t;
                    self.level = 1;
                }
            }
            C::ReverseStr => {
                if !str_like {
                    return false;
                }
                self.filter("reverse", "rev".into());
                self.preserving = false;
            }
            C::ConcatLit(l, left) => {
                let d = EXPR_LITS[*l % EXPR_LITS.len()];
                self.ensure_level(1);
                if self.level == 1 {
                    // `a | f ~ b`: keep the filter chain on one operand by naming it first
                    self.do_set();
                }
                if *left {
                    self.expr = format!("{} ~ {}", quote(d), self.expr);
                    let mut t = vec![format!("sl:{}", hex(d.as_bytes()))];
                    t.extend(self.eprog.clone());
                    t.push("cat".into());
                    self.eprog = t;
                } else {
                    self.expr = format!("{} ~ {}", self.expr, quote(d));
                    self.eprog.push(format!("sl:{}", hex(d.as_bytes())));
                    self.eprog.push("cat".into());
                }
                self.kind = Str;
                self.level = 0;
                self.preserving = false;
            }
            C::ConcatVar | C::ConcatNum => {
                self.ensure_level(2);
                let o = if *c == C::ConcatVar { "s2" } else { "n" };
                self.expr = format!("{} ~ {o}", self.expr);
                self.eprog.push(format!("ld:{o}"));
                self.eprog.push("cat".into());
                self.kind = Str;
                self.level = 0;
                self.preserving = false;
            }
            C::Upper | C::Lower | C::Trim | C::EscapeFilter | C::Replace(_) => {
                if !str_like {
                    return false;
                }
                let (t, tok): (String, String) = match c {
                    C::Upper => ("upper".into(), "fn:upper".into()),
                    C::Lower => ("lower".into(), "fn:lower".into()),
                    C::Trim => ("trim".into(), "fn:trim".into()),
                    C::EscapeFilter => ("escape_html".into(), "fn:esc".into()),
                    C::Replace(v) => {
                        let (from, to) = if v % 2 == 0 { ("a", "<\"") } else { ("&", "'>") };
                        (format!("replace(from={}, to={})", quote(from), quote(to)), format!("rep:{}:{}", hex(from.as_bytes()), hex(to.as_bytes())))
                    }
                    _ => unreachable!(),
                };
                self.filter(&t, tok);
                self.preserving = false;
            }
            C::Safe => {
                self.filter("safe", "safe".into());
                self.kind = Str;
                self.uses_safe = true;
            }
            C::WrapArr => {
                if self.kind != Str {
                    self.wrapped_non_str = true;
                }
                if self.expr.contains('[') {
                    self.do_set();
                }
                let e = self.expr.clone();
                self.expr = format!("[{e}, {}]", quote("x<'"));
                self.eprog.push(format!("sl:{}", hex("x<'".as_bytes())));
                self.eprog.push("arr:2".into());
                self.kind = Arr;
                self.level = 1;
                self.preserving = false;
            }
            C::WrapMap => {
                if self.kind != Str {
                    self.wrapped_non_str = true;
                }
                if self.expr.contains('}') {
                    self.do_set();
                }
                let e = self.expr.clone();
                self.expr = format!("{{\"k\": {e}}}");
                self.eprog.push(format!("map:{}", hex(b"k")));
                self.kind = Map;
                self.level = 1;
                self.preserving = false;
            }
        }
        true
    }
}

struct Built {
    /// (name, source, autoescape flag by name)
    tpls: Vec<(String, String, bool)>,
    prog: String,
    root_ae: bool,
    all_on: bool,
    all_off: bool,
    uses_safe: bool,
    safe_lit: bool,
    preserving: bool,
    final_is_path: bool,
    n_templates: usize,
}

const OPEN: &str = "[[";
const CLOSE: &str = "]]";

fn build(spec: &CaseSpec) -> Option<Built> {
    let st = &spec.settings;
    let mut b = Builder::new(st);
    b.new_tpl("root", true);
    let mut base_idx = None;
    if st.api == Api::RenderBlock && !st.inherit {
        return None;
    }
    if st.inherit {
        if st.api != Api::Render && st.api != Api::RenderBlock {
            return None;
        }
        let bi = b.new_tpl("base", true);
        base_idx = Some(bi);
        let base_name = b.tpls[bi].name.clone();
        // parent: PRE{% block main %}P:{{ s1 }}{% endblock main %}POST
        b.tpls[bi].src = "PRE|{% block main %}P:{{ s1 }}{% endblock main %}|POST".into();
        let pprog = vec![format!("txt:{}", hex(b"P:")), "ld:s1".into(), "w".into()];
        b.parent_block = Some(("main".into(), pprog));
        b.cur = 0;
        b.text(&format!("{{% extends {} %}}{{% block main %}}", quote(&base_name)));
        if st.api == Api::RenderBlock {
            // only the selected block's chunk contributes
            b.scopes.push(Scope { close_text: "{% endblock main %}".into(), close_prog: vec![], back_to: None });
        } else {
            b.prog.push(format!("txt:{}", hex(b"PRE|")));
            b.prog.push("block".into());
            b.scopes.push(Scope {
                close_text: "{% endblock main %}".into(),
                close_prog: vec![".".into(), format!("txt:{}", hex(b"|POST"))],
                back_to: None,
            });
        }
    }
    let _ = base_idx;
    if !b.source(&spec.src) {
        return None;
    }
    for c in &spec.chain {
        if !b.apply(c) {
            return None;
        }
    }
    if st.final_safe {
        b.apply(&C::Safe);
    }
    // final write
    let e = b.expr.clone();
    let final_is_path = b.level == 2;
    b.text(&format!("{OPEN}{{{{ {e} }}}}{CLOSE}"));
    b.prog.push(format!("txt:{}", hex(OPEN.as_bytes())));
    let ep = b.eprog.clone();
    b.prog.extend(ep);
    b.prog.push("w".into());
    b.prog.push(format!("txt:{}", hex(CLOSE.as_bytes())));
    while let Some(s) = b.scopes.pop() {
        let c = b.cur;
        b.tpls[c].src.push_str(&s.close_text);
        b.prog.extend(s.close_prog);
        if let Some(back) = s.back_to {
            b.cur = back;
        }
    }
    b.prog.push(".".into());
    let root_ae = match st.api {
        Api::Render | Api::RenderBlock => b.tpls[0].ae,
        Api::RenderStr(f) | Api::OneOff(f) => f,
    };
    if matches!(st.api, Api::OneOff(_)) && b.tpls.len() > 1 {
        return None;
    }
    let others_on = b.tpls.iter().skip(1).all(|t| t.ae);
    let others_off = b.tpls.iter().skip(1).all(|t| !t.ae);
    Some(Built {
        n_templates: b.tpls.len(),
        prog: b.prog.join(" "),
        root_ae,
        all_on: root_ae && others_on,
        all_off: !root_ae && others_off,
        uses_safe: b.uses_safe,
        safe_lit: b.safe_lit,
        preserving: b.preserving,
        final_is_path,
        tpls: b.tpls.into_iter().map(|t| (t.name, t.src, t.ae)).collect(),
    })
}

fn decode_ctx(spec: &CaseSpec) -> BTreeMap<String, Value> {
    spec.ctx
        .iter()
        .map(|(k, v)| (k.clone(), tera_verif_harness::wire::decode(v).expect("ctx value")))
        .collect()
}

fn to_context(m: &BTreeMap<String, Value>) -> Context {
    let mut c = Context::new();
    for (k, v) in m {
        c.insert_value(k.clone(), v.clone());
    }
    c
}

/// "ok <hex>" | "err" | "panic <msg>"
fn run_engine(spec: &CaseSpec, built: &Built, ctx: &Context) -> String {
    let st = &spec.settings;
    let r = catch(std::panic::AssertUnwindSafe(|| -> Result<String, String> {
        if let Api::OneOff(f) = st.api {
            return Tera::one_off(&built.tpls[0].1, ctx, f).map_err(|e| format!("{e:?}"));
        }
        let mut tera = Tera::default();
        if st.custom_escaper {
            tera.set_escape_fn(lt_escaper);
        }
        if !st.suffix_after {
            if let Some(s) = &st.suffixes {
                tera.autoescape_on(s.clone());
            }
        }
        let skip_root = matches!(st.api, Api::RenderStr(_));
        let list: Vec<(String, String)> = built
            .tpls
            .iter()
            .enumerate()
            .filter(|(i, _)| !(skip_root && *i == 0))
            .map(|(_, t)| (t.0.clone(), t.1.clone()))
            .collect();
        tera.add_raw_templates(list).map_err(|e| format!("add: {e:?}"))?;
        if st.suffix_after {
            if let Some(s) = &st.suffixes {
                tera.autoescape_on(s.clone());
            }
        }
        match st.api {
            Api::Render => tera.render(&built.tpls[0].0, ctx).map_err(|e| format!("{e:?}")),
            Api::RenderBlock => tera.render_block(&built.tpls[0].0, "main", ctx).map_err(|e| format!("{e:?}")),
            Api::RenderStr(f) => tera.render_str(&built.tpls[0].1, ctx, f).map_err(|e| format!("{e:?}")),
            Api::OneOff(_) => unreachable!(),
        }
    }));
    match r {
        Err(p) => format!("panic {p}"),
        Ok(Ok(s)) => format!("ok {}", hex(s.as_bytes())),
        Ok(Err(e)) => {
            if std::env::var("VERIF_DEBUG").is_ok() {
                eprintln!("ENGINE-ERR {}", e.chars().take(400).collect::<String>());
            }
            if e.starts_with("add:") { format!("adderr {e}") } else { "err".into() }
        }
    }
}

fn model_request(spec: &CaseSpec, built: &Built, ctxm: &BTreeMap<String, Value>) -> String {
    let esc = if spec.settings.custom_escaper { "paren" } else { "html" };
    let mut s = format!("render {esc} - {} C{}", if built.root_ae { 1 } else { 0 }, ctxm.len());
    for (k, v) in ctxm {
        s.push(' ');
        s.push_str(k);
        s.push(' ');
        s.push_str(&tval(v));
    }
    s.push(' ');
    s.push_str(&built.prog);
    s
}

fn has_special(s: &str) -> Option<char> {
    s.chars().find(|c| matches!(c, '<' | '>' | '"' | '\''))
}

/// expected text of the source value for value-preserving chains
fn source_text(src: &Src, ctx: &BTreeMap<String, Value>) -> Option<String> {
    match src {
        Src::Var(v) => ctx.get(v).and_then(|x| x.as_str().map(|s| s.to_string())),
        Src::StrLit(i) => Some(EXPR_LITS[i % EXPR_LITS.len()].to_string()),
        Src::Num => ctx.get("n").map(|v| format!("{v}")),
        Src::Bool => ctx.get("b").map(|v| format!("{v}")),
        Src::Float => ctx.get("f").map(|v| format!("{v}")),
        Src::Concat => Some(format!("{}{}", ctx.get("s1")?.as_str()?, ctx.get("s2")?.as_str()?)),
        _ => None,
    }
}

fn between_markers(out: &str) -> Vec<&str> {
    let mut v = Vec::new();
    let mut rest = out;
    while let Some(i) = rest.find(OPEN) {
        let after = &rest[i + OPEN.len()..];
        match after.find(CLOSE) {
            Some(j) => {
                v.push(&after[..j]);
                rest = &after[j + CLOSE.len()..];
            }
            None => break,
        }
    }
    v
}

struct Outcome {
    imp: String,
    req: String,
    /// direct-oracle failures (name, description)
    oracle_fail: Vec<(String, String)>,
    oracle_checks: u64,
    reached: bool,
}

fn eval(spec: &CaseSpec, built: &Built) -> Outcome {
    let ctxm = decode_ctx(spec);
    let ctx = to_context(&ctxm);
    let imp = run_engine(spec, built, &ctx);
    let req = model_request(spec, built, &ctxm);
    let mut fails = Vec::new();
    let mut checks = 0;
    let mut reached = false;
    if let Some(h) = imp.strip_prefix("ok ") {
        reached = true;
        let out = String::from_utf8(tera_verif_harness::wire::unhex(h).unwrap()).unwrap_or_default();
        // O1
        if built.all_on && !built.uses_safe {
            checks += 1;
            // with the configured escaper not even `&` may appear (literal text has none): an `&`
            // betrays a sink that used the default escaper
            let bad = if spec.settings.custom_escaper { out.chars().find(|c| matches!(c, '<' | '>' | '"' | '\'' | '&')) } else { has_special(&out) };
            if let Some(c) = bad {
                fails.push(("O1-no-special-chars".to_string(), format!("autoescape on everywhere, no `safe`, yet the output contains `{c}`: {out:?}")));
            }
        }
        // O2 / O3: verbatim
        if built.preserving && ((spec.settings.final_safe && built.uses_safe) || built.all_off) {
            if let Some(want) = source_text(&spec.src, &ctxm) {
                checks += 1;
                let got = between_markers(&out);
                if got.is_empty() || got.iter().any(|g| *g != want) {
                    let which = if built.all_off { "O3-off-verbatim" } else { "O2-safe-verbatim" };
                    fails.push((which.to_string(), format!("value must be written verbatim as {want:?}, output {out:?}")));
                }
            }
        }
    } else if imp.starts_with("panic") {
        fails.push(("panic".into(), imp.clone()));
    } else if imp.starts_with("adderr") {
        // the generator only produces well-formed template sets
    }
    Outcome { imp, req, oracle_fail: fails, oracle_checks: checks, reached }
}

// ------------------------------------------------------------------ generators

fn random_settings(rng: &mut Rng, mode: u8) -> Settings {
    // mode 0: everything on, 1: everything off, 2: mixed
    let suffix_choices: Vec<Option<Vec<String>>> = vec![
        None,
        None,
        Some(vec![".html".into()]),
        Some(vec!["html".into()]),
        Some(vec![".tpl".into(), ".j2".into()]),
        Some(vec!["".into()]),
        Some(vec![]),
        Some(vec![".txt".into(), ".html".into()]),
    ];
    let mut suffixes = suffix_choices[rng.below(suffix_choices.len())].clone();
    if mode == 0 && suffixes.as_ref().is_some_and(|s| s.is_empty()) {
        suffixes = None;
    }
    if mode == 1 && suffixes.as_ref().is_some_and(|s| s.iter().any(|x| x.is_empty())) {
        suffixes = Some(vec![]);
    }
    let ae_bits = match mode {
        0 => u64::MAX,
        1 => 0,
        _ => rng.next_u64(),
    };
    let flag = match mode {
        0 => true,
        1 => false,
        _ => rng.chance(1, 2),
    };
    let api = match rng.below(10) {
        0 | 1 => Api::RenderStr(flag),
        2 => Api::OneOff(flag),
        _ => Api::Render,
    };
    let inherit = api == Api::Render && rng.chance(1, 4);
    let api = if inherit && rng.chance(1, 3) { Api::RenderBlock } else { api };
    let custom_escaper = !matches!(api, Api::OneOff(_)) && rng.chance(1, 8);
    Settings { suffixes, suffix_after: rng.chance(1, 2), ae_bits, api, inherit, final_safe: false, custom_escaper }
}

fn random_src(rng: &mut Rng, inherit: bool) -> Src {
    match rng.below(if inherit { 16 } else { 15 }) {
        0 | 1 | 2 => Src::Var("s1".into()),
        3 => Src::Var("s2".into()),
        4 => Src::Path("m.k".into(), vec!["ld:m".into(), format!("at:{}", hex(b"k"))]),
        5 => Src::Path("nest.inner.k".into(), vec!["ld:nest".into(), format!("at:{}", hex(b"inner")), format!("at:{}", hex(b"k"))]),
        6 => Src::Path("arr[1]".into(), vec!["ld:arr".into(), "ix:1".into()]),
        7 => Src::Path("nest.inner.list[0]".into(), vec!["ld:nest".into(), format!("at:{}", hex(b"inner")), format!("at:{}", hex(b"list")), "ix:0".into()]),
        8 => Src::StrLit(rng.below(EXPR_LITS.len())),
        9 => Src::Concat,
        10 => Src::Arr,
        11 => Src::Map,
        12 => match rng.below(4) {
            0 => Src::Num,
            1 => Src::Bool,
            2 => Src::Float,
            _ => Src::NoneV,
        },
        13 => Src::Path("m[\"q\\\"<\"]".into(), vec!["ld:m".into(), format!("at:{}", hex("q\"<".as_bytes()))]),
        14 => match rng.below(3) {
            0 => Src::Bytes,
            1 => Src::SafeLit,
            _ => Src::Var("s1".into()),
        },
        _ => Src::Super,
    }
}

fn random_construct(rng: &mut Rng) -> C {
    let all = all_constructs();
    let mut c = all[rng.below(all.len())].clone();
    // randomise parameters
    match &mut c {
        C::Capture(l) | C::CompBody(l) | C::CompResult(l) => *l = rng.below(LITS.len()),
        C::Default(l) | C::Join(l) => *l = rng.below(EXPR_LITS.len()),
        C::ConcatLit(l, left) => {
            *l = rng.below(EXPR_LITS.len());
            *left = rng.chance(1, 2);
        }
        C::FilterSection(f) => *f = rng.below(3) as u8,
        C::Index(i) => *i = *rng.pick(&[0i64, 1, -1, -2, 2, 40]),
        C::Slice(a, b, s) => {
            let o = |rng: &mut Rng| if rng.chance(1, 3) { None } else { Some(rng.range(-4, 4)) };
            *a = o(rng);
            *b = o(rng);
            *s = match rng.below(4) {
                0 => Some(-1),
                1 => Some(2),
                2 => Some(-2),
                _ => None,
            };
        }
        _ => {}
    }
    c
}

fn ctx_wire(m: &BTreeMap<String, Value>) -> BTreeMap<String, String> {
    m.iter().map(|(k, v)| (k.clone(), tera_verif_harness::wire::encode(v))).collect()
}

// ------------------------------------------------------------------ O4: no double escaping

/// the same body rendered inline and routed as-is through capture / component body / component
/// result / super(): all five outputs must be identical
/// components that print an argument as is
const PASS_DEFS: &str = "{% component pass(a) %}{{ a }}{% endcomponent pass %}{% component pass_t(a: string) %}{{ a }}{% endcomponent pass_t %}{% component pass_d(a = \"dflt\") %}{{ a }}{% endcomponent pass_d %}{% component pass_r(...rest) %}{{ rest.a }}{% endcomponent pass_r %}{% component pass2(a) %}{{ <pass a={a}/> }}{% endcomponent pass2 %}{% component fwd() %}{{ <pass a={body}/> }}{% endcomponent fwd %}";

fn no_double_escape(data: &str, lit: &str, ae: bool) -> Result<u64, String> {
    let sfx = if ae { ".html" } else { ".txt" };
    let body = format!("{lit}{{{{ d }}}}{lit}");
    let mut ctx = Context::new();
    ctx.insert_value("d", Value::from(data));
    let mk = |extra: Vec<(String, String)>, main: String| -> Result<String, String> {
        let mut tera = Tera::default();
        let mut v = extra;
        v.push((format!("main{sfx}"), main));
        tera.add_raw_templates(v).map_err(|e| format!("{e:?}"))?;
        tera.render(&format!("main{sfx}"), &ctx).map_err(|e| format!("{e:?}"))
    };
    let inline = mk(vec![], body.clone())?;
    let variants: Vec<(&str, Result<String, String>)> = vec![
        ("capture", mk(vec![], format!("{{% set v %}}{body}{{% endset %}}{{{{ v }}}}"))),
        ("capture-twice", mk(vec![], format!("{{% set v %}}{body}{{% endset %}}{{% set w %}}{{{{ v }}}}{{% endset %}}{{{{ w }}}}"))),
        (
            "component-body",
            mk(
                vec![(format!("c{sfx}"), "{% component wrap() %}{{ body }}{% endcomponent wrap %}".into())],
                format!("{{% <wrap> %}}{body}{{% </wrap> %}}"),
            ),
        ),
        (
            "component-result",
            mk(
                vec![(format!("c{sfx}"), format!("{{% component show(d) %}}{body}{{% endcomponent show %}}"))],
                "{{ <show d={d}/> }}".to_string(),
            ),
        ),
        // engine-escaped text handed on as a component ARGUMENT (declared, typed, defaulted, through
        // the rest map, through a spread, through the body of another call) is printed as is
        (
            "capture-as-argument",
            mk(vec![(format!("c{sfx}"), PASS_DEFS.into())], format!("{{% set v %}}{body}{{% endset %}}{{{{ <pass a={{v}}/> }}}}")),
        ),
        (
            "capture-as-typed-argument",
            mk(vec![(format!("c{sfx}"), PASS_DEFS.into())], format!("{{% set v %}}{body}{{% endset %}}{{{{ <pass_t a={{v}}/> }}}}")),
        ),
        (
            "capture-as-defaulted-argument",
            mk(vec![(format!("c{sfx}"), PASS_DEFS.into())], format!("{{% set v %}}{body}{{% endset %}}{{{{ <pass_d a={{v}}/> }}}}")),
        ),
        (
            "capture-as-rest-argument",
            mk(vec![(format!("c{sfx}"), PASS_DEFS.into())], format!("{{% set v %}}{body}{{% endset %}}{{{{ <pass_r a={{v}}/> }}}}")),
        ),
        (
            "capture-as-spread-argument",
            mk(vec![(format!("c{sfx}"), PASS_DEFS.into())], format!("{{% set v %}}{body}{{% endset %}}{{% set kw = {{\"a\": v}} %}}{{{{ <pass {{...kw}}/> }}}}")),
        ),
        (
            "capture-as-argument-twice",
            mk(vec![(format!("c{sfx}"), PASS_DEFS.into())], format!("{{% set v %}}{body}{{% endset %}}{{{{ <pass2 a={{v}}/> }}}}")),
        ),
        (
            "component-result-as-argument",
            mk(
                vec![(format!("c{sfx}"), format!("{{% component show(d) %}}{body}{{% endcomponent show %}}{PASS_DEFS}"))],
                "{% set r = <show d={d}/> %}{{ <pass a={r}/> }}".to_string(),
            ),
        ),
        (
            "component-body-as-argument",
            mk(vec![(format!("c{sfx}"), PASS_DEFS.into())], format!("{{% <fwd> %}}{body}{{% </fwd> %}}")),
        ),
        (
            "super-as-argument",
            mk(
                vec![(format!("base{sfx}"), format!("{{% block b %}}{body}{{% endblock b %}}")), (format!("c{sfx}"), PASS_DEFS.into())],
                format!("{{% extends \"base{sfx}\" %}}{{% block b %}}{{% set s = super() %}}{{{{ <pass a={{s}}/> }}}}{{% endblock b %}}"),
            ),
        ),
        (
            "component-result-via-set",
            mk(
                vec![(format!("c{sfx}"), format!("{{% component show(d) %}}{body}{{% endcomponent show %}}"))],
                "{% set r = <show d={d}/> %}{% for x in [r] %}{{ x }}{% endfor %}".to_string(),
            ),
        ),
        (
            "super",
            mk(
                vec![(format!("base{sfx}"), format!("{{% block b %}}{body}{{% endblock b %}}"))],
                format!("{{% extends \"base{sfx}\" %}}{{% block b %}}{{{{ super() }}}}{{% endblock b %}}"),
            ),
        ),
        (
            "include",
            mk(vec![(format!("inc{sfx}"), "{{ v }}".to_string())], format!("{{% set v %}}{body}{{% endset %}}{{% include \"inc{sfx}\" %}}")),
        ),
    ];
    let mut n = 0;
    for (name, r) in variants {
        n += 1;
        match r {
            Ok(s) if s == inline => {}
            Ok(s) => return Err(format!("{name}: printed as is gives {s:?}, the same body inline gives {inline:?} (data {data:?}, autoescape {ae})")),
            Err(e) => return Err(format!("{name}: error {e}")),
        }
    }
    if ae {
        // and the inline body itself is escaped exactly once
        let mut want = String::new();
        want.push_str(lit);
        for c in data.chars() {
            match c {
                '&' => want.push_str("&amp;"),
                '<' => want.push_str("&lt;"),
                '>' => want.push_str("&gt;"),
                '"' => want.push_str("&quot;"),
                '\'' => want.push_str("&#39;"),
                c => want.push(c),
            }
        }
        want.push_str(lit);
        n += 1;
        if inline != want {
            return Err(format!("inline body: got {inline:?}, escaping once gives {want:?}"));
        }
    }
    Ok(n)
}

// ------------------------------------------------------------------ stream X: the escaper itself, exhaustively

fn reference_escape(s: &str) -> String {
    let mut o = String::with_capacity(s.len() * 2);
    for c in s.chars() {
        match c {
            '&' => o.push_str("&amp;"),
            '<' => o.push_str("&lt;"),
            '>' => o.push_str("&gt;"),
            '"' => o.push_str("&quot;"),
            '\'' => o.push_str("&#39;"),
            c => o.push(c),
        }
    }
    o
}

/// every string of up to `max_len` symbols over an alphabet of the five special characters, ASCII
/// neighbours of theirs and multi-byte characters (so also strings such as `x>y` or `é>ü` whose bytes
/// are all above `<`), plus every single ASCII character: `escape_html` called directly, through both
/// sinks and through a capture, against the five-replacement reference and against the Lean model
fn escaper_stream(exe: &std::path::Path, max_len: usize, report: &mut Report) -> Option<(String, serde_json::Value)> {
    let alphabet = ["<", ">", "&", "\"", "'", "x", "=", ";", "#", "é", "ü", "日", "😀", "?", "/"];
    let mut strings: Vec<String> = vec![String::new()];
    let mut frontier: Vec<String> = vec![String::new()];
    for _ in 0..max_len {
        let mut next = Vec::new();
        for s in &frontier {
            for a in alphabet {
                next.push(format!("{s}{a}"));
            }
        }
        strings.extend(next.iter().cloned());
        frontier = next;
    }
    for b in 0u8..128 {
        strings.push((b as char).to_string());
        strings.push(format!("é{}ü", b as char));
    }
    let mut tera = Tera::default();
    tera.add_raw_templates(vec![
        ("p.html", "{{ v }}"),
        ("t.html", "{{ v ~ \"\" }}"),
        ("c.html", "{% set c %}{{ v }}{% endset %}{{ c }}"),
        ("a.html", "{{ [v] | first }}|{% for x in [v] %}{{ x }}{% endfor %}"),
    ])
    .unwrap();
    let mut first: Option<(String, serde_json::Value)> = None;
    let mut reqs = Vec::with_capacity(strings.len());
    for s in &strings {
        let want = reference_escape(s);
        let mut buf = Vec::new();
        let _ = tera::escape_html(s, &mut buf);
        report.evaluations += 1;
        report.oracle_checks += 5;
        let mut ctx = Context::new();
        ctx.insert("v", s);
        let got = [
            ("escape_html", String::from_utf8_lossy(&buf).to_string(), want.clone()),
            ("{{ v }}", tera.render("p.html", &ctx).unwrap_or_else(|e| format!("error {e:?}")), want.clone()),
            ("{{ v ~ \"\" }}", tera.render("t.html", &ctx).unwrap_or_else(|e| format!("error {e:?}")), want.clone()),
            ("capture", tera.render("c.html", &ctx).unwrap_or_else(|e| format!("error {e:?}")), want.clone()),
            ("first / loop", tera.render("a.html", &ctx).unwrap_or_else(|e| format!("error {e:?}")), format!("{want}|{want}")),
        ];
        for (how, g, w) in got {
            if g != w {
                report.oracle_failures += 1;
                if first.is_none() {
                    first = Some((format!("escaper: {how} of {s:?} gives {g:?}, must be {w:?}"), serde_json::json!({"escaper_string": s})));
                }
            }
        }
        reqs.push(format!("esc {}", hex(s.as_bytes())));
    }
    report.count_n("escaper.strings", strings.len() as u64);
    if let Ok(ms) = driver::run_batch_parallel(exe, &reqs, 16) {
        for (k, m) in ms.iter().enumerate() {
            report.model_comparisons += 1;
            let want = format!("ok {} 11", hex(reference_escape(&strings[k]).as_bytes()));
            if *m != want {
                report.model_disagreements += 1;
                if first.is_none() && report.violations.iter().all(|v| v.kind != "model-mismatch") {
                    report.violation("model-mismatch", format!("escape_html model: `{m}` for {:?}, the engine / reference give `{want}`", strings[k]), serde_json::json!({"detail": {"stage": "correspondence:escape_html"}, "escaper_string": strings[k]}));
                }
            }
        }
    }
    first
}

// ------------------------------------------------------------------ stream V: how a string gets to be a Value, and how long it is

/// hostile ASCII text of exactly `n` bytes (the engine keeps strings of ≤ 21 bytes inline and longer
/// ones on the heap: both representations, and the boundary, must behave alike)
fn hostile_of_len(n: usize) -> String {
    "<&>\"'x<i>\"&amp;'".chars().cycle().take(n).collect()
}

struct SafeId;
impl tera::Filter<String, String> for SafeId {
    fn call(&self, v: String, _: tera::Kwargs, _: &tera::State) -> String {
        v
    }
    fn is_safe(&self) -> bool {
        true
    }
}
struct SafeIdValue;
impl tera::Filter<Value, Value> for SafeIdValue {
    fn call(&self, v: Value, _: tera::Kwargs, _: &tera::State) -> Value {
        v
    }
    fn is_safe(&self) -> bool {
        true
    }
}
struct FnSafeId;
impl tera::Function<String> for FnSafeId {
    fn call(&self, kw: tera::Kwargs, _: &tera::State) -> String {
        kw.get::<String>("v").ok().flatten().unwrap_or_default()
    }
    fn is_safe(&self) -> bool {
        true
    }
}

/// values that reach the context THROUGH SERDE (`Context::insert` of derive(Serialize) types): enum
/// variants of every shape whose (renamed) names and payloads are hostile, nested
#[derive(Serialize)]
enum SerdeEnum {
    #[serde(rename = "<b>&\"x'")]
    Unit,
    #[serde(rename = "<n>")]
    Newtype(String),
    #[serde(rename = "'t\"")]
    Tuple(char, String),
    #[serde(rename = "<s>&")]
    Struct {
        #[serde(rename = "<f>")]
        f: String,
        c: char,
        inner: Box<Option<SerdeEnum>>,
    },
    PlainUnit,
}

#[derive(Serialize)]
struct SerdeUnitStruct;

#[derive(Serialize)]
struct SerdeNewtype(String);

#[derive(Serialize)]
struct SerdeOuter {
    e: SerdeEnum,
    es: Vec<SerdeEnum>,
    o: Option<SerdeEnum>,
    n: SerdeNewtype,
    u: SerdeUnitStruct,
    unit: (),
    t: (char, String),
    m: BTreeMap<String, SerdeEnum>,
}

#[derive(Serialize)]
struct SerdeCarrier {
    c: char,
    s: String,
    cs: Vec<char>,
    o: Option<String>,
}

fn value_stream(report: &mut Report) -> Option<(String, serde_json::Value)> {
    use std::borrow::Cow;
    let mut first: Option<(String, serde_json::Value)> = None;
    let mut tera = Tera::default();
    tera.register_filter("safe_id", SafeId);
    tera.register_filter("safe_idv", SafeIdValue);
    tera.register_function("fsafe_id", FnSafeId);
    tera.register_filter("via_safe_id", |v: Value, _: tera::Kwargs, st: &tera::State| st.call_filter("safe_id", &v, tera::Kwargs::default()));
    tera.register_filter("raw_id", |v: String, _: tera::Kwargs, _: &tera::State| v);
    // custom filters / functions returning each string-like type
    tera.register_filter("r_char", |v: &str, _: tera::Kwargs, _: &tera::State| v.chars().next().unwrap_or('<'));
    tera.register_filter("r_string", |v: &str, _: tera::Kwargs, _: &tera::State| v.to_string());
    tera.register_filter("r_static", |_: &str, _: tera::Kwargs, _: &tera::State| "<static>&'\"");
    tera.register_filter("r_cow", |v: &str, _: tera::Kwargs, _: &tera::State| -> Cow<'static, str> { Cow::Owned(v.to_string()) });
    tera.register_filter("r_opt", |v: &str, _: tera::Kwargs, _: &tera::State| Some(v.to_string()));
    tera.register_filter("r_chars", |v: &str, _: tera::Kwargs, _: &tera::State| v.chars().collect::<Vec<char>>());
    tera.register_filter("r_key", |v: &str, _: tera::Kwargs, _: &tera::State| tera::value::Key::from(v.to_string()));
    tera.register_filter("r_result", |v: &str, _: tera::Kwargs, _: &tera::State| -> tera::TeraResult<char> { Ok(v.chars().last().unwrap_or('>')) });
    tera.register_function("g_char", |kw: tera::Kwargs, _: &tera::State| kw.get::<String>("v").ok().flatten().and_then(|s| s.chars().next()).unwrap_or('\''));
    tera.register_function("g_string", |kw: tera::Kwargs, _: &tera::State| kw.get::<String>("v").ok().flatten().unwrap_or_default());
    tera.register_function("g_chars", |kw: tera::Kwargs, _: &tera::State| kw.get::<String>("v").ok().flatten().unwrap_or_default().chars().collect::<Vec<char>>());
    let tpls: Vec<(&str, &str)> = vec![
        // value as it is (both sinks, and moved around)
        ("path.html", "{{ v }}"),
        ("top.html", "{{ v | default(value=1) }}"),
        ("loop.html", "{% for x in [v] %}{{ x }}{% endfor %}"),
        ("set.html", "{% set y = v %}{{ y }}"),
        ("comp.html", "{{ <pass a={v}/> }}"),
        ("defs.html", PASS_DEFS),
        // registered safe: verbatim
        ("safe_filter.html", "{{ v | safe_id }}"),
        ("safe_filter_value.html", "{{ v | safe_idv }}"),
        ("safe_function.html", "{{ fsafe_id(v=v) }}"),
        ("safe_via_call_filter.html", "{{ v | via_safe_id }}"),
        ("safe_builtin.html", "{{ v | safe }}"),
        ("safe_then_moved.html", "{% set y = v | safe_id %}{% for x in [y] %}{{ <pass a={x}/> }}{% endfor %}"),
        ("safe_captured.html", "{% set c %}{{ v | safe_id }}{% endset %}{{ c }}"),
        ("safe_sliced.html", "{% set y = v | safe_id %}{{ y[0:] }}"),
        ("safe_as_argument.html", "{{ <pass a={v | safe}/> }}|{{ <pass_t a={v | safe_id}/> }}|{{ <pass_r a={v | safe}/> }}"),
        // not registered safe: escaped once
        ("raw_filter.html", "{{ v | raw_id }}"),
        ("captured.html", "{% set c %}{{ v }}{% endset %}{{ c }}"),
        // results of custom filters / functions of every string-like return type
        ("r_char.html", "{{ v | r_char }}"),
        ("r_string.html", "{{ v | r_string }}"),
        ("r_static.html", "{{ v | r_static }}"),
        ("r_cow.html", "{{ v | r_cow }}"),
        ("r_opt.html", "{{ v | r_opt }}"),
        ("r_chars.html", "{% for c in v | r_chars %}{{ c }}{% endfor %}"),
        ("r_key.html", "{{ v | r_key }}"),
        ("r_result.html", "{{ v | r_result }}"),
        ("g_char.html", "{{ g_char(v=v) }}"),
        ("g_string.html", "{{ g_string(v=v) }}"),
        ("g_chars.html", "{% for c in g_chars(v=v) %}{{ c }}{% endfor %}"),
    ];
    if let Err(e) = tera.add_raw_templates(tpls.clone()) {
        return Some((format!("value stream: templates do not register: {e:?}"), serde_json::json!({"value_stream": "add"})));
    }
    let mut texts: Vec<String> = ["<", ">", "&", "\"", "'", "é<", "日>'"].iter().map(|s| s.to_string()).collect();
    for n in [0usize, 1, 2, 19, 20, 21, 22, 23, 24, 40, 64, 200] {
        texts.push(hostile_of_len(n));
    }
    texts.push("a<b\nc>d\r\n'e'\t\"f\"  ".to_string());
    let check = |what: &str, got: Result<String, tera::Error>, want: String, text: &str, report: &mut Report, first: &mut Option<(String, serde_json::Value)>| {
        report.oracle_checks += 1;
        let got = got.unwrap_or_else(|e| format!("error {e:?}"));
        if got != want {
            report.oracle_failures += 1;
            if first.is_none() {
                *first = Some((format!("value stream: {what} with the {}-byte text {text:?}: got {got:?}, must be {want:?}", text.len()), serde_json::json!({"value_stream": what, "text": text})));
            }
        }
    };
    for t in &texts {
        let esc = reference_escape(t);
        // every public way of making a string Value
        let mut makes: Vec<(&str, Value)> = vec![
            ("Value::from(&str)", Value::from(t.as_str())),
            ("Value::from(String)", Value::from(t.clone())),
            ("Value::from(Cow::Borrowed)", Value::from(Cow::Borrowed(t.as_str()))),
            ("Value::from(Cow::Owned)", Value::from(Cow::<str>::Owned(t.clone()))),
            ("Value::normal_string", Value::normal_string(t)),
            ("Value::from(Key::from(String))", Value::from(tera::value::Key::from(t.clone()))),
            ("Key::as_value", tera::value::Key::from(t.clone()).as_value()),
            ("Value::from(Some(String))", Value::from(Some(t.clone()))),
            ("Value::from_serializable(&str)", Value::from_serializable(t.as_str())),
            ("Value::from_serializable(&String)", Value::from_serializable(t)),
        ];
        let mut chars = t.chars();
        if let (Some(c), None) = (chars.next(), chars.next()) {
            makes.push(("Value::from(char)", Value::from(c)));
            makes.push(("Value::from(Some(char))", Value::from(Some(c))));
            makes.push(("Value::from_serializable(&char)", Value::from_serializable(&c)));
        }
        report.evaluations += 1;
        for (how, v) in &makes {
            for tpl in ["path.html", "top.html", "loop.html", "set.html", "comp.html", "raw_filter.html", "captured.html"] {
                let mut ctx = Context::new();
                ctx.insert_value("v", v.clone());
                check(&format!("{how} printed by {tpl}"), tera.render(tpl, &ctx), esc.clone(), t, report, &mut first);
            }
        }
        // collections of chars / strings, serde carriers, Context::insert (serde)
        {
            let cs: Vec<char> = t.chars().collect();
            let want: String = cs.iter().map(|c| reference_escape(&c.to_string())).collect();
            let mut ctx = Context::new();
            ctx.insert_value("v", Value::from(cs.clone()));
            check("Value::from(Vec<char>) looped", tera.render_str("{% for c in v %}{{ c }}{% endfor %}", &ctx, true), want.clone(), t, report, &mut first);
            let carrier = SerdeCarrier { c: cs.first().copied().unwrap_or('<'), s: t.clone(), cs: cs.clone(), o: Some(t.clone()) };
            let mut ctx = Context::new();
            ctx.insert("v", &carrier);
            check(
                "serde struct with char / String / Vec<char> / Option fields (Context::insert)",
                tera.render_str("{{ v.c }}|{{ v.s }}|{% for c in v.cs %}{{ c }}{% endfor %}|{{ v.o }}", &ctx, true),
                format!("{}|{esc}|{want}|{esc}", reference_escape(&carrier.c.to_string())),
                t,
                report,
                &mut first,
            );
            let mut ctx = Context::new();
            ctx.insert("v", t);
            check("Context::insert(&String)", tera.render("path.html", &ctx), esc.clone(), t, report, &mut first);
            let mut hm = std::collections::HashMap::new();
            hm.insert("k".to_string(), t.as_str());
            let mut ctx = Context::new();
            ctx.insert_value("v", Value::from(hm));
            check("Value::from(HashMap<String, &str>)", tera.render_str("{{ v.k }}", &ctx, true), esc.clone(), t, report, &mut first);
        }
        // registered safe / marked safe: verbatim, whatever the length
        let mut ctx = Context::new();
        ctx.insert_value("v", Value::from(t.as_str()));
        for tpl in ["safe_filter.html", "safe_filter_value.html", "safe_function.html", "safe_via_call_filter.html", "safe_builtin.html", "safe_then_moved.html", "safe_captured.html", "safe_sliced.html"] {
            check(&format!("registered / marked safe, {tpl}"), tera.render(tpl, &ctx), t.clone(), t, report, &mut first);
        }
        check("safe value as component argument", tera.render("safe_as_argument.html", &ctx), format!("{t}|{t}|{t}"), t, report, &mut first);
        // a context value pre-marked safe by the embedding program, and the API `body`
        let mut sctx = Context::new();
        sctx.insert_value("v", Value::safe_string(t));
        for tpl in ["path.html", "top.html", "loop.html", "comp.html", "captured.html"] {
            check(&format!("Value::safe_string in the context, {tpl}"), tera.render(tpl, &sctx), t.clone(), t, report, &mut first);
        }
        let mut actx = Context::new();
        actx.insert_value("a", Value::from(t.as_str()));
        check("render_component(pass, a = normal string, autoescape)", tera.render_component("pass", &actx, None, true), esc.clone(), t, report, &mut first);
        check("render_component(fwd, body = text, autoescape)", tera.render_component("fwd", &Context::new(), Some(t), true), t.clone(), t, report, &mut first);
        // custom filters / functions by return type: escaped (none of them is registered safe)
        let firstc = t.chars().next().unwrap_or('<').to_string();
        let lastc = t.chars().last().unwrap_or('>').to_string();
        let per_char: String = t.chars().map(|c| reference_escape(&c.to_string())).collect();
        for (tpl, want) in [
            ("r_char.html", reference_escape(&firstc)),
            ("r_string.html", esc.clone()),
            ("r_static.html", reference_escape("<static>&'\"")),
            ("r_cow.html", esc.clone()),
            ("r_opt.html", esc.clone()),
            ("r_chars.html", per_char.clone()),
            ("r_key.html", esc.clone()),
            ("r_result.html", reference_escape(&lastc)),
            ("g_char.html", reference_escape(&if t.is_empty() { "'".to_string() } else { firstc.clone() })),
            ("g_string.html", esc.clone()),
            ("g_chars.html", per_char.clone()),
        ] {
            check(&format!("custom builtin by return type, {tpl}"), tera.render(tpl, &ctx), want, t, report, &mut first);
        }
        // mint points over every length (no double escaping; with and without literal text)
        for ae in [true, false] {
            for lit in ["", "L:"] {
                match no_double_escape(t, lit, ae) {
                    Ok(n) => report.oracle_checks += n,
                    Err(e) => {
                        report.oracle_failures += 1;
                        if first.is_none() {
                            first = Some((format!("O4 no-double-escape ({}-byte data): {e}", t.len()), serde_json::json!({"double_escape": {"data": t, "lit": lit, "autoescape": ae}})));
                        }
                    }
                }
            }
        }
    }
    // ---- the same variable re-assigned a value with the SAME text but the other kind
    {
        let reassign: Vec<(&str, &str, bool)> = vec![
            // (what, template, final value is safe?)
            ("safe filter then plain, set", "{% set x = d | safe %}{% set x = d %}{{ x }}", false),
            ("capture of safe text then plain, set", "{% set x %}{{ d | safe }}{% endset %}{% set x = d %}{{ x }}", false),
            ("component result then plain, set", "{% set x = <rawc d={d}/> %}{% set x = d %}{{ x }}", false),
            ("safe then plain, set_global", "{% set_global x = d | safe %}{% set_global x = d %}{{ x }}", false),
            ("safe set then plain set_global in a loop", "{% set x = d | safe %}{% for i in [1] %}{% set_global x = d %}{% endfor %}{{ x }}", false),
            ("safe then plain, printed via WriteTop / loop / argument", "{% set x = d | safe %}{% set x = d %}{{ x | default(value=1) }}", false),
            ("safe literal then the same literal", "{% set x = \"<b>&\" | safe %}{% set x = \"<b>&\" %}{{ x }}", false),
            ("safe then plain via concatenation of halves", "{% set x = d | safe %}{% set x = d[0:] ~ \"\" %}{{ x }}", false),
            ("plain then safe filter, set", "{% set x = d %}{% set x = d | safe %}{{ x }}", true),
            ("plain then capture of safe text", "{% set x = d %}{% set x %}{{ d | safe }}{% endset %}{{ x }}", true),
            ("plain then component result", "{% set x = d %}{% set x = <rawc d={d}/> %}{{ x }}", true),
            ("plain then safe, set_global", "{% set_global x = d %}{% set_global x = d | safe %}{{ x }}", true),
            ("plain, safe, plain", "{% set x = d %}{% set x = d | safe %}{% set x = d %}{{ x }}", false),
            ("safe, plain, safe", "{% set x = d | safe %}{% set x = d %}{% set x = d | safe %}{{ x }}", true),
        ];
        let mut t3 = Tera::default();
        let mut list: Vec<(String, String)> = vec![("rawdefs.html".into(), "{% component rawc(d) %}{{ d | safe }}{% endcomponent rawc %}".into())];
        for (k, (_, t, _)) in reassign.iter().enumerate() {
            list.push((format!("re{k}.html"), t.to_string()));
            // the same inside a child block (block-level sets), with super() as one more safe source
            list.push((format!("reb{k}.html"), format!("{{% extends \"rebase.html\" %}}{{% block b %}}{t}{{% endblock b %}}")));
        }
        list.push(("rebase.html".into(), "{% block b %}{{ d | safe }}{% endblock b %}".into()));
        list.push(("resuper.html".into(), "{% extends \"rebase.html\" %}{% block b %}{% set x = super() %}{% set x = d %}{{ x }}|{% set y = d %}{% set y = super() %}{{ y }}{% endblock b %}".into()));
        match t3.add_raw_templates(list) {
            Err(e) => {
                if first.is_none() {
                    first = Some((format!("re-assignment: templates do not register: {e:?}"), serde_json::json!({"value_stream": "reassign"})));
                }
            }
            Ok(()) => {
                for d in ["<>&\"'", "<b>&", "x>y", "<&>\"'x<i>\"&amp;'<&>\"'x"] {
                    let mut ctx = Context::new();
                    ctx.insert("d", d);
                    let e = reference_escape(d);
                    for (k, (what, t, safe_last)) in reassign.iter().enumerate() {
                        let lit = t.contains("\"<b>&\"");
                        let want = if lit { if *safe_last { "<b>&".to_string() } else { reference_escape("<b>&") } } else if *safe_last { d.to_string() } else { e.clone() };
                        for name in [format!("re{k}.html"), format!("reb{k}.html")] {
                            check(&format!("variable re-assigned, same text other kind ({what}), `{t}` in {name}"), t3.render(&name, &ctx), want.clone(), d, report, &mut first);
                        }
                    }
                    check("variable re-assigned: super() then plain | plain then super()", t3.render("resuper.html", &ctx), format!("{e}|{d}"), d, report, &mut first);
                }
            }
        }
    }

    // ---- values through serde: every enum-variant shape, renamed with special characters
    {
        let mk = |txt: &str| SerdeOuter {
            e: SerdeEnum::Unit,
            es: vec![SerdeEnum::Unit, SerdeEnum::Newtype(txt.into()), SerdeEnum::Tuple('<', txt.into()), SerdeEnum::PlainUnit],
            o: Some(SerdeEnum::Struct { f: txt.into(), c: '\'', inner: Box::new(Some(SerdeEnum::Unit)) }),
            n: SerdeNewtype(txt.into()),
            u: SerdeUnitStruct,
            unit: (),
            t: ('"', txt.into()),
            m: [("<k>".to_string(), SerdeEnum::Unit), ("k2".to_string(), SerdeEnum::Newtype(txt.into()))].into_iter().collect(),
        };
        let serde_tpls = [
            "{{ v.e }}",
            "{{ v.e | default(value=1) }}",
            "{% for x in v.es %}{{ x }};{% endfor %}",
            "{{ v.es | first }}|{{ v.es[0] }}|{{ v.es | join(sep=\",\") }}",
            "{{ v.o }}",
            "{% for k, x in v.o %}{{ k }}={{ x }};{% endfor %}",
            "{{ v.n }}|{{ v.u }}|{{ v.unit }}|{{ v.t }}|{{ v.t[0] }}|{{ v.t[1] }}",
            "{{ v.m }}|{% for k, x in v.m %}{{ k }}={{ x }};{% endfor %}",
            "{{ v }}",
            "{% set y = v.e %}{% for x in [y] %}{{ <pass a={x}/> }}{% endfor %}|{% set c %}{{ v.e }}{% endset %}{{ c }}",
            "{{ e }}|{{ e ~ \"\" }}|{{ [e] }}",
        ];
        for txt in ["<>&\"'", "plain", "x>y"] {
            let outer = mk(txt);
            let mut ctx = Context::new();
            ctx.insert("v", &outer);
            ctx.insert("e", &SerdeEnum::Unit);
            for t in serde_tpls {
                report.evaluations += 1;
                report.oracle_checks += 1;
                match tera.render_str(t, &ctx, true) {
                    Ok(out) => {
                        if let Some(c) = has_special(&out) {
                            report.oracle_failures += 1;
                            if first.is_none() {
                                first = Some((format!("value stream (serde): `{t}` over a context inserted through Serialize (enum variants renamed with special characters) prints `{c}`: {out:?}"), serde_json::json!({"value_stream": "serde", "template": t})));
                            }
                        }
                    }
                    Err(_) => report.count("values.serde-render-error"),
                }
            }
            // the unit variant is its (renamed) name, as data: escaped once
            check("serde unit enum variant (Context::insert)", tera.render_str("{{ e }}", &ctx, true), reference_escape("<b>&\"x'"), txt, report, &mut first);
            check("serde unit enum variant via Value::from_serializable", {
                let mut c2 = Context::new();
                c2.insert_value("v", Value::from_serializable(&SerdeEnum::Unit));
                tera.render("path.html", &c2)
            }, reference_escape("<b>&\"x'"), txt, report, &mut first);
        }
    }

    // ---- defaults of component parameters are data: escaped exactly like the same literal passed explicitly
    {
        let dflt = " <&> \"'";
        let lit = quote(dflt);
        let defs = format!(
            "{{% component C(sep={lit}) %}}[{{{{ sep }}}}|{{{{ sep | default(value=1) }}}}]{{% endcomponent C %}}{{% component CB(sep={lit}, n=1) %}}[{{{{ sep }}}}|{{{{ body }}}}]{{% endcomponent CB %}}{{% component CT(sep: string = {lit}) %}}[{{{{ sep }}}}]{{% endcomponent CT %}}{{% component CC(xs=[{lit}, \"'b'\"], m={{\"k\": {lit}}}) %}}[{{{{ xs | first }}}}|{{{{ xs[1] }}}}|{{{{ m.k }}}}|{{{{ xs }}}}]{{% endcomponent CC %}}{{% component CN(sep={lit}) %}}{{{{ <C sep={{sep}}/> }}}}{{{{ <C/> }}}}{{% endcomponent CN %}}"
        );
        let e = reference_escape(dflt);
        let arr_e = reference_escape(&format!("[{:?}, {:?}]", dflt, "'b'"));
        let calls: Vec<(&str, String, String, String)> = vec![
            // (what, call omitting the argument, call passing the same literal, expected text)
            ("inline call", "{{ <C/> }}".into(), format!("{{{{ <C sep={lit}/> }}}}"), format!("[{e}|{e}]")),
            ("call with body", "{% <CB> %}x{% </CB> %}".into(), format!("{{% <CB sep={lit}> %}}x{{% </CB> %}}"), format!("[{e}|x]")),
            ("typed parameter", "{{ <CT/> }}".into(), format!("{{{{ <CT sep={lit}/> }}}}"), format!("[{e}]")),
            ("array / map defaults", "{{ <CC/> }}".into(), format!("{{{{ <CC xs={{[{lit}, \"'b'\"]}} m={{ {{\"k\": {lit}}} }}/> }}}}"), format!("[{e}|{}|{e}|{arr_e}]", reference_escape("'b'"))),
            ("default handed on to a nested call", "{{ <CN/> }}".into(), format!("{{{{ <CN sep={lit}/> }}}}"), format!("[{e}|{e}][{e}|{e}]")),
            ("default kept in a variable, looped, captured", "{% set r = <C/> %}{% for x in [r] %}{{ x }}{% endfor %}".into(), format!("{{% set r = <C sep={lit}/> %}}{{% for x in [r] %}}{{{{ x }}}}{{% endfor %}}"), format!("[{e}|{e}]")),
        ];
        let mut t2 = Tera::default();
        let mut list: Vec<(String, String)> = vec![("cdefs.html".into(), defs)];
        for (k, (_, omit, explicit, _)) in calls.iter().enumerate() {
            list.push((format!("omit{k}.html"), omit.clone()));
            list.push((format!("expl{k}.html"), explicit.clone()));
        }
        match t2.add_raw_templates(list) {
            Err(e) => {
                if first.is_none() {
                    first = Some((format!("component defaults: templates do not register: {e:?}"), serde_json::json!({"value_stream": "defaults"})));
                }
            }
            Ok(()) => {
                for (k, (what, omit, _, want)) in calls.iter().enumerate() {
                    report.evaluations += 1;
                    let a = t2.render(&format!("omit{k}.html"), &Context::new()).unwrap_or_else(|e| format!("error {e:?}"));
                    let b = t2.render(&format!("expl{k}.html"), &Context::new()).unwrap_or_else(|e| format!("error {e:?}"));
                    report.oracle_checks += 2;
                    if a != b || a != *want {
                        report.oracle_failures += 1;
                        if first.is_none() {
                            first = Some((format!("component default is data ({what}): `{omit}` (argument omitted, default {lit}) renders {a:?}, the same literal passed explicitly renders {b:?}, escaped once is {want:?}"), serde_json::json!({"value_stream": "defaults", "call": omit})));
                        }
                    }
                }
                // the API: omitted vs supplied
                let mut sup = Context::new();
                sup.insert("sep", dflt);
                for (name, body) in [("C", None), ("CB", Some("x")), ("CT", None)] {
                    report.oracle_checks += 1;
                    let a = t2.render_component(name, &Context::new(), body, true).unwrap_or_else(|e| format!("error {e:?}"));
                    let b = t2.render_component(name, &sup, body, true).unwrap_or_else(|e| format!("error {e:?}"));
                    if a != b || has_special(&a.replace('x', "")).is_some() {
                        report.oracle_failures += 1;
                        if first.is_none() {
                            first = Some((format!("component default is data (render_component(\"{name}\", .., autoescape = true)): argument omitted renders {a:?}, supplied renders {b:?}"), serde_json::json!({"value_stream": "defaults", "call": name})));
                        }
                    }
                }
            }
        }
    }

    // ---- templates loaded from files: the autoescape decision goes by the registered NAME
    {
        let dir = std::env::temp_dir().join(format!("tera_verif_c01_{}", std::process::id()));
        let _ = std::fs::create_dir_all(&dir);
        let src = "[{{ d }}|{{ d ~ \"\" }}|{% set c %}{{ d }}{% endset %}{{ c }}]";
        let mut ctx = Context::new();
        ctx.insert("d", "<>&\"'");
        let files = ["f_page.tera", "f_page.html", "f_page.txt", "f_noext", "f_page.html.bak"];
        for f in files {
            let _ = std::fs::write(dir.join(f), src);
        }
        let names: [Option<&str>; 6] = [Some("page.html"), Some("page.txt"), Some("page"), Some("x.htm"), Some("dir/page.xml"), None];
        for suffixes in [None, Some(vec![".tera".to_string()]), Some(vec![".txt".to_string(), ".bak".to_string()])] {
            for f in files {
                for name in names {
                    let path = dir.join(f);
                    let reg = name.map(|n| n.to_string()).unwrap_or_else(|| path.to_string_lossy().to_string());
                    for after in [false, true] {
                        let run = |from_file: bool| -> String {
                            let mut t = Tera::default();
                            if !after {
                                if let Some(s) = &suffixes {
                                    t.autoescape_on(s.clone());
                                }
                            }
                            let r = if from_file { t.add_template_file(&path, name) } else { t.add_raw_template(&reg, src) };
                            if let Err(e) = r {
                                return format!("adderr {e:?}");
                            }
                            if after {
                                if let Some(s) = &suffixes {
                                    t.autoescape_on(s.clone());
                                }
                            }
                            t.render(&reg, &ctx).unwrap_or_else(|e| format!("error {e:?}"))
                        };
                        report.evaluations += 1;
                        report.oracle_checks += 2;
                        let from_file = run(true);
                        let raw = run(false);
                        let list = suffixes.clone().unwrap_or_else(default_suffixes);
                        let on = flag_of(&reg, &list);
                        let e = if on { reference_escape("<>&\"'") } else { "<>&\"'".to_string() };
                        let want = format!("[{e}|{e}|{e}]");
                        if from_file != raw || from_file != want {
                            report.oracle_failures += 1;
                            if first.is_none() {
                                first = Some((
                                    format!("file-loaded template: file `{f}` registered as `{reg}` (suffix list {list:?}, autoescape_on {} adding) renders {from_file:?}; the same source added with add_raw_template under that name renders {raw:?}; by the name's suffix it must be {want:?}", if after { "after" } else { "before" }),
                                    serde_json::json!({"value_stream": "files", "file": f, "name": name}),
                                ));
                            }
                        }
                    }
                }
            }
        }
        let _ = std::fs::remove_dir_all(&dir);
    }

    report.count_n("values.texts", texts.len() as u64);
    first
}

// ------------------------------------------------------------------ stream W: every builtin, engine only

struct MkSafe;
impl tera::Filter<String, String> for MkSafe {
    fn call(&self, v: String, _: tera::Kwargs, _: &tera::State) -> String {
        format!("S({v})")
    }
    fn is_safe(&self) -> bool {
        true
    }
}
struct FnSafe;
impl tera::Function<String> for FnSafe {
    fn call(&self, kw: tera::Kwargs, _: &tera::State) -> String {
        format!("F({})", kw.get::<String>("v").ok().flatten().unwrap_or_default())
    }
    fn is_safe(&self) -> bool {
        true
    }
}

/// expression templates over the hostile context that use every builtin filter, test, function and
/// operator; none of them contains `safe`, and their literal text is free of the special characters
fn wide_templates() -> Vec<String> {
    let filters_on_str = [
        "upper", "lower", "capitalize", "title", "trim", "trim_start", "trim_end", "truncate(length=3)", "truncate(length=2, end=\"<e>\")",
        "indent", "indent(width=2, first=true)", "newlines_to_br", "escape_html", "escape_xml", "str", "wordcount", "length",
        "split(pat=\"&\")", "split(pat=\"<\") | join(sep=\">\")", "replace(from=\"&\", to=\"<\")", "reverse", "default(value=\"<d>\")",
        "pluralize(singular=\"<\", plural=\">\")", "int(default=3)", "float", "mkraw", "viaupper", "trim(pat=\"<\")", "split(pat=\"\") | first",
    ];
    let mut v: Vec<String> = Vec::new();
    for f in filters_on_str {
        v.push(format!("{{{{ s1 | {f} }}}}"));
        v.push(format!("{{% set c %}}{{{{ s2 }}}}{{% endset %}}{{{{ c | {f} }}}}"));
        v.push(format!("{{% filter {f} %}}{{{{ s1 }}}}:{{{{ s2 }}}}{{% endfilter %}}"));
    }
    for f in ["first", "last", "nth(n=1)", "join(sep=\"<\")", "join", "sort", "unique", "reverse", "length", "str", "sort | first", "reverse | last", "default(value=1)"] {
        v.push(format!("{{{{ arr | {f} }}}}"));
        v.push(format!("{{{{ nest.inner.list | {f} }}}}"));
        v.push(format!("{{{{ [s1, \"<l>\", s2] | {f} }}}}"));
    }
    for f in ["keys", "values", "pairs", "get(key=\"k\")", "get(key=\"zz\", default=\"<dd>\")", "length", "str", "keys | first", "values | join(sep=\"'\")", "pairs | first | last"] {
        v.push(format!("{{{{ m | {f} }}}}"));
        v.push(format!("{{{{ {{\"<k>\": s1, \"b\": \"<v>\"}} | {f} }}}}"));
    }
    for e in [
        "arr", "m", "nest", "arr[0]", "arr[1:]", "arr[::-1]", "m.k", "m[\"q\\\"<\"]", "nest.inner", "s1[0]", "s1[1:3]", "s1[::-1]", "__tera_context",
        "s1 ~ s2", "s1 ~ n", "n ~ s1", "s1 if b else s2", "s2 if not b else s1", "s1 or s2", "s1 and s2", "nn or s1", "not s1", "s1 == s2", "s1 != s2", "s1 in arr",
        "\"<\" in s1", "n + 1", "n * 2", "n - 3", "n % 5", "n / 3", "n // 3", "f", "-n", "nn", "b", "f * 2", "2 ** 3",
        "s1 is string", "s1 is containing(pat=\"<\")", "s1 is starting_with(pat=\"<\")", "s1 is ending_with(pat=\">\")", "n is odd", "arr is iterable", "missing is defined",
        "range(end=3)", "range(start=1, end=4) | join(sep=\"<\")", "fraw(v=s1)", "\"<lit>\"", "'<lit>'", "`<lit>`", "\"<a>\" ~ \"<b>\"", "[\"<x>\", s1]",
        "{\"<k>\": s1}", "[x for x in arr]", "[x ~ \"<\" for x in arr]", "[[s1, \"'\"], arr]", "{\"a\": {\"<b>\": [s1]} }", "[...arr, \"<z>\"]", "{...m, \"<n>\": s2}",
        "arr | group_by(attribute=\"x\") | default(value=\"<g>\")", "[{\"g\": s1, \"v\": s2}, {\"g\": s2, \"v\": \"<w>\"}] | group_by(attribute=\"g\")",
        "[{\"g\": s1}] | sort(attribute=\"g\")", "s1?.x | default(value=\"<o>\")", "m?.k", "nest?.nope?.deeper | default(value=s1)",
    ] {
        v.push(format!("{{{{ {e} }}}}"));
        v.push(format!("{{% set x = {e} %}}{{{{ x }}}}"));
    }
    for t in [
        "{% for k, v in m %}{{ k }}={{ v }};{% endfor %}",
        "{% for k, v in nest.inner %}{{ k }}:{{ v }};{% endfor %}",
        "{% for c in s1 %}{{ c }}{{ loop.index }}{% endfor %}",
        "{% for x in arr %}{{ loop.index0 }}{{ x }}{% if loop.last %}.{% endif %}{% else %}none{% endfor %}",
        "{% for x in [] %}{{ x }}{% else %}{{ s1 }}{% endfor %}",
        "{% if s1 %}{{ s1 }}{% elif s2 %}{{ s2 }}{% else %}{{ arr }}{% endif %}",
        "{% set_global g = s2 %}{% for x in arr %}{% set_global g = g ~ x %}{% endfor %}{{ g }}",
        "{% for x in arr %}{% if loop.first %}{% continue %}{% endif %}{{ x }}{% break %}{% endfor %}",
        "{% set a %}{% for x in arr %}{{ x }},{% endfor %}{% endset %}{{ a }}{{ a | upper }}{{ a[1:] }}{{ [a] }}{{ a ~ s1 }}",
        "{% raw %}raw text {{ s1 }}{% endraw %}{{ s1 }}",
        "{# comment {{ s1 }} #}{{ s2 }}",
        "{{ s1 }}{{- s2 -}}  {{ arr }}",
    ] {
        v.push(t.to_string());
    }
    v
}

/// (checks, templates that rendered, first failure)
fn wide_stream(contexts: &[BTreeMap<String, Value>], report: &mut Report) -> Option<(String, serde_json::Value)> {
    let mut tera = Tera::default();
    tera.register_filter("mkraw", |s: String, _: tera::Kwargs, _: &tera::State| format!("<raw>{s}"));
    tera.register_filter("viaupper", |v: Value, _: tera::Kwargs, st: &tera::State| st.call_filter("upper", &v, tera::Kwargs::default()));
    tera.register_filter("mksafe", MkSafe);
    tera.register_function("fraw", |kw: tera::Kwargs, _: &tera::State| format!("<f>{}", kw.get::<String>("v").ok().flatten().unwrap_or_default()));
    tera.register_function("fsafe", FnSafe);
    let mut tpls = wide_templates();
    // every registered filter / function must be exercised: whatever the list above does not mention
    // (a builtin added later) is applied bare to a string, an array, a map and a number
    let (reg_filters, _reg_tests, reg_functions) = tera::verif_hooks::registered_builtins(&tera);
    for f in &reg_filters {
        if f == "safe" || f == "mksafe" {
            continue;
        }
        let mentioned = tpls.iter().any(|t| t.contains(&format!("| {f} ")) || t.contains(&format!("| {f}(")) || t.contains(&format!("filter {f} ")) || t.contains(&format!("filter {f}(")));
        if !mentioned {
            report.count("wide.filter-not-in-the-list");
            for recv in ["s1", "arr", "m", "n", "nest.inner.list"] {
                tpls.push(format!("{{{{ {recv} | {f} }}}}"));
            }
        }
    }
    for g in &reg_functions {
        if g == "fsafe" {
            continue;
        }
        if !tpls.iter().any(|t| t.contains(&format!("{g}("))) {
            report.count("wide.function-not-in-the-list");
            tpls.push(format!("{{{{ {g}() }}}}"));
            tpls.push(format!("{{{{ {g}(v=s1) }}}}"));
        }
    }
    report.count_n("wide.registered-filters", reg_filters.len() as u64);
    // besides the hostile contexts: the same with white space, line ends, tabs, padding and mixed case
    // inside the strings (trigger characters of newlines_to_br, trim, title, capitalize, indent,
    // truncate, wordcount, split …)
    let ws_strings = [
        "a<b\nc>d",
        "x\r\n<y>\t'z'",
        "  <Lead And> \"Trail\"  ",
        "\n<\n>\n",
        "mIxEd <Case> wOrDs & 'more'\r",
        "one two<three\nfour>five six seven eight nine ten eleven",
        "\t<tab>\t",
        "<\r>",
    ];
    let mut all_contexts: Vec<BTreeMap<String, Value>> = contexts.to_vec();
    for k in 0..4 {
        let mut c = contexts[k % contexts.len()].clone();
        let w = |i: usize| ws_strings[(k * 3 + i) % ws_strings.len()];
        c.insert("s1".into(), Value::from(w(0)));
        c.insert("s2".into(), Value::from(w(1)));
        c.insert("arr".into(), Value::from(vec![Value::from(w(2)), Value::from(w(3)), Value::from(w(4))]));
        let mut mp = tera::Map::new();
        mp.insert("k".into(), Value::from(w(5)));
        mp.insert("q\"<".into(), Value::from(w(6)));
        c.insert("m".into(), Value::from(mp));
        all_contexts.push(c);
    }
    let contexts = &all_contexts[..];
    let mut names = Vec::new();
    for (i, t) in tpls.iter().enumerate() {
        let name = format!("w{i}.html");
        match tera.add_raw_template(&name, t) {
            Ok(()) => names.push((name, t.clone())),
            Err(e) => {
                if std::env::var("VERIF_DEBUG").is_ok() {
                    eprintln!("WIDE-ADD-ERROR {t} :: {}", format!("{e:?}").chars().take(160).collect::<String>());
                }
                report.count("wide.add-error")
            }
        }
    }
    // the two ways of registering something as safe: written verbatim
    let _ = tera.add_raw_template("safe1.html", "[[{{ s1 | mksafe }}]]");
    let _ = tera.add_raw_template("safe2.html", "[[{{ fsafe(v=s1) }}]]");
    let _ = tera.add_raw_template("safe3.html", "[[{{ s1 | viaupper }}]]{% set c %}{{ s1 | mksafe }}{% endset %}[[{{ c }}]]");
    let mut first: Option<(String, serde_json::Value)> = None;
    for (ci, cm) in contexts.iter().enumerate() {
        let ctx = to_context(cm);
        for (name, src) in &names {
            report.evaluations += 1;
            match catch(std::panic::AssertUnwindSafe(|| tera.render(name, &ctx))) {
                Ok(Ok(out)) => {
                    report.count("wide.rendered");
                    report.oracle_checks += 1;
                    if let Some(c) = has_special(&out) {
                        report.oracle_failures += 1;
                        if first.is_none() {
                            first = Some((format!("O1 (builtins): `{src}` in an autoescaped template prints `{c}`: {out:?}"), serde_json::json!({"wide": {"template": src, "context": ci}})));
                        }
                    }
                }
                Ok(Err(e)) => {
                    if std::env::var("VERIF_DEBUG").is_ok() {
                        eprintln!("WIDE-RENDER-ERROR {src} :: {}", format!("{e:?}").chars().take(200).collect::<String>());
                    }
                    report.count("wide.render-error")
                }
                Err(p) => {
                    report.oracle_failures += 1;
                    if first.is_none() {
                        first = Some((format!("panic while rendering `{src}`: {p}"), serde_json::json!({"wide": {"template": src, "context": ci}})));
                    }
                }
            }
        }
        let s1 = cm.get("s1").and_then(|v| v.as_str()).unwrap_or("").to_string();
        for (name, want) in [("safe1.html", format!("[[S({s1})]]")), ("safe2.html", format!("[[F({s1})]]"))] {
            report.oracle_checks += 1;
            report.evaluations += 1;
            let got = tera.render(name, &ctx).unwrap_or_else(|e| format!("error {e:?}"));
            if got != want && first.is_none() {
                report.oracle_failures += 1;
                first = Some((format!("O2 (registered is_safe): `{name}` gives {got:?}, the value must be written verbatim: {want:?}"), serde_json::json!({"wide": {"template": name, "context": ci}})));
            }
        }
        // `call_filter` of a non-safe filter is escaped; a safe value captured stays verbatim
        report.oracle_checks += 1;
        let got = tera.render("safe3.html", &ctx).unwrap_or_else(|e| format!("error {e:?}"));
        let esc = |s: &str| s.replace('&', "&amp;").replace('<', "&lt;").replace('>', "&gt;").replace('"', "&quot;").replace('\'', "&#39;");
        let want = format!("[[{}]][[S({s1})]]", esc(&s1.to_uppercase()));
        if got != want && first.is_none() {
            report.oracle_failures += 1;
            first = Some((format!("registered filters: got {got:?}, want {want:?}"), serde_json::json!({"wide": {"template": "safe3.html", "context": ci}})));
        }
    }
    report.count_n("wide.templates", names.len() as u64);
    first
}

// ------------------------------------------------------------------ O6: the API override is carried

/// `render_component(.., autoescape)`: the flag decides for the component's chunk, for templates it
/// includes and for components it calls, whatever their names say.  Returns (engine, model request,
/// expected text by the property).
fn override_case(data: &str, flag: bool, inc_html: bool, def_html: bool) -> (String, String, String) {
    let inc = if inc_html { "inc.html" } else { "inc.txt" };
    let defs = if def_html { "defs.html" } else { "defs.txt" };
    let mut tera = Tera::default();
    let r = tera.add_raw_templates(vec![
        (defs.to_string(), format!("{{% component outer(a) %}}1:{{{{ a }}}}|{{% include \"{inc}\" %}}|{{{{ <inner a={{a}}/> }}}}{{% endcomponent outer %}}{{% component inner(a) %}}3:{{{{ a }}}}{{% endcomponent inner %}}{{% component deep(a) %}}5:{{{{ a }}}}{{{{ body }}}}{{% endcomponent deep %}}")),
        (inc.to_string(), "2:{{ a }}{% <deep a={a}> %}4:{{ a ~ \"\" }}{% </deep> %}".to_string()),
    ]);
    if let Err(e) = r {
        return (format!("adderr {e:?}"), String::new(), String::new());
    }
    let mut ctx = Context::new();
    ctx.insert("a", data);
    let imp = match catch(std::panic::AssertUnwindSafe(|| tera.render_component("outer", &ctx, None, flag))) {
        Ok(Ok(s)) => format!("ok {}", hex(s.as_bytes())),
        Ok(Err(_)) => "err".into(),
        Err(p) => format!("panic {p}"),
    };
    let a = hex(data.as_bytes());
    let req = format!(
        "render html {} {} C1 a s:{a} txt:313a ld:a w txt:7c incl:{} txt:323a ld:a w comp:a:1 txt:343a ld:a sl: cat w . ld:a . txt:353a ld:a w ld:body w . w . txt:7c comp:a:0 ld:a . txt:333a ld:a w . w .",
        if flag { 1 } else { 0 },
        if def_html { 1 } else { 0 },
        if inc_html { 1 } else { 0 }
    );
    let e = if flag {
        data.replace('&', "&amp;").replace('<', "&lt;").replace('>', "&gt;").replace('"', "&quot;").replace('\'', "&#39;")
    } else {
        data.to_string()
    };
    (imp, req, format!("ok {}", hex(format!("1:{e}|2:{e}5:{e}4:{e}|3:{e}").as_bytes())))
}

// ------------------------------------------------------------------ O5: configured escaper (F10)

/// configured escaper used by the routing stream: the five special characters become
/// `(lt) (gt) (amp) (q) (a)` — so a sink that used the default escaper instead shows up as an `&`
fn lt_escaper(input: &str, out: &mut dyn std::io::Write) -> std::io::Result<()> {
    for b in input.bytes() {
        match b {
            b'<' => out.write_all(b"(lt)")?,
            b'>' => out.write_all(b"(gt)")?,
            b'&' => out.write_all(b"(amp)")?,
            b'"' => out.write_all(b"(q)")?,
            b'\'' => out.write_all(b"(a)")?,
            _ => out.write_all(&[b])?,
        }
    }
    Ok(())
}

/// escaper mapping `a` to `?` (the documentation's example shape)
fn custom_escaper(input: &str, out: &mut dyn std::io::Write) -> std::io::Result<()> {
    for b in input.bytes() {
        if b == b'a' { out.write_all(b"?")? } else { out.write_all(&[b])? }
    }
    Ok(())
}

struct CustomCase {
    tpl: String,
    name: &'static str,
    value: Value,
    prog: String,
}

fn custom_cases() -> Vec<CustomCase> {
    let w = |n: &'static str, v: Value, tpl: &str, prog: &str| CustomCase { tpl: tpl.into(), name: n, value: v, prog: prog.into() };
    vec![
        w("bool", Value::from(false), "{{ v }}", "ld:v w ."),
        w("bool-in-array", Value::from(vec![Value::from(false)]), "{{ v }}", "ld:v w ."),
        w("float-nan", Value::from(f64::NAN), "{{ v }}", "ld:v w ."),
        w("bool-routed", Value::from(false), "{% set x = v %}{% for y in [x] %}{{ y | default(value=1) }}{% endfor %}", "ld:v set:x ld:x arr:1 for:y ld:y df:31 w . ."),
        w("string", Value::from("banana"), "{{ v }}", "ld:v w ."),
        w("string-routed", Value::from("banana"), "{% set x = v %}{{ x[1:] }}", "ld:v set:x ld:x slc:1:_:_ w ."),
        w("array", Value::from(vec![Value::from("a"), Value::from("ba")]), "{{ v }}", "ld:v w ."),
        w("map", { let mut m = tera::Map::new(); m.insert("ka".into(), Value::from("va")); Value::from(m) }, "{{ v }}", "ld:v w ."),
        w("bytes", Value::bytes(b"abba".to_vec()), "{{ v }}", "ld:v w ."),
        w("concat-scalar", Value::from(false), "{{ v ~ \"\" }}", &format!("ld:v sl: cat w .")),
        w("int", Value::from(-12), "{{ v }}", "ld:v w ."),
        // string LITERALS printed directly: data like any other, through the configured escaper
        w("literal", Value::from(1), "{{ \"banana\" }}", "sl:62616e616e61 w ."),
        w("literal-backtick", Value::from(1), "{{ `papaya` }}|{{ 'ananas' }}", "sl:706170617961 w txt:7c sl:616e616e6173 w ."),
        w("literal-in-capture", Value::from(1), "{% set c %}{{ \"banana\" }}{% endset %}{{ c }}", "cap sl:62616e616e61 w endcap set:c ld:c w ."),
        w("literal-in-loop-and-branch", Value::from(1), "{% for i in [1, 2] %}{% if v %}{{ \"banana\" }}{% endif %}{% endfor %}", "sl:62616e616e61 w sl:62616e616e61 w ."),
        w("literal-in-component", Value::from(1), "{% component lc() %}{{ \"banana\" }}{% endcomponent lc %}{{ <lc/> }}", "comp::0 . sl:62616e616e61 w . w ."),
    ]
}

// ------------------------------------------------------------------ main

fn shrink(spec: &CaseSpec, pred: &dyn Fn(&CaseSpec) -> bool) -> CaseSpec {
    let mut cur = spec.clone();
    loop {
        let mut changed = false;
        for i in 0..cur.chain.len() {
            let mut t = cur.clone();
            t.chain.remove(i);
            if pred(&t) {
                cur = t;
                changed = true;
                break;
            }
        }
        if !changed {
            if cur.settings.inherit {
                let mut t = cur.clone();
                t.settings.inherit = false;
                if t.src != Src::Super && pred(&t) {
                    cur = t;
                    continue;
                }
            }
            if cur.settings.api != Api::Render {
                let mut t = cur.clone();
                t.settings.api = Api::Render;
                if pred(&t) {
                    cur = t;
                    continue;
                }
            }
            if cur.settings.custom_escaper {
                let mut t = cur.clone();
                t.settings.custom_escaper = false;
                if pred(&t) {
                    cur = t;
                    continue;
                }
            }
            if cur.settings.suffixes.is_some() {
                let mut t = cur.clone();
                t.settings.suffixes = None;
                if pred(&t) {
                    cur = t;
                    continue;
                }
            }
            break;
        }
    }
    cur
}

fn describe(spec: &CaseSpec, built: &Built) -> serde_json::Value {
    serde_json::json!({
        "templates": built.tpls.iter().map(|t| serde_json::json!({"name": t.0, "source": t.1, "autoescape": t.2})).collect::<Vec<_>>(),
        "api": format!("{:?}", spec.settings.api),
        "suffixes": spec.settings.suffixes,
        "model_program": built.prog,
    })
}

fn main() {
    quiet_panics();
    let env = Env::from_env();
    let mut report = Report::new("C01");
    let exe = driver::driver_path(&env.verif_dir, "drv_c01");

    if let Some(path) = replay_path() {
        let text = std::fs::read_to_string(&path).expect("replay file");
        let j: serde_json::Value = serde_json::from_str(&text).expect("replay json");
        let j = if j.get("replay").is_some() { j["replay"].clone() } else { j };
        if let Some(kind) = j.get("custom_escaper_case").and_then(|v| v.as_str()) {
            for c in custom_cases() {
                if c.name == kind {
                    let mut tera = Tera::default();
                    tera.set_escape_fn(custom_escaper);
                    tera.add_raw_template("t.html", &c.tpl).unwrap();
                    let mut ctx = Context::new();
                    ctx.insert_value("v", c.value.clone());
                    println!("template: {}\nvalue: {} ({})\nimplementation: {:?}", c.tpl, c.value, c.value.name(), tera.render("t.html", &ctx));
                    let req = format!("render map:97:3f - 1 C1 v {} {}", tval(&c.value), c.prog);
                    println!("model: {:?}", driver::run_batch(&exe, &[req]));
                }
            }
            return;
        }
        if let Some(sv) = j.get("escaper_string").and_then(|v| v.as_str()) {
            let mut buf = Vec::new();
            let _ = tera::escape_html(sv, &mut buf);
            let mut ctx = Context::new();
            ctx.insert("v", sv);
            println!("string: {sv:?}\nescape_html: {:?}\n{{{{ v }}}} autoescaped: {:?}\nreference: {:?}\nmodel: {:?}", String::from_utf8_lossy(&buf), Tera::one_off("{{ v }}", &ctx, true), reference_escape(sv), driver::run_batch(&exe, &[format!("esc {}", hex(sv.as_bytes()))]));
            return;
        }
        if j.get("value_stream").is_some() {
            println!("value stream (deterministic), first failure: {:?}", value_stream(&mut report));
            return;
        }
        if let Some(d) = j.get("wide") {
            let mut rng = Rng::new(env.seed);
            let contexts: Vec<BTreeMap<String, Value>> = (0..env.budget(3, 6)).map(|i| make_context(&mut rng, i)).collect();
            println!("template: {}\ncontext #{} of seed {}\n{:?}", d["template"], d["context"], env.seed, wide_stream(&contexts, &mut report));
            return;
        }
        if let Some(d) = j.get("override_case") {
            let (imp, req, want) = override_case(d["data"].as_str().unwrap(), d["flag"].as_bool().unwrap(), d["inc_html"].as_bool().unwrap(), d["def_html"].as_bool().unwrap());
            let show = |s: &str| match s.strip_prefix("ok ") {
                Some(h) => format!("ok {:?}", String::from_utf8_lossy(&tera_verif_harness::wire::unhex(h.split(' ').next().unwrap()).unwrap_or_default())),
                None => s.to_string(),
            };
            println!("implementation: {}\nproperty (direct): {}\nmodel: {:?}", show(&imp), show(&want), driver::run_batch(&exe, &[req]).map(|v| show(&v[0])));
            return;
        }
        if let Some(d) = j.get("double_escape") {
            let r = no_double_escape(d["data"].as_str().unwrap(), d["lit"].as_str().unwrap(), d["autoescape"].as_bool().unwrap());
            println!("no-double-escape oracle: {r:?}");
            return;
        }
        let spec: CaseSpec = serde_json::from_value(j["spec"].clone()).expect("spec");
        match build(&spec) {
            None => println!("the chain is not applicable"),
            Some(b) => {
                for t in &b.tpls {
                    println!("--- template {:?} (autoescape by name: {})\n{}", t.0, t.2, t.1);
                }
                let o = eval(&spec, &b);
                let show = |s: &str| match s.strip_prefix("ok ") {
                    Some(h) => format!("ok {:?}", String::from_utf8_lossy(&tera_verif_harness::wire::unhex(h.split(' ').next().unwrap()).unwrap_or_default())),
                    None => s.to_string(),
                };
                println!("api: {:?}  suffixes: {:?}", spec.settings.api, spec.settings.suffixes);
                println!("implementation: {}", show(&o.imp));
                let m = driver::run_batch(&exe, &[o.req.clone()]);
                println!("model request: {}", o.req);
                println!("model: {}", m.map(|v| show(&v[0])).unwrap_or_else(|e| e));
                println!("direct oracles failing: {:?}", o.oracle_fail);
            }
        }
        return;
    }

    let mut rng = Rng::new(env.seed);
    let mut specs: Vec<CaseSpec> = Vec::new();

    // contexts
    let n_ctx = env.budget(3, 6);
    let contexts: Vec<BTreeMap<String, Value>> = (0..n_ctx).map(|i| make_context(&mut rng, i)).collect();
    let ctx_wires: Vec<BTreeMap<String, String>> = contexts.iter().map(ctx_wire).collect();

    // 1. exhaustive routing chains: every sequence of constructs up to the tier's length, for a
    //    string source under "all on" (the property's main clause), plus every single construct
    //    for every other source kind and for off / safe settings
    let all = all_constructs();
    let max_len = env.budget(3, 4);
    let on = Settings { suffixes: None, suffix_after: false, ae_bits: u64::MAX, api: Api::Render, inherit: false, final_safe: false, custom_escaper: false };
    let off = Settings { ae_bits: 0, ..on.clone() };
    let mut chains: Vec<Vec<C>> = vec![vec![]];
    let mut frontier: Vec<Vec<C>> = vec![vec![]];
    let upfront = if env.quick() { max_len } else { max_len - 1 };
    for _ in 0..upfront {
        let mut next = Vec::new();
        for ch in &frontier {
            for c in &all {
                let mut n = ch.clone();
                n.push(c.clone());
                next.push(n);
            }
        }
        chains.extend(next.iter().cloned());
        frontier = next;
    }
    let exhaustive_chain_count = chains.len();
    for (i, ch) in chains.iter().enumerate() {
        let src = if ch.first().is_some_and(|c| matches!(c, C::LoopOver | C::Attr)) {
            if ch[0] == C::Attr { Src::Map } else { Src::Arr }
        } else {
            Src::Var("s1".into())
        };
        specs.push(CaseSpec { src, chain: ch.clone(), settings: on.clone(), ctx: ctx_wires[i % ctx_wires.len()].clone() });
    }
    // every chain of length ≤ 2 also with autoescape off, with a final `safe`, and under inheritance
    for (i, ch) in chains.iter().enumerate().filter(|(_, c)| c.len() <= 2) {
        let ctx = ctx_wires[i % ctx_wires.len()].clone();
        specs.push(CaseSpec { src: Src::Var("s1".into()), chain: ch.clone(), settings: off.clone(), ctx: ctx.clone() });
        specs.push(CaseSpec { src: Src::Var("s1".into()), chain: ch.clone(), settings: Settings { final_safe: true, ..on.clone() }, ctx: ctx.clone() });
        specs.push(CaseSpec { src: Src::Var("s1".into()), chain: ch.clone(), settings: Settings { custom_escaper: true, ..on.clone() }, ctx: ctx.clone() });
        if ch.len() <= 1 || !env.quick() {
            specs.push(CaseSpec { src: Src::Super, chain: ch.clone(), settings: Settings { inherit: true, ..on.clone() }, ctx: ctx.clone() });
            specs.push(CaseSpec { src: Src::Var("s2".into()), chain: ch.clone(), settings: Settings { inherit: true, ..on.clone() }, ctx: ctx.clone() });
            specs.push(CaseSpec { src: Src::Super, chain: ch.clone(), settings: Settings { inherit: true, api: Api::RenderBlock, ..on.clone() }, ctx });
        }
    }
    for src in [Src::StrLit(3), Src::Concat, Src::Num, Src::Bool, Src::Float, Src::NoneV, Src::Arr, Src::Map, Src::Bytes, Src::SafeLit] {
        for ch in chains.iter().filter(|c| c.len() <= if matches!(src, Src::Bytes | Src::SafeLit) { 2 } else { 1 }) {
            for s in [&on, &off] {
                specs.push(CaseSpec { src: src.clone(), chain: ch.clone(), settings: s.clone(), ctx: ctx_wires[0].clone() });
            }
        }
    }
    let n_exhaustive = specs.len();

    // build + run on the implementation (in parallel), ask the model, compare: one batch at a time
    let threads = std::thread::available_parallelism().map(|n| n.get()).unwrap_or(8).min(16);
    let mut distinct: std::collections::HashSet<u64> = std::collections::HashSet::new();
    let mut mismatches: Vec<(CaseSpec, String)> = Vec::new();
    let mut oracle_fails: Vec<(CaseSpec, String, String)> = Vec::new();
    let mut reached = 0u64;
    let mut applicable = 0u64;
    let mut generated = 0u64;
    let mut model_raw_when_clean = 0u64;
    let mut driver_failed = false;
    let mut process = |specs: &[CaseSpec], report: &mut Report| {
        generated += specs.len() as u64;
        let chunk = specs.len().div_ceil(threads).max(1);
        let results: Vec<Option<(Built, Outcome)>> = std::thread::scope(|s| {
            let hs: Vec<_> = specs
                .chunks(chunk)
                .map(|cs| {
                    s.spawn(move || {
                        cs.iter()
                            .map(|spec| build(spec).map(|b| { let o = eval(spec, &b); (b, o) }))
                            .collect::<Vec<_>>()
                    })
                })
                .collect();
            hs.into_iter().flat_map(|h| h.join().unwrap()).collect()
        });
        let idx: Vec<usize> = results.iter().enumerate().filter(|(_, r)| r.is_some()).map(|(i, _)| i).collect();
        let reqs: Vec<String> = idx.iter().map(|i| results[*i].as_ref().unwrap().1.req.clone()).collect();
        let model: Vec<String> = if driver_failed { Vec::new() } else {
            match driver::run_batch_parallel(&exe, &reqs, threads) {
                Ok(m) => m,
                Err(e) => {
                    driver_failed = true;
                    report.notes.push(format!("model driver unavailable: {e}"));
                    report.violation("model-mismatch", format!("model driver could not be run: {e}"), serde_json::json!({"detail": {"stage": "driver"}, "error": e}));
                    Vec::new()
                }
            }
        };
        for (pos, i) in idx.iter().enumerate() {
            let (built, o) = results[*i].as_ref().unwrap();
            let spec = &specs[*i];
            applicable += 1;
            report.evaluations += 1;
            if o.reached {
                reached += 1;
            }
            report.count(&format!("outcome.{}", o.imp.split(' ').next().unwrap_or("")));
            report.count(&format!("templates.{}", built.n_templates.min(6)));
            report.count(&format!("chain-length.{}", spec.chain.len().min(7)));
            report.count(&format!("mode.{}", if built.all_on { "all-on" } else if built.all_off { "all-off" } else { "mixed" }));
            report.count(&format!("api.{}", match spec.settings.api { Api::Render => "render", Api::RenderStr(_) => "render_str", Api::OneOff(_) => "one_off", Api::RenderBlock => "render_block" }));
            if spec.settings.custom_escaper {
                report.count("escaper.configured");
            }
            report.count(if built.final_is_path { "sink.WritePath(final)" } else { "sink.WriteTop(final)" });
            if spec.settings.inherit {
                report.count("inheritance");
            }
            for c in &spec.chain {
                report.count(&format!("construct.{}", cname(c)));
            }
            if o.reached {
                use std::hash::{Hash, Hasher};
                let mut h = std::collections::hash_map::DefaultHasher::new();
                (built.prog.as_str(), built.root_ae, spec.settings.custom_escaper, spec.ctx.get("s1")).hash(&mut h);
                if distinct.insert(h.finish()) {
                    report.distinct_nontrivial += 1;
                }
            }
            report.oracle_checks += o.oracle_checks;
            for (n, d) in &o.oracle_fail {
                if oracle_fails.len() < 50 {
                    oracle_fails.push((spec.clone(), n.clone(), d.clone()));
                }
                report.oracle_failures += 1;
            }
            if !model.is_empty() {
                report.model_comparisons += 1;
                let m = &model[pos];
                let m_cmp = match m.strip_prefix("ok ") {
                    Some(rest) => format!("ok {}", rest.split(' ').next().unwrap_or("")),
                    None if m.starts_with("err") => "err".to_string(),
                    None => m.clone(),
                };
                if m_cmp != o.imp {
                    report.model_disagreements += 1;
                    if mismatches.len() < 50 {
                        mismatches.push((spec.clone(), m.clone()));
                    }
                    if std::env::var("VERIF_DEBUG").is_ok() {
                        eprintln!("MISMATCH chain={:?} src={:?} api={:?} inherit={}\n  tpls={:?}\n  prog={}\n  imp={}\n  model={}", spec.chain, spec.src, spec.settings.api, spec.settings.inherit, built.tpls, built.prog, o.imp.chars().take(300).collect::<String>(), m.chars().take(300).collect::<String>());
                    }
                }
                // the model's own tags: with everything on and no `safe` no byte may be tagged raw
                if built.all_on && !built.uses_safe && !built.safe_lit {
                    if let Some(tags) = m.strip_prefix("ok ").and_then(|r| r.split(' ').nth(1)) {
                        if tags.contains('r') {
                            model_raw_when_clean += 1;
                        }
                    }
                }
            }
        }
        // samples
        for k in [1usize, idx.len() / 2, idx.len().saturating_sub(1)] {
            if let Some(i) = idx.get(k) {
                let (b, o) = results[*i].as_ref().unwrap();
                report.sample(serde_json::json!({
                    "templates": b.tpls.iter().map(|t| format!("{} => {}", t.0, t.1)).collect::<Vec<_>>(),
                    "implementation": o.imp, "model": model.get(k), "model_program": b.prog,
                }));
            }
        }
    };

    process(&specs, &mut report);
    drop(specs);
    // thorough: every chain of exactly `max_len` constructs, streamed by first construct
    let mut exhaustive_chain_count = exhaustive_chain_count;
    if !env.quick() {
        let shorter: Vec<&Vec<C>> = chains.iter().filter(|c| c.len() == max_len - 1).collect();
        for c0 in &all {
            let batch: Vec<CaseSpec> = shorter
                .iter()
                .enumerate()
                .map(|(i, tail)| {
                    let mut ch = vec![c0.clone()];
                    ch.extend(tail.iter().cloned());
                    let src = match c0 { C::Attr => Src::Map, C::LoopOver => Src::Arr, _ => Src::Var("s1".into()) };
                    CaseSpec { src, chain: ch, settings: on.clone(), ctx: ctx_wires[i % ctx_wires.len()].clone() }
                })
                .collect();
            exhaustive_chain_count += batch.len();
            process(&batch, &mut report);
        }
    }
    // 2. random longer chains under random settings
    let n_random = env.budget(40000, 6_000_000);
    let mut left = n_random;
    while left > 0 {
        let take = left.min(100_000);
        left -= take;
        let mut batch = Vec::with_capacity(take);
        for k in 0..take {
            // 40 % "all on", 20 % off, 40 % mixed
            let mode: u8 = match k % 5 { 0 | 3 => 0, 1 => 1, _ => 2 };
            let mut st = random_settings(&mut rng, mode);
            let src = random_src(&mut rng, st.inherit);
            if src == Src::Super && !st.inherit {
                continue;
            }
            let len = 2 + rng.below(5);
            let mut chain: Vec<C> = (0..len).map(|_| random_construct(&mut rng)).collect();
            if rng.chance(1, 12) {
                let at = rng.below(chain.len() + 1);
                chain.insert(at, C::Safe);
            }
            st.final_safe = rng.chance(1, 10);
            batch.push(CaseSpec { src, chain, settings: st, ctx: ctx_wires[rng.below(ctx_wires.len())].clone() });
        }
        process(&batch, &mut report);
    }
    drop(process);
    report.count_n("generated.specs", generated);
    report.count_n("generated.exhaustive-specs", n_exhaustive as u64);
    report.count_n("generated.exhaustive-chains", exhaustive_chain_count as u64);
    report.count_n("generated.inapplicable", generated - applicable);
    report.count_n("reached-render", reached);
    if model_raw_when_clean > 0 {
        report.violation(
            "model-mismatch",
            format!("the model itself tags {model_raw_when_clean} outputs with a raw byte although C01_no_raw_byte's hypotheses hold"),
            serde_json::json!({"detail": {"stage": "model-self-check"}}),
        );
    }

    // scalar alphabet (the assumption behind `escape_id_on_scalars`, checked on the implementation):
    // the text of every bool / integer / float is drawn from [0-9A-Za-z.+-]
    {
        let mut bad: Option<String> = None;
        let n = env.budget(40_000, 1_000_000);
        let mut check = |v: Value, report: &mut Report| {
            let t = format!("{v}");
            report.oracle_checks += 1;
            if !t.bytes().all(|b| b.is_ascii_alphanumeric() || b == b'.' || b == b'+' || b == b'-') && bad.is_none() {
                bad = Some(format!("{} ({}) prints as {t:?}", t, v.name()));
            }
        };
        for _ in 0..n {
            check(Value::from(f64::from_bits(rng.next_u64())), &mut report);
            let sh = rng.below(128) as u32;
            check(Value::from((rng.next_u128() >> sh) as i128), &mut report);
        }
        for f in [0.0, -0.0, f64::NAN, f64::INFINITY, f64::NEG_INFINITY, f64::MAX, f64::MIN_POSITIVE, 5e-324, 1e16, 1e15, 1e-5, 123456789.125, 1e21, 1e-7] {
            check(Value::from(f), &mut report);
        }
        check(Value::from(true), &mut report);
        check(Value::from(u128::MAX), &mut report);
        check(Value::from(i128::MIN), &mut report);
        report.evaluations += 2 * n as u64;
        if let Some(b) = bad {
            report.oracle_failures += 1;
            report.violation("model-mismatch", format!("scalar text outside [0-9A-Za-z.+-]: {b}; `escape_id_on_scalars` no longer covers the sinks' fast path"), serde_json::json!({"detail": {"stage": "assumption:scalar-alphabet"}, "value": b}));
        }
    }

    // O4: no double escaping (engine only)
    let mut o4_fail: Option<(String, serde_json::Value)> = None;
    for (k, d) in HOSTILE.iter().enumerate() {
        for ae in [true, false] {
            let lit = LITS[k % LITS.len()];
            match no_double_escape(d, lit, ae) {
                Ok(n) => report.oracle_checks += n,
                Err(e) => {
                    report.oracle_failures += 1;
                    if o4_fail.is_none() {
                        o4_fail = Some((e, serde_json::json!({"double_escape": {"data": d, "lit": lit, "autoescape": ae}})));
                    }
                }
            }
            report.evaluations += 1;
        }
    }
    if let Some((e, r)) = o4_fail {
        report.violation("property", format!("O4 no-double-escape: {e}"), r);
    }

    // stream V: constructions of string values, representations (inline / heap), mint points
    if let Some((msg, r)) = value_stream(&mut report) {
        report.violation("property", msg, r);
    }

    // stream X: the escaper itself
    if let Some((msg, r)) = escaper_stream(&exe, env.budget(3, 4), &mut report) {
        report.violation("property", msg, r);
    }

    // stream W: every builtin filter / test / function / operator on hostile data (engine only)
    if let Some((msg, r)) = wide_stream(&contexts, &mut report) {
        report.violation("property", msg, r);
    }

    // O6: the API override reaches includes and nested components
    {
        let mut reqs = Vec::new();
        let mut imps = Vec::new();
        for d in HOSTILE.iter().take(6) {
            for k in 0..8u8 {
                let (flag, inc_html, def_html) = (k & 1 == 1, k & 2 == 2, k & 4 == 4);
                let (imp, req, want) = override_case(d, flag, inc_html, def_html);
                report.evaluations += 1;
                report.oracle_checks += 1;
                if imp != want {
                    report.oracle_failures += 1;
                    if report.violations.iter().all(|v| !v.summary.starts_with("O6")) {
                        report.violation(
                            "property",
                            format!("O6 override: render_component(.., autoescape = {flag}) of a component defined in defs.{} that includes inc.{} and calls another component: got `{imp}`, every value must be {} (`{want}`)", if def_html { "html" } else { "txt" }, if inc_html { "html" } else { "txt" }, if flag { "escaped" } else { "written verbatim" }),
                            serde_json::json!({"override_case": {"data": d, "flag": flag, "inc_html": inc_html, "def_html": def_html}}),
                        );
                    }
                }
                reqs.push(req);
                imps.push(imp);
            }
        }
        if let Ok(ms) = driver::run_batch(&exe, &reqs) {
            for (k, m) in ms.iter().enumerate() {
                report.model_comparisons += 1;
                let m_cmp = match m.strip_prefix("ok ") {
                    Some(rest) => format!("ok {}", rest.split(' ').next().unwrap_or("")),
                    None => m.clone(),
                };
                if m_cmp != imps[k] {
                    report.model_disagreements += 1;
                    if report.violations.iter().all(|v| v.kind != "model-mismatch") {
                        report.violation("model-mismatch", format!("override case: model `{m}` vs implementation `{}`", imps[k]), serde_json::json!({"detail": {"stage": "correspondence:override"}, "request": reqs[k]}));
                    }
                }
            }
        }
    }

    // a configured escaper that rewrites characters HTML does not care about (`$`, `\`, newline):
    // everything printed from an expression goes through it, literals included
    {
        fn shell_escaper(input: &str, out: &mut dyn std::io::Write) -> std::io::Result<()> {
            for b in input.bytes() {
                match b {
                    b'$' => out.write_all(b"(d)")?,
                    b'\\' => out.write_all(b"(b)")?,
                    b'\n' => out.write_all(b"(n)")?,
                    _ => out.write_all(&[b])?,
                }
            }
            Ok(())
        }
        let mut tera = Tera::default();
        tera.set_escape_fn(shell_escaper);
        let cases: [(&str, &str); 8] = [
            ("{{ \"a$b\" }}", "a(d)b"),
            ("{{ \"x\\\\y\" }}", "x(b)y"),
            ("{{ \"l\\nm\" }}", "l(n)m"),
            ("{{ \"$\" }}{{ '$' }}{{ `$` }}", "(d)(d)(d)"),
            ("{% set c %}{{ \"a$b\" }}{% endset %}{{ c }}", "a(d)b"),
            ("{% for i in [1] %}{{ \"a$b\" }}{% endfor %}{% if true %}{{ \"$\" }}{% endif %}", "a(d)b(d)"),
            ("{{ \"a$b\" ~ \"\" }}|{{ v }}|{{ [\"$\"] | first }}", "a(d)b|p(d)q|(d)"),
            ("text $ stays{{ \"$\" }}", "text $ stays(d)"),
        ];
        for (k, (t, want)) in cases.iter().enumerate() {
            report.evaluations += 1;
            report.oracle_checks += 1;
            let name = format!("sh{k}.html");
            let got = match tera.add_raw_template(&name, t) {
                Err(e) => format!("adderr {e:?}"),
                Ok(()) => {
                    let mut ctx = Context::new();
                    ctx.insert("v", "p$q");
                    tera.render(&name, &ctx).unwrap_or_else(|e| format!("error {e:?}"))
                }
            };
            if got != *want {
                report.oracle_failures += 1;
                if report.violations.iter().all(|v| !v.summary.starts_with("configured escaper ($")) {
                    report.violation(
                        "property",
                        format!("configured escaper ($ ↦ (d), \\ ↦ (b), newline ↦ (n)): `{t}` renders {got:?}, every expression result must go through it: {want:?}"),
                        serde_json::json!({"shell_escaper_case": t}),
                    );
                }
            }
        }
    }

    // O5: configured escaper; F10 is the known shape "scalar kind written by the fast path"
    {
        let mut tera = Tera::default();
        tera.set_escape_fn(custom_escaper);
        let cases = custom_cases();
        let mut reqs = Vec::new();
        let mut imps = Vec::new();
        for c in &cases {
            let mut t2 = tera.clone();
            t2.add_raw_template("t.html", &c.tpl).unwrap();
            let mut ctx = Context::new();
            ctx.insert_value("v", c.value.clone());
            let out = catch(std::panic::AssertUnwindSafe(|| t2.render("t.html", &ctx)));
            let imp = match out {
                Ok(Ok(s)) => format!("ok {}", hex(s.as_bytes())),
                Ok(Err(_)) => "err".into(),
                Err(p) => format!("panic {p}"),
            };
            report.evaluations += 1;
            report.oracle_checks += 1;
            // every data byte must have gone through the escaper: no `a` may be left
            if let Some(h) = imp.strip_prefix("ok ") {
                let s = String::from_utf8(tera_verif_harness::wire::unhex(h).unwrap()).unwrap_or_default();
                if s.contains('a') {
                    use tera::value::ValueKind as K;
                    let scalar = matches!(c.value.kind(), K::Bool | K::U64 | K::I64 | K::U128 | K::I128 | K::F64);
                    let direct = !c.tpl.contains('~');
                    report.oracle_failures += 1;
                    let mut v = tera_verif_harness::report::Violation {
                        kind: "property".into(),
                        summary: format!("configured escaper a↦? bypassed: `{}` with v = {} ({}) renders {s:?}", c.tpl, c.value, c.value.name()),
                        replay: serde_json::json!({"custom_escaper_case": c.name, "template": c.tpl, "output": s}),
                        known: None,
                    };
                    if scalar && direct {
                        v.known = Some("F10".into());
                        report.count("F10.known-shape");
                    }
                    report.violations.push(v);
                }
            }
            reqs.push(format!("render map:97:3f - 1 C1 v {} {}", tval(&c.value), c.prog));
            imps.push(imp);
        }
        if let Ok(ms) = driver::run_batch(&exe, &reqs) {
            for (k, m) in ms.iter().enumerate() {
                report.model_comparisons += 1;
                let m_cmp = match m.strip_prefix("ok ") {
                    Some(rest) => format!("ok {}", rest.split(' ').next().unwrap_or("")),
                    None if m.starts_with("err") => "err".to_string(),
                    None => m.clone(),
                };
                if m_cmp != imps[k] {
                    report.model_disagreements += 1;
                    report.violation(
                        "model-mismatch",
                        format!("custom escaper case {}: model `{m}` vs implementation `{}`", cases[k].name, imps[k]),
                        serde_json::json!({"detail": {"stage": "correspondence:custom-escaper"}, "custom_escaper_case": cases[k].name}),
                    );
                }
            }
        }
    }

    // violations: direct oracle failures first (shrunk), then model mismatches
        let mut seen_kinds = std::collections::HashSet::new();
    for (i, name, d) in oracle_fails.iter() {
        if !seen_kinds.insert(name.clone()) || seen_kinds.len() > 4 {
            continue;
        }
        let name2 = name.clone();
        let pred = move |s: &CaseSpec| build(s).is_some_and(|b| eval(s, &b).oracle_fail.iter().any(|(n, _)| *n == name2));
        let small = shrink(i, &pred);
        let b = build(&small).unwrap();
        let o = eval(&small, &b);
        let detail = o.oracle_fail.iter().find(|(n, _)| n == name).map(|x| x.1.clone()).unwrap_or(d.clone());
        report.violation(
            "property",
            format!("{name}: {detail}"),
            serde_json::json!({"spec": small, "case": describe(&small, &b), "implementation": o.imp, "rerun": "harness/target/release/c01 --replay <this file>"}),
        );
    }
    if oracle_fails.is_empty() && !mismatches.is_empty() {
        // targeted burst: single-edit neighbours of the first disagreeing chains under "all on",
        // looking for a direct-oracle failure
        let mut found = false;
        'burst: for (i, _) in mismatches.iter().take(5) {
            let base = i;
            for pos in 0..=base.chain.len() {
                for c in &all {
                    for replace in [false, true] {
                        let mut t = base.clone();
                        if replace {
                            if pos >= t.chain.len() { continue; }
                            t.chain[pos] = c.clone();
                        } else {
                            t.chain.insert(pos, c.clone());
                        }
                        t.settings = on.clone();
                        if t.src == Src::Super { t.settings.inherit = true; }
                        report.count("burst.cases");
                        if let Some(b) = build(&t) {
                            let o = eval(&t, &b);
                            if let Some((n, d)) = o.oracle_fail.first() {
                                let name2 = n.clone();
                                let pred = move |s: &CaseSpec| build(s).is_some_and(|b| eval(s, &b).oracle_fail.iter().any(|(n, _)| *n == name2));
                                let small = shrink(&t, &pred);
                                let b2 = build(&small).unwrap();
                                report.oracle_failures += 1;
                                report.violation("property", format!("{n}: {d}"), serde_json::json!({"spec": small, "case": describe(&small, &b2), "found_by": "burst around a model disagreement"}));
                                found = true;
                                break 'burst;
                            }
                        }
                    }
                }
            }
        }
        if !found {
            for (i, m) in mismatches.iter().take(3) {
                let exe2 = exe.clone();
                let pred = move |s: &CaseSpec| {
                    build(s).is_some_and(|b| {
                        let o = eval(s, &b);
                        driver::run_batch(&exe2, &[o.req.clone()]).is_ok_and(|ms| {
                            let m = &ms[0];
                            let m_cmp = match m.strip_prefix("ok ") {
                                Some(rest) => format!("ok {}", rest.split(' ').next().unwrap_or("")),
                                None if m.starts_with("err") => "err".to_string(),
                                None => m.clone(),
                            };
                            m_cmp != o.imp
                        })
                    })
                };
                let small = shrink(i, &pred);
                let b = build(&small).unwrap();
                let o = eval(&small, &b);
                report.violation(
                    "model-mismatch",
                    format!("SafeFlow model `{}` vs implementation `{}`", m.chars().take(200).collect::<String>(), o.imp.chars().take(200).collect::<String>()),
                    serde_json::json!({"detail": {"stage": "correspondence:safeflow-render"}, "spec": small, "case": describe(&small, &b), "implementation": o.imp}),
                );
            }
        }
    }

    report.exhaustive = true;
    report.notes.push(format!(
        "exhaustive: every chain of ≤ {max_len} routing constructs over {} construct variants ({} chains) for a hostile string under autoescape-on; chains of ≤ 2 also with autoescape off, with a final `safe`, and (≤ 1 in quick) under inheritance with super() as the source; {} of {} applicable cases reached a render result ({:.1} %)",
        all.len(), exhaustive_chain_count, reached, applicable, 100.0 * reached as f64 / applicable.max(1) as f64
    ));
    report.rule = "a case is a (source, routing chain, autoescape settings, hostile context) tuple that builds a well-formed template set; it is non-trivial when the engine renders it to a result (not an error), i.e. the data reached a sink; distinct by (model program, root autoescape flag, hostile string)".into();
    report.write(&out_path());
}
