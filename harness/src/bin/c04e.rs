//! C04 on the evaluator — extends / blocks / super() / render_block: inheritance families rendered
//! by the engine and by the Lean evaluator (pre-pass Model/EvalInherit.lean), with a reference
//! renderer written from the documentation as direct oracle.  Shared harness:
//! `tera_verif_harness::evalh`, model driver `drv_c03`, reported under property C04.
fn main() {
    tera_verif_harness::evalh::run("C04");
}
