//! C08 — template text is reproduced verbatim except whitespace next to `-` markers.
//!
//! Streams (all from one seeded PRNG):
//!  * structured: a template is a list of segments (text, `{{ m }}`, inert tags, comments, raw
//!    blocks) spelled under a generated delimiter set; the expected output is computed from the
//!    SEGMENT LIST by a small reference renderer written from the property statement (direct
//!    oracle, independent of the Lean model and of the lexer's structure)
//!  * exhaustive: every `-` placement over fixed 1/2-marker shapes with whitespace-padded texts
//!  * nostart: sources without any start delimiter must render to themselves
//!  * adversarial: delimiter soup, token stage only (partition oracle + model correspondence)
//! Correspondence: `lex raw`, `lex filtered`, `skeleton` answers of the Lean driver `drv_c08`.
use serde_json::json;
use std::cell::RefCell;
use std::collections::{HashMap, HashSet};
use std::hash::{Hash, Hasher};
use tera::{Context, Tera};
use tera_verif_harness::lexwire::{canon_tokens, lex_request, parse_answer, same_answer, skeleton_request, D};
use tera_verif_harness::report::{out_path, replay_path, Report};
use tera_verif_harness::rng::Rng;
use tera_verif_harness::wire::hex;
use tera_verif_harness::{catch, driver, quiet_panics, Env};

// ------------------------------------------------------------------ whitespace (property's table)

/// Unicode White_Space: the 25 code points the property names (deliberately not `char::is_whitespace`)
fn is_ws(c: char) -> bool {
    matches!(
        c as u32,
        0x9..=0xD | 0x20 | 0x85 | 0xA0 | 0x1680 | 0x2000..=0x200A | 0x2028 | 0x2029 | 0x202F | 0x205F | 0x3000
    )
}
fn trim_s(s: &str) -> &str {
    s.trim_start_matches(is_ws)
}
fn trim_e(s: &str) -> &str {
    s.trim_end_matches(is_ws)
}
/// what `is_ascii_whitespace` accepts (no U+000B)
fn is_ascii_ws_byte(b: u8) -> bool {
    matches!(b, b' ' | b'\t' | b'\n' | 0x0c | b'\r')
}

// ------------------------------------------------------------------ segments

const VAR_FORMS: [&str; 6] = [" m ", "m", " m|safe ", "  m  ", "\tm\n", " m | safe "];
/// kind: 0 set, 1 if, 2 endif, 3 for, 4 endfor
const TAG_FORMS: [[&str; 2]; 5] = [
    [" set z = 1 ", "set z=1"],
    [" if true ", "if true"],
    [" endif ", "endif"],
    [" for q in [1] ", "for q in [1]"],
    [" endfor ", "endfor"],
];
const RAW_WS: [&str; 7] = ["", " ", "  ", "\t", "\n", "\r\n ", "\x0c "];

#[derive(Clone, Debug, PartialEq, Eq, Hash)]
enum Seg {
    Text(String),
    Var { dl: bool, dr: bool, form: usize },
    Tag { dl: bool, dr: bool, kind: usize, form: usize },
    Comment { dl: bool, dr: bool, body: String },
    /// d = [`{%-` of raw, `-%}` of raw, `{%-` of endraw, `-%}` of endraw]; ws = the four inner ASCII paddings
    Raw { d: [bool; 4], ws: [usize; 4], body: String },
}

fn seg_to_json(s: &Seg) -> serde_json::Value {
    match s {
        Seg::Text(t) => json!({"k": "text", "s": t}),
        Seg::Var { dl, dr, form } => json!({"k": "var", "dl": dl, "dr": dr, "form": form}),
        Seg::Tag { dl, dr, kind, form } => json!({"k": "tag", "dl": dl, "dr": dr, "kind": kind, "form": form, "inner": TAG_FORMS[*kind][*form]}),
        Seg::Comment { dl, dr, body } => json!({"k": "comment", "dl": dl, "dr": dr, "body": body}),
        Seg::Raw { d, ws, body } => json!({"k": "raw", "d": d, "ws": ws, "body": body}),
    }
}

fn seg_from_json(v: &serde_json::Value) -> Option<Seg> {
    let b = |k: &str| v[k].as_bool();
    let u = |k: &str| v[k].as_u64().map(|x| x as usize);
    Some(match v["k"].as_str()? {
        "text" => Seg::Text(v["s"].as_str()?.to_string()),
        "var" => Seg::Var { dl: b("dl")?, dr: b("dr")?, form: u("form")?.min(VAR_FORMS.len() - 1) },
        "tag" => Seg::Tag { dl: b("dl")?, dr: b("dr")?, kind: u("kind")?.min(4), form: u("form")?.min(1) },
        "comment" => Seg::Comment { dl: b("dl")?, dr: b("dr")?, body: v["body"].as_str()?.to_string() },
        "raw" => {
            let da = v["d"].as_array()?;
            let wa = v["ws"].as_array()?;
            let mut d = [false; 4];
            let mut ws = [0usize; 4];
            for i in 0..4 {
                d[i] = da.get(i)?.as_bool()?;
                ws[i] = (wa.get(i)?.as_u64()? as usize).min(RAW_WS.len() - 1);
            }
            Seg::Raw { d, ws, body: v["body"].as_str()?.to_string() }
        }
        _ => return None,
    })
}

fn segs_to_json(segs: &[Seg]) -> serde_json::Value {
    serde_json::Value::Array(segs.iter().map(seg_to_json).collect())
}

/// A spelled template: source, byte range of every segment, byte range of the comment / raw body
struct Spelled {
    src: String,
    ranges: Vec<(usize, usize)>,
    inner: Vec<(usize, usize)>,
}

fn spell(segs: &[Seg], d: &D) -> Spelled {
    let mut src = String::new();
    let mut ranges = Vec::with_capacity(segs.len());
    let mut inner = Vec::with_capacity(segs.len());
    let dash = |b: bool| if b { "-" } else { "" };
    for s in segs {
        let a = src.len();
        let mut inn = (a, a);
        match s {
            Seg::Text(t) => {
                src.push_str(t);
                inn = (a, src.len());
            }
            Seg::Var { dl, dr, form } => {
                src.push_str(&d.vs);
                src.push_str(dash(*dl));
                src.push_str(VAR_FORMS[*form]);
                src.push_str(dash(*dr));
                src.push_str(&d.ve);
            }
            Seg::Tag { dl, dr, kind, form } => {
                src.push_str(&d.bs);
                src.push_str(dash(*dl));
                src.push_str(TAG_FORMS[*kind][*form]);
                src.push_str(dash(*dr));
                src.push_str(&d.be);
            }
            Seg::Comment { dl, dr, body } => {
                src.push_str(&d.cs);
                src.push_str(dash(*dl));
                let s0 = src.len();
                src.push_str(body);
                inn = (s0, src.len());
                src.push_str(dash(*dr));
                src.push_str(&d.ce);
            }
            Seg::Raw { d: dd, ws, body } => {
                src.push_str(&d.bs);
                src.push_str(dash(dd[0]));
                src.push_str(RAW_WS[ws[0]]);
                src.push_str("raw");
                src.push_str(RAW_WS[ws[1]]);
                src.push_str(dash(dd[1]));
                src.push_str(&d.be);
                let s0 = src.len();
                src.push_str(body);
                inn = (s0, src.len());
                src.push_str(&d.bs);
                src.push_str(dash(dd[2]));
                src.push_str(RAW_WS[ws[2]]);
                src.push_str("endraw");
                src.push_str(RAW_WS[ws[3]]);
                src.push_str(dash(dd[3]));
                src.push_str(&d.be);
            }
        }
        ranges.push((a, src.len()));
        inner.push(inn);
    }
    Spelled { src, ranges, inner }
}

// ------------------------------------------------------------------ independent left-to-right scan

/// next position >= from where one of the three start delimiters occurs (byte level)
fn find_start(src: &[u8], from: usize, d: &D) -> Option<usize> {
    let (b, v, c) = (d.bs.as_bytes(), d.vs.as_bytes(), d.cs.as_bytes());
    (from..src.len().saturating_sub(1)).find(|&p| {
        let w = &src[p..p + 2];
        w == b || w == v || w == c
    })
}

fn find_bytes(src: &[u8], from: usize, needle: &[u8]) -> Option<usize> {
    if src.len() < needle.len() {
        return None;
    }
    (from..=src.len() - needle.len()).find(|&p| &src[p..p + needle.len()] == needle)
}

/// `-`? ascii-ws* `endraw` ascii-ws* `-`? block_end, starting at `p` (just after a block start):
/// the end position when well formed
fn wf_endraw(src: &[u8], mut p: usize, be: &[u8]) -> Option<usize> {
    if src.get(p) == Some(&b'-') {
        p += 1;
    }
    while src.get(p).is_some_and(|b| is_ascii_ws_byte(*b)) {
        p += 1;
    }
    if src.get(p..p + 6) != Some(b"endraw") {
        return None;
    }
    p += 6;
    while src.get(p).is_some_and(|b| is_ascii_ws_byte(*b)) {
        p += 1;
    }
    if src.get(p) == Some(&b'-') {
        p += 1;
    }
    if src.get(p..p + 2) == Some(be) {
        Some(p + 2)
    } else {
        None
    }
}

/// A place where the spelled source would not be read as the intended segment list
#[derive(Debug)]
struct Problem {
    seg: usize,
    /// offset inside the segment's text / body of the character to drop; None = special comment-dash repair
    off: Option<usize>,
}

/// Does reading `sp.src` left to right (next start delimiter, first comment end, first well-formed
/// endraw) give back exactly the intended segments?
fn verify(segs: &[Seg], sp: &Spelled, d: &D) -> Option<Problem> {
    let src = sp.src.as_bytes();
    for (i, s) in segs.iter().enumerate() {
        let (a, b) = sp.ranges[i];
        let (ia, ib) = sp.inner[i];
        match s {
            Seg::Text(_) => {
                // no start delimiter inside the text and none straddling its right border
                if let Some(p) = find_start(src, a, d) {
                    if p < b {
                        return Some(Problem { seg: i, off: Some(p - a) });
                    }
                }
            }
            Seg::Var { .. } | Seg::Tag { .. } => {}
            Seg::Comment { dl, dr, body } => {
                let mut q = a + 2;
                let seen_dl = src.get(q) == Some(&b'-');
                if seen_dl != *dl {
                    // `{#` directly followed by a `-` that was meant as body or as the end dash
                    return Some(Problem { seg: i, off: if body.is_empty() { None } else { Some(0) } });
                }
                if *dl {
                    q += 1;
                }
                let e = find_bytes(src, q, d.ce.as_bytes())?;
                if e + 2 != b {
                    return Some(Problem { seg: i, off: Some(e.saturating_sub(ia).min(body.len().saturating_sub(1))) });
                }
                let seen_dr = e > q && src[e - 1] == b'-';
                if seen_dr != *dr {
                    if body.is_empty() {
                        return Some(Problem { seg: i, off: None });
                    }
                    // body ends with `-` that would be read as the end dash
                    let last = body.char_indices().last().map(|x| x.0).unwrap_or(0);
                    return Some(Problem { seg: i, off: Some(last) });
                }
            }
            Seg::Raw { .. } => {
                let bs = d.bs.as_bytes();
                // first block start followed by a well-formed endraw tag must be the intended one
                let mut p = ia;
                while let Some(f) = find_bytes(src, p, bs) {
                    if let Some(end) = wf_endraw(src, f + 2, d.be.as_bytes()) {
                        if f != ib || end != b {
                            return Some(Problem { seg: i, off: Some(f.saturating_sub(ia).min((ib - ia).saturating_sub(1))) });
                        }
                        break;
                    }
                    p = f + 1;
                }
                // (bodies ending in a prefix of a doubled-character block start such as `x<` before
                // `<< endraw >>` belong to the oracle stream since the fix of finding F16)
            }
        }
    }
    None
}

fn drop_char_at(s: &mut String, off: usize) {
    if s.is_empty() {
        return;
    }
    let mut o = off.min(s.len() - 1);
    while !s.is_char_boundary(o) {
        o -= 1;
    }
    s.remove(o);
}

/// Repair the segment list until it spells unambiguously under every set of `ds`; number of repairs
fn sanitize(segs: &mut Vec<Seg>, ds: &[&D]) -> Option<u32> {
    let mut fixed = 0u32;
    for _ in 0..400 {
        let mut clean = true;
        for d in ds {
            let sp = spell(segs, d);
            if let Some(pr) = verify(segs, &sp, d) {
                clean = false;
                fixed += 1;
                match &mut segs[pr.seg] {
                    Seg::Text(t) => drop_char_at(t, pr.off.unwrap_or(0)),
                    Seg::Comment { body, .. } => match pr.off {
                        Some(o) if !body.is_empty() => drop_char_at(body, o),
                        _ => body.push(' '),
                    },
                    Seg::Raw { body, .. } => {
                        if body.is_empty() {
                            return None;
                        }
                        drop_char_at(body, pr.off.unwrap_or(0))
                    }
                    _ => return None,
                }
                break;
            }
        }
        if clean {
            return Some(fixed);
        }
    }
    None
}

fn spells_cleanly(segs: &[Seg], d: &D) -> bool {
    let sp = spell(segs, d);
    verify(segs, &sp, d).is_none()
}

// ------------------------------------------------------------------ reference renderer (the oracle)

/// adjacent texts merged, empty texts dropped (an empty text is no text at all)
fn normalise(segs: &[Seg]) -> Vec<Seg> {
    let mut out: Vec<Seg> = Vec::new();
    for s in segs {
        match s {
            Seg::Text(t) if t.is_empty() => {}
            Seg::Text(t) => {
                if let Some(Seg::Text(prev)) = out.last_mut() {
                    prev.push_str(t);
                } else {
                    out.push(s.clone());
                }
            }
            _ => out.push(s.clone()),
        }
    }
    out
}

/// the marker's `-` facing the text that follows it
fn right_dash(s: &Seg) -> bool {
    match s {
        Seg::Text(_) => false,
        Seg::Var { dr, .. } | Seg::Tag { dr, .. } | Seg::Comment { dr, .. } => *dr,
        Seg::Raw { d, .. } => d[3],
    }
}
/// the marker's `-` facing the text that precedes it
fn left_dash(s: &Seg) -> bool {
    match s {
        Seg::Text(_) => false,
        Seg::Var { dl, .. } | Seg::Tag { dl, .. } | Seg::Comment { dl, .. } => *dl,
        Seg::Raw { d, .. } => d[0],
    }
}

const MARK: &str = "\u{1}";

/// What the property says the template renders to, from the segment list alone.
fn reference(segs: &[Seg]) -> String {
    let n = normalise(segs);
    let mut out = String::new();
    for (i, s) in n.iter().enumerate() {
        let before = i > 0 && right_dash(&n[i - 1]);
        let after = i + 1 < n.len() && left_dash(&n[i + 1]);
        match s {
            Seg::Text(t) => {
                let mut t: &str = t;
                if before {
                    t = trim_s(t);
                }
                if after {
                    t = trim_e(t);
                }
                out.push_str(t);
            }
            Seg::Var { .. } => out.push_str(MARK),
            Seg::Tag { .. } | Seg::Comment { .. } => {}
            Seg::Raw { d, body, .. } => {
                let mut t: &str = body;
                if d[1] || before {
                    t = trim_s(t);
                }
                if d[2] || after {
                    t = trim_e(t);
                }
                out.push_str(t);
            }
        }
    }
    out
}

/// The raw-token projection the property implies: one entry per text / marker
fn expected_projection(segs: &[Seg]) -> Vec<String> {
    let b = |x: bool| if x { '1' } else { '0' };
    normalise(segs)
        .iter()
        .map(|s| match s {
            Seg::Text(t) => format!("T:{}", hex(t.as_bytes())),
            Seg::Var { dl, dr, .. } => format!("V:{}:{}", b(*dl), b(*dr)),
            Seg::Tag { dl, dr, .. } => format!("G:{}:{}", b(*dl), b(*dr)),
            Seg::Comment { dl, dr, .. } => format!("C:{}:{}", b(*dl), b(*dr)),
            Seg::Raw { d, body, .. } => {
                let mut t: &str = body;
                if d[1] {
                    t = trim_s(t);
                }
                if d[2] {
                    t = trim_e(t);
                }
                format!("R:{}:{}:{}", b(d[0]), hex(t.as_bytes()), b(d[3]))
            }
        })
        .collect()
}

// ------------------------------------------------------------------ generators

const PUNCT: &[u8] = b"<>%[]#()$@{}!?*+~^&:;,/\\";
const SCALARS: [u32; 16] = [0xAB, 0xBB, 0xA7, 0xB6, 0xB5, 0xA4, 0xF7, 0xD7, 0xBF, 0xA1, 0xDF, 0x3A9, 0x44E, 0x85, 0xA0, 0x7FF];

fn ascii_pair(rng: &mut Rng) -> String {
    let a = *rng.pick(PUNCT) as char;
    let b = *rng.pick(PUNCT) as char;
    format!("{a}{b}")
}
fn scalar2(rng: &mut Rng) -> String {
    let cp = if rng.chance(2, 3) { *rng.pick(&SCALARS) } else { rng.range(0x80, 0x7FF) as u32 };
    char::from_u32(cp).unwrap().to_string()
}

const PRESETS: [[&str; 6]; 8] = [
    ["<%", "%>", "<<", ">>", "<#", "#>"],
    ["[%", "%]", "[[", "]]", "[#", "#]"],
    ["§", "¶", "«", "»", "µ", "¤"],
    ["((", "))", "$$", "$$", "@@", "@@"],
    ["<%", "%>", "«", "»", "<#", "#>"],
    ["{%", "%}", "{{", "}}", "{#", "#}"],
    ["<<", ">>", "<%", "%>", "<!", "!>"],
    ["%%", "%%", "&&", "&&", "##", "##"],
];

/// (set, class for the histogram); always an accepted set
fn gen_delims(rng: &mut Rng) -> (D, &'static str) {
    loop {
        let (d, class) = match rng.below(100) {
            0..=24 => (D::default(), "default"),
            25..=39 => {
                let p = rng.pick(&PRESETS);
                (D::new(p[0], p[1], p[2], p[3], p[4], p[5]), "preset")
            }
            40..=57 => (D::new(&ascii_pair(rng), &ascii_pair(rng), &ascii_pair(rng), &ascii_pair(rng), &ascii_pair(rng), &ascii_pair(rng)), "ascii"),
            58..=67 => (D::new(&scalar2(rng), &scalar2(rng), &scalar2(rng), &scalar2(rng), &scalar2(rng), &scalar2(rng)), "scalar"),
            68..=81 => {
                let f = |rng: &mut Rng| if rng.chance(1, 2) { ascii_pair(rng) } else { scalar2(rng) };
                (D::new(&f(rng), &f(rng), &f(rng), &f(rng), &f(rng), &f(rng)), "mixed")
            }
            82..=87 => {
                // starts share their first character, ends share their last
                let a = *rng.pick(PUNCT) as char;
                let z = *rng.pick(PUNCT) as char;
                let c = |rng: &mut Rng| *rng.pick(PUNCT) as char;
                let (x1, x2, x3, y1, y2, y3) = (c(rng), c(rng), c(rng), c(rng), c(rng), c(rng));
                (
                    D::new(&format!("{a}{x1}"), &format!("{y1}{z}"), &format!("{a}{x2}"), &format!("{y2}{z}"), &format!("{a}{x3}"), &format!("{y3}{z}")),
                    "shared_byte",
                )
            }
            88..=93 => {
                // an end delimiter equals another kind's start
                let (mut d, _) = (D::new(&ascii_pair(rng), &ascii_pair(rng), &ascii_pair(rng), &ascii_pair(rng), &ascii_pair(rng), &ascii_pair(rng)), 0);
                match rng.below(4) {
                    0 => d.ve = d.bs.clone(),
                    1 => d.be = d.vs.clone(),
                    2 => d.ce = d.vs.clone(),
                    _ => d.ve = d.cs.clone(),
                }
                (d, "end_is_other_start")
            }
            _ => {
                // an end delimiter equals its own start
                let mut d = D::new(&ascii_pair(rng), &ascii_pair(rng), &ascii_pair(rng), &ascii_pair(rng), &ascii_pair(rng), &ascii_pair(rng));
                match rng.below(4) {
                    0 => d.ve = d.vs.clone(),
                    1 => d.be = d.bs.clone(),
                    2 => d.ce = d.cs.clone(),
                    _ => {
                        d.ve = d.vs.clone();
                        d.be = d.bs.clone();
                        d.ce = d.cs.clone();
                    }
                }
                (d, "end_is_own_start")
            }
        };
        if d.accepted() {
            let class = if d == D::default() { "default" } else { class };
            return (d, class);
        }
    }
}

fn has_brackets(d: &D) -> bool {
    d.fields().iter().any(|f| f.contains('[') || f.contains(']'))
}

const WORDS: [&str; 18] = ["a", "b", "x", "hello", "foo bar", "0", "42", "<p>", "&amp;", "a-b", "-", "--", "raw", "endraw", "m", "é", "日本", "z."];
const WS_PIECES: [&str; 22] = [
    " ", "  ", "\t", "\n", "\r\n", "\u{b}", "\u{c}", "\r", "\u{85}", "\u{a0}", "\u{1680}", "\u{2000}", "\u{2003}", "\u{2009}", "\u{200a}", "\u{2028}", "\u{2029}", "\u{202f}", "\u{205f}",
    "\u{3000}", " \n ", "\t \u{a0}",
];
/// look like spaces but are NOT White_Space: must survive trimming
const NON_WS: [&str; 11] = ["\u{200b}", "\u{feff}", "\u{180e}", "\u{2060}", "\u{1f}", "\u{1c}", "\u{0}", "\u{1}", "\u{200c}", "\u{ad}", "\u{200d}"];
const DEFAULT_FRAGS: [&str; 14] = ["{", "}", "%", "#", "%}", "#}", "}}", "{ {", "{ %", "-}}", "-%}", "{-", "}{", "%{"];
const SHARE: [&str; 8] = ["»", "ë", "£", "«", "é", "ü", "\u{202b}", "Â"];

fn random_scalar(rng: &mut Rng) -> char {
    loop {
        let cp = match rng.below(5) {
            0 => rng.range(0x80, 0xFF),
            1 => rng.range(0x100, 0x7FF),
            2 => rng.range(0x800, 0xFFFF),
            3 => rng.range(0x1F300, 0x1F6FF),
            _ => rng.range(0x20, 0x7E),
        } as u32;
        if let Some(c) = char::from_u32(cp) {
            return c;
        }
    }
}

/// a character whose UTF-8 bytes overlap with a 2-byte-scalar delimiter of `d`
fn byte_sharing(rng: &mut Rng, d: &D) -> String {
    let scal: Vec<&str> = d.fields().into_iter().filter(|f| !f.is_ascii()).collect();
    if scal.is_empty() {
        return rng.pick(&SHARE).to_string();
    }
    let f = rng.pick(&scal).as_bytes();
    let (b0, b1) = (f[0], f[1]);
    let cand: [[u8; 2]; 4] = [[b0, 0x80 | ((b1 + 1) & 0x3f)], [b0, b1 ^ 1], [if b0 < 0xDF { b0 + 1 } else { b0 - 1 }, b1], [if b0 > 0xC2 { b0 - 1 } else { b0 + 1 }, b1]];
    let c = rng.pick(&cand);
    match std::str::from_utf8(c) {
        Ok(s) => s.to_string(),
        Err(_) => rng.pick(&SHARE).to_string(),
    }
}

fn delim_fragment(rng: &mut Rng, d: &D) -> String {
    if rng.chance(1, 4) {
        return rng.pick(&DEFAULT_FRAGS).to_string();
    }
    let fields = d.fields();
    let idx = rng.below(6);
    let f = fields[idx];
    let chars: Vec<char> = f.chars().collect();
    match rng.below(6) {
        0 => chars[0].to_string(),
        1 => chars[chars.len() - 1].to_string(),
        2 if idx % 2 == 1 => f.to_string(), // an end delimiter in the text
        3 if idx % 2 == 1 => format!("-{f}"),
        4 if chars.len() == 2 => format!("{} {}", chars[0], chars[1]),
        5 => format!("{f}"), // a whole delimiter (a start one gets repaired: counted)
        _ => chars[0].to_string(),
    }
}

fn piece(rng: &mut Rng, d: &D) -> String {
    match rng.below(100) {
        0..=24 => rng.pick(&WORDS).to_string(),
        25..=39 => rng.pick(&WS_PIECES).to_string(),
        40..=47 => rng.pick(&NON_WS).to_string(),
        48..=67 => delim_fragment(rng, d),
        68..=79 => byte_sharing(rng, d),
        80..=93 => random_scalar(rng).to_string(),
        _ => rng.pick(&["\r\n", "\t", "\n\n", " \r\n\t"]).to_string(),
    }
}

fn ws_run(rng: &mut Rng) -> String {
    let mut s = String::new();
    for _ in 0..=rng.below(3) {
        s.push_str(*rng.pick(&WS_PIECES));
    }
    s
}

fn gen_text(rng: &mut Rng, d: &D) -> String {
    match rng.below(12) {
        0 => String::new(),
        1 | 2 => ws_run(rng),
        k => {
            let mut s = String::new();
            if k <= 7 && rng.chance(2, 3) {
                s.push_str(&ws_run(rng));
            }
            for _ in 0..=rng.below(5) {
                s.push_str(&piece(rng, d));
            }
            if k <= 7 && rng.chance(2, 3) {
                s.push_str(&ws_run(rng));
            }
            s
        }
    }
}

fn gen_comment_body(rng: &mut Rng, d: &D) -> String {
    match rng.below(8) {
        0 => String::new(),
        1 => rng.pick(&["-", "--", " - ", " c -", "- c", " c "]).to_string(),
        2 => format!(" {} m {} ", d.vs, d.ve),
        3 => format!("{} if true {}", d.bs, d.be),
        4 => format!(" {} nested ", d.cs),
        5 => format!("{}-", gen_text(rng, d)),
        _ => gen_text(rng, d),
    }
}

fn gen_raw_body(rng: &mut Rng, d: &D) -> String {
    let mut s = String::new();
    if rng.chance(1, 2) {
        s.push_str(&ws_run(rng));
    }
    for _ in 0..=rng.below(3) {
        let p = match rng.below(16) {
            0 => d.vs.clone(),
            1 => d.cs.clone(),
            2 => format!("{} if x {}", d.bs, d.be),
            3 => format!("{} raw {}", d.bs, d.be),
            4 => format!("{} endraw", d.bs),
            5 => format!("{} endraws {}", d.bs, d.be),
            6 => format!("{}- endra", d.bs),
            7 => d.bs.clone(),
            8 => format!("{} m {}", d.vs, d.ve),
            9 => format!("{} c {}", d.cs, d.ce),
            10 => format!("{} - endraw {}", d.bs, d.be),
            11 => format!("{} endraw - {}", d.bs, d.be),
            12 => format!("{}\u{a0}endraw {}", d.bs, d.be),
            13 => format!("{}\u{b}endraw{}", d.bs, d.be),
            _ => gen_text(rng, d),
        };
        s.push_str(&p);
    }
    if rng.chance(1, 2) {
        s.push_str(&ws_run(rng));
    }
    s
}

fn gen_var(rng: &mut Rng, p: u32) -> Seg {
    Seg::Var { dl: rng.chance(p, 4), dr: rng.chance(p, 4), form: rng.below(VAR_FORMS.len()) }
}
fn gen_tag(rng: &mut Rng, p: u32, kind: usize) -> Seg {
    Seg::Tag { dl: rng.chance(p, 4), dr: rng.chance(p, 4), kind, form: rng.below(2) }
}
fn gen_comment(rng: &mut Rng, p: u32, d: &D) -> Seg {
    Seg::Comment { dl: rng.chance(p, 4), dr: rng.chance(p, 4), body: gen_comment_body(rng, d) }
}
fn gen_raw(rng: &mut Rng, p: u32, d: &D) -> Seg {
    let mut dd = [false; 4];
    let mut ws = [0usize; 4];
    for i in 0..4 {
        dd[i] = rng.chance(p, 4);
        ws[i] = if rng.chance(1, 2) { 1 } else { rng.below(RAW_WS.len()) };
    }
    Seg::Raw { d: dd, ws, body: gen_raw_body(rng, d) }
}

fn padded_text(rng: &mut Rng, d: &D) -> Seg {
    Seg::Text(format!("{}{}{}", ws_run(rng), piece(rng, d), ws_run(rng)))
}

/// A template as a segment list (balanced if/for pairs), before repair
fn gen_segments(rng: &mut Rng, d: &D, max_len: usize) -> Vec<Seg> {
    // dash density of this template: 1/4, 1/2, 3/4
    let p = [1u32, 2, 2, 3][rng.below(4)];
    if rng.chance(3, 20) {
        // fixed shapes around the former defect: a dashed marker, a comment / raw block, padded text
        let marker = |rng: &mut Rng, dl: Option<bool>, dr: Option<bool>| {
            let mut s = if rng.chance(1, 2) { gen_var(rng, p) } else { gen_tag(rng, p, 0) };
            if let Seg::Var { dl: l, dr: r, .. } | Seg::Tag { dl: l, dr: r, .. } = &mut s {
                if let Some(x) = dl {
                    *l = x;
                }
                if let Some(x) = dr {
                    *r = x;
                }
            }
            s
        };
        return match rng.below(6) {
            0 => vec![padded_text(rng, d), marker(rng, None, Some(true)), gen_comment(rng, p, d), padded_text(rng, d)],
            1 => vec![padded_text(rng, d), gen_comment(rng, p, d), marker(rng, Some(true), None), padded_text(rng, d)],
            2 => vec![padded_text(rng, d), marker(rng, None, Some(true)), gen_raw(rng, p, d), marker(rng, Some(true), None), padded_text(rng, d)],
            3 => vec![marker(rng, None, Some(true)), gen_comment(rng, p, d), gen_comment(rng, p, d), padded_text(rng, d), gen_comment(rng, p, d), marker(rng, Some(true), None)],
            4 => vec![padded_text(rng, d), gen_raw(rng, p, d), gen_comment(rng, p, d), padded_text(rng, d), gen_comment(rng, p, d), gen_raw(rng, p, d), padded_text(rng, d)],
            _ => vec![gen_comment(rng, p, d), Seg::Text(ws_run(rng)), marker(rng, None, None), Seg::Text(ws_run(rng)), gen_raw(rng, p, d)],
        };
    }
    let n = 1 + rng.below(max_len);
    let mut out: Vec<Seg> = Vec::new();
    let mut open: Vec<usize> = Vec::new(); // closing tag kinds still owed
    let brackets = has_brackets(d);
    while out.len() < n {
        let last_text = matches!(out.last(), Some(Seg::Text(_)));
        let k = rng.below(100);
        let s = match k {
            0..=36 if !last_text => Seg::Text(gen_text(rng, d)),
            0..=36 => gen_var(rng, p),
            37..=54 => gen_var(rng, p),
            55..=61 => gen_tag(rng, p, 0),
            62..=69 if open.len() < 3 => {
                if !brackets && rng.chance(1, 3) {
                    open.push(4);
                    gen_tag(rng, p, 3)
                } else {
                    open.push(2);
                    gen_tag(rng, p, 1)
                }
            }
            62..=69 => gen_comment(rng, p, d),
            70..=76 if !open.is_empty() => gen_tag(rng, p, open.pop().unwrap()),
            70..=84 => gen_comment(rng, p, d),
            _ => gen_raw(rng, p, d),
        };
        out.push(s);
    }
    while let Some(k) = open.pop() {
        if rng.chance(1, 2) {
            out.push(Seg::Text(gen_text(rng, d)));
        }
        out.push(gen_tag(rng, p, k));
    }
    if rng.chance(1, 2) {
        out.push(Seg::Text(gen_text(rng, d)));
    }
    out
}

/// any Unicode with end delimiters and lone delimiter characters, but no start delimiter
fn gen_nostart(rng: &mut Rng, d: &D) -> (String, u32) {
    let mut s = String::new();
    for _ in 0..rng.below(9) {
        match rng.below(5) {
            0 => s.push_str(rng.pick(&[&d.be, &d.ve, &d.ce]).as_str()),
            1 => s.push_str(&format!("-{}", rng.pick(&[&d.be, &d.ve, &d.ce]))),
            _ => s.push_str(&piece(rng, d)),
        }
    }
    let mut fixed = 0;
    while let Some(p) = find_start(s.as_bytes(), 0, d) {
        drop_char_at(&mut s, p);
        fixed += 1;
    }
    (s, fixed)
}

/// delimiter soup: mostly ill-formed, for the token stage only
fn gen_adversarial(rng: &mut Rng, d: &D) -> String {
    let mut s = String::new();
    for _ in 0..1 + rng.below(10) {
        let p: String = match rng.below(24) {
            0 => d.bs.clone(),
            1 => d.be.clone(),
            2 => d.vs.clone(),
            3 => d.ve.clone(),
            4 => d.cs.clone(),
            5 => d.ce.clone(),
            6 => "-".into(),
            7 => "raw".into(),
            8 => "endraw".into(),
            9 => format!("{}-", rng.pick(&[&d.bs, &d.vs, &d.cs])),
            10 => format!("-{}", rng.pick(&[&d.be, &d.ve, &d.ce])),
            11 => format!("{} raw {}", d.bs, d.be),
            12 => format!("{} endraw {}", d.bs, d.be),
            13 => format!("{}--raw{}", d.bs, d.be),
            14 => format!("{}-endraw-{}", d.bs, d.be),
            15 => " m ".into(),
            16 => rng.pick(&["'", "\"", "1.5", "1..2", "99999999999999999999", "a.b", "\\", "`"]).to_string(),
            17 | 18 => rng.pick(&WS_PIECES).to_string(),
            19 => d.bs.chars().next().unwrap().to_string(),
            20 => d.bs.chars().last().unwrap().to_string(),
            _ => piece(rng, d),
        };
        s.push_str(&p);
    }
    s
}

/// delimiter sets `set_delimiters` must reject (hand-written part)
fn invalid_pool() -> Vec<D> {
    vec![
        D::new("", "%}", "{{", "}}", "{#", "#}"),
        D::new("{", "%}", "{{", "}}", "{#", "#}"),
        D::new("[[[", "%}", "{{", "}}", "{#", "#}"),
        D::new("日", "%}", "{{", "}}", "{#", "#}"),
        D::new("{%", "%", "{{", "}}", "{#", "#}"),
        D::new("{%", "%}", "{{", "}}}", "{#", "#}"),
        D::new("{%", "%}", "{{", "}}", "{#", "😀"),
        D::new("[[", "%}", "{{", "}}", "[[", "#}"),
        D::new("{{", "%}", "{{", "}}", "{#", "#}"),
        D::new("{%", "%}", "{#", "}}", "{#", "#}"),
        D::new("{%", "{%", "{{", "{{", "{#", "{#"),
        D::new("{%", "{{", "{{", "{%", "{#", "#}"),
        D::new("é", "é", "ü", "ü", "ß", "ß"),
        D::new("éa", "%}", "{{", "}}", "{#", "#}"),
        D::new("{%", "%}", "{{", "}}", "{##", "#}"),
        D::new("{%", "%}", "{{", "}}", "{%", "#}"),
    ]
}

/// the k-th rejected variant of the accepted set `d` (they keep most of `d`, so a source spelled
/// under `d` would be read differently if the rejected set were used): (set, why)
fn rejected_variant(d: &D, k: usize) -> Option<Call> {
    let mut r = d.clone();
    let why = match k {
        0 => {
            r.cs = r.bs.clone();
            "starts_collide"
        }
        1 => {
            r.vs = r.bs.clone();
            "starts_collide"
        }
        2 => {
            r.cs = r.vs.clone();
            "starts_collide"
        }
        3 => {
            r.bs = r.vs.clone();
            "starts_collide"
        }
        4 => {
            r.vs.push('x');
            "three_bytes"
        }
        5 => {
            r.cs.push('#');
            "three_bytes"
        }
        6 => {
            r.bs = "日".into();
            "three_bytes"
        }
        7 => {
            r.ce.push('!');
            "three_bytes"
        }
        8 => {
            r.bs = String::new();
            "empty"
        }
        9 => {
            r.vs = String::new();
            "empty"
        }
        10 => {
            r.cs = r.cs.chars().next().filter(|c| c.is_ascii()).map(|c| c.to_string()).unwrap_or_else(|| "x".into());
            "one_byte"
        }
        11 => {
            r.ve = r.ve.chars().next().filter(|c| c.is_ascii()).map(|c| c.to_string()).unwrap_or_else(|| "x".into());
            "one_byte"
        }
        _ => return None,
    };
    (!r.accepted()).then_some(Call { d: r, ok: false, why })
}

fn gen_rejected(rng: &mut Rng, d: &D, src: &str) -> Call {
    loop {
        let c = match rng.below(10) {
            0..=5 => rejected_variant(d, rng.below(12)),
            6 => {
                // unrelated to the source's set: every marker of the source would become text
                let (mut r, _) = gen_delims(rng);
                r.cs = r.bs.clone();
                Some(Call { d: r, ok: false, why: "foreign_colliding" })
            }
            7 => {
                let pool = invalid_pool();
                Some(Call { d: rng.pick(&pool).clone(), ok: false, why: "pool" })
            }
            _ => {
                // two start delimiters taken from the text itself: literal text would become markers
                let idx: Vec<usize> = src.char_indices().map(|x| x.0).chain(std::iter::once(src.len())).collect();
                let cands: Vec<&str> = idx.iter().flat_map(|&a| idx.iter().filter(move |&&b| b == a + 2).map(move |&b| &src[a..b])).collect();
                if cands.is_empty() {
                    None
                } else {
                    let w = rng.pick(&cands).to_string();
                    let mut r = d.clone();
                    r.vs = w.clone();
                    r.cs = w;
                    Some(Call { d: r, ok: false, why: "text_derived" })
                }
            }
        };
        if let Some(c) = c {
            if !c.d.accepted() {
                return c;
            }
        }
    }
}

/// A sequence of `set_delimiters` calls with at least one rejected call after the last accepted
/// one, whose effective set (last accepted, else the default) is `d`
fn gen_history(rng: &mut Rng, d: &D, src: &str) -> Vec<Call> {
    let mut h = Vec::new();
    if is_custom(d) || rng.chance(1, 3) {
        if rng.chance(1, 3) {
            h.push(Call { d: gen_delims(rng).0, ok: true, why: "accepted" });
        }
        if rng.chance(1, 2) {
            h.push(gen_rejected(rng, d, src));
        }
        h.push(Call { d: d.clone(), ok: true, why: "accepted" });
    }
    for _ in 0..1 + rng.below(2) {
        h.push(gen_rejected(rng, d, src));
    }
    h
}

/// Deterministic block: every hand-written and derived rejected set x fixed sources x call shapes
fn history_cases() -> Vec<Case> {
    let preset = D::new("<%", "%>", "<<", ">>", "<#", "#>");
    let other = D::new("[%", "%]", "[[", "]]", "[#", "#]");
    let sources: Vec<Vec<Seg>> = vec![
        vec![
            Seg::Text("a ".into()),
            Seg::Comment { dl: false, dr: false, body: " note ".into() },
            Seg::Text("b ".into()),
            Seg::Var { dl: false, dr: false, form: 0 },
            Seg::Text(" c { %} ".into()),
            Seg::Tag { dl: false, dr: true, kind: 0, form: 0 },
            Seg::Raw { d: [false; 4], ws: [1; 4], body: " r ".into() },
            Seg::Text(" end".into()),
        ],
        vec![Seg::Text(" x ".into()), Seg::Var { dl: true, dr: true, form: 1 }, Seg::Text(" y ".into())],
        vec![Seg::Text("plain { text %} #} only".into())],
    ];
    let mut out = Vec::new();
    // effective set: default never set, default set explicitly, a custom set
    for (eff, explicit) in [(D::default(), false), (D::default(), true), (preset.clone(), true)] {
        let mut rejected: Vec<Call> = invalid_pool().into_iter().filter(|d| !d.accepted()).map(|d| Call { d, ok: false, why: "pool" }).collect();
        rejected.extend((0..12).filter_map(|k| rejected_variant(&eff, k)));
        for (ri, inv) in rejected.iter().enumerate() {
            let inv2 = rejected[(ri + 5) % rejected.len()].clone();
            for segs in &sources {
                let acc = |d: &D| Call { d: d.clone(), ok: true, why: "accepted" };
                let shapes: Vec<Vec<Call>> = if explicit {
                    vec![vec![acc(&eff), inv.clone()], vec![acc(&other), inv.clone(), acc(&eff)], vec![inv.clone(), acc(&eff), inv2.clone(), inv.clone()]]
                } else {
                    vec![vec![inv.clone()], vec![inv2.clone(), inv.clone()]]
                };
                for (si, history) in shapes.into_iter().enumerate() {
                    if !spells_cleanly(segs, &eff) {
                        continue;
                    }
                    let mut c = Case::from_segs("history", eff.clone(), if is_custom(&eff) { "preset" } else { "default" }, segs.clone(), None, 0);
                    c.x = Extra { history, via_template: (ri + si) % 2 == 1, wseed: (ri * 31 + si) as u64, file_route: 1 + ((ri + si) % 3) as u8 };
                    out.push(c);
                }
            }
        }
    }
    out
}

/// Every `-` placement over fixed shapes: `T X T`, `X T`, `T X`, `X`, `T X [mid] Y T` for markers
/// X, Y in {var, set tag, comment, raw}, with whitespace-padded texts.
fn exhaustive_cases() -> Vec<(D, Vec<Seg>)> {
    let delims = [D::default(), D::new("<%", "%>", "<<", ">>", "<#", "#>"), D::new("§", "¶", "«", "»", "µ", "¤")];
    let pads = [" ", "\n\t", "\u{a0}\u{2003}"];
    let nbits = |k: usize| if k == 3 { 4 } else { 2 };
    let make = |k: usize, bits: usize, pad: &str| -> Seg {
        let bit = |i: usize| bits >> i & 1 == 1;
        match k {
            0 => Seg::Var { dl: bit(0), dr: bit(1), form: 0 },
            1 => Seg::Tag { dl: bit(0), dr: bit(1), kind: 0, form: 0 },
            2 => Seg::Comment { dl: bit(0), dr: bit(1), body: format!("{pad}c{pad}") },
            _ => Seg::Raw { d: [bit(0), bit(1), bit(2), bit(3)], ws: [1, 1, 1, 1], body: format!("{pad}r{pad}") },
        }
    };
    let mut out = Vec::new();
    for d in &delims {
        for pad in pads {
            let ta = Seg::Text(format!("{pad}a{pad}"));
            let tb = Seg::Text(format!("{pad}b{pad}"));
            for x in 0..4 {
                for bx in 0..1usize << nbits(x) {
                    let sx = make(x, bx, pad);
                    out.push((d.clone(), vec![ta.clone(), sx.clone(), tb.clone()]));
                    out.push((d.clone(), vec![sx.clone(), tb.clone()]));
                    out.push((d.clone(), vec![ta.clone(), sx.clone()]));
                    out.push((d.clone(), vec![sx.clone()]));
                    for y in 0..4 {
                        for by in 0..1usize << nbits(y) {
                            let sy = make(y, by, pad);
                            for mid in ["", pad] {
                                let mut v = vec![ta.clone(), sx.clone()];
                                if !mid.is_empty() {
                                    v.push(Seg::Text(mid.to_string()));
                                }
                                v.push(sy.clone());
                                v.push(tb.clone());
                                out.push((d.clone(), v));
                            }
                        }
                    }
                }
            }
            // text if text endif text
            for bits in 0..16usize {
                let bit = |i: usize| bits >> i & 1 == 1;
                out.push((
                    d.clone(),
                    vec![
                        ta.clone(),
                        Seg::Tag { dl: bit(0), dr: bit(1), kind: 1, form: 0 },
                        Seg::Text(format!("{pad}i{pad}")),
                        Seg::Tag { dl: bit(2), dr: bit(3), kind: 2, form: 0 },
                        tb.clone(),
                    ],
                ));
            }
        }
    }
    out
}

// ------------------------------------------------------------------ cases, implementation runs

#[derive(Clone, Debug)]
struct Case {
    /// "structured" | "exhaustive" | "nostart" | "adversarial" | "probe"
    stream: &'static str,
    d: D,
    dclass: &'static str,
    segs: Option<Vec<Seg>>,
    src: String,
    /// second delimiter set for the respelling differential
    d2: Option<D>,
    fixed: u32,
    /// instance history, API path and writer seed
    x: Extra,
}

/// One `set_delimiters` call of an instance history
#[derive(Clone, Debug)]
struct Call {
    d: D,
    /// what the stated rule says the call returns
    ok: bool,
    why: &'static str,
}

#[derive(Clone, Debug, Default)]
struct Extra {
    /// `set_delimiters` calls made on a fresh instance before the template is rendered; the last
    /// accepted one (or the default set when there is none) is the case's delimiter set `d`
    history: Vec<Call>,
    /// after the history: `add_raw_template` + `render` / `render_to` instead of `render_str` / `render_str_to`
    via_template: bool,
    /// seed of the random short-write writer
    wseed: u64,
    /// template loaded from a file: 0 no, 1 `add_template_file(path, Some("t"))`,
    /// 2 `add_template_files([(side, "u"), (path, "t")])`, 3 `add_template_file(path, None)`
    file_route: u8,
}

impl Case {
    fn from_segs(stream: &'static str, d: D, dclass: &'static str, segs: Vec<Seg>, d2: Option<D>, fixed: u32) -> Case {
        let src = spell(&segs, &d).src;
        Case { stream, d, dclass, segs: Some(segs), src, d2, fixed, x: Extra::default() }
    }
    fn replay_json(&self, extra: serde_json::Value) -> serde_json::Value {
        json!({
            "stream": self.stream,
            "delimiters": self.d.to_json(),
            "delimiters2": self.d2.as_ref().map(|d| d.to_json()),
            "source": self.src,
            "source_hex": hex(self.src.as_bytes()),
            "segments": self.segs.as_ref().map(|s| segs_to_json(s)),
            "context": {"m": MARK},
            "autoescape": false,
            "history": self.x.history.iter().map(|c| json!({"delimiters": c.d.to_json(), "expect_ok": c.ok, "why": c.why})).collect::<Vec<_>>(),
            "via_template": self.x.via_template,
            "file_route": {"kind": self.x.file_route, "api": FILE_APIS[self.x.file_route as usize]},
            "writers": {"kinds": WRITERS, "random_seed": self.x.wseed.to_string()},
            "detail": extra,
            "rerun": "harness/target/release/c08 --replay <this file>",
        })
    }
}

struct Outcome {
    tok_raw: String,
    tok_filt: String,
    /// `ok:<hex>` | `err:<class>` | `panic:<msg>`
    rend: String,
    checks: u32,
    fail: Option<String>,
    /// per writer kind: (renders, `write` calls, calls that took fewer bytes than offered)
    wstats: [(u64, u64, u64); 3],
    /// the last rejected set of the history would lex this source differently from the effective one
    history_visible: bool,
    /// the file route was asked for but the scratch file could not be written
    file_io_error: bool,
}

thread_local! {
    static ENGINES: RefCell<HashMap<D, Option<Tera>>> = RefCell::new(HashMap::new());
}

fn context() -> Context {
    let mut ctx = Context::new();
    ctx.insert("m", MARK);
    ctx
}

/// class of the lexer error a token answer ends with, if any
fn lex_err_of(tok: &str) -> Option<&str> {
    let last = tok.rsplit(';').next()?;
    last.strip_prefix("ERR:").map(|r| r.split('@').next().unwrap_or(""))
}

fn wire_of(r: Result<Result<Vec<u8>, tera::Error>, String>, tok_filt: &str) -> String {
    match r {
        Err(p) => format!("panic:{}", p.replace('\n', " ")),
        Ok(Ok(bytes)) => format!("ok:{}", hex(&bytes)),
        Ok(Err(_)) => match lex_err_of(tok_filt) {
            Some(c) => format!("err:{c}"),
            None => "err:parse".to_string(),
        },
    }
}

/// run `f` on this thread's engine for the (accepted) delimiter set `d`
fn with_engine<T>(d: &D, f: impl FnOnce(Option<&Tera>) -> T) -> T {
    ENGINES.with(|cell| {
        let mut map = cell.borrow_mut();
        if map.len() > 300 {
            map.clear();
        }
        let eng = map.entry(d.clone()).or_insert_with(|| {
            let mut t = Tera::default();
            t.set_delimiters(d.to_delimiters()).ok().map(|_| t)
        });
        f(eng.as_ref())
    })
}

fn render_wire(d: &D, src: &str, tok_filt: &str) -> String {
    with_engine(d, |eng| {
        let Some(tera) = eng else {
            return "err:delimiters_rejected".to_string();
        };
        let ctx = context();
        wire_of(catch(std::panic::AssertUnwindSafe(|| tera.render_str(src, &ctx, false).map(String::into_bytes))), tok_filt)
    })
}

// ---- writer channel: the same bytes must arrive through writers that accept fewer bytes than offered

const WRITERS: [&str; 3] = ["one_byte_per_call", "random_1_to_7_bytes", "half_of_each_buffer"];

/// A correct `Write` whose `write` takes only part of the buffer (n > 0, never an error)
struct ShortWriter {
    kind: usize,
    rng: Rng,
    buf: Vec<u8>,
    calls: u64,
    short: u64,
}

impl std::io::Write for ShortWriter {
    fn write(&mut self, b: &[u8]) -> std::io::Result<usize> {
        if b.is_empty() {
            return Ok(0);
        }
        let n = match self.kind {
            0 => 1,
            1 => 1 + self.rng.below(7),
            _ => b.len().div_ceil(2),
        }
        .min(b.len());
        self.calls += 1;
        if n < b.len() {
            self.short += 1;
        }
        self.buf.extend_from_slice(&b[..n]);
        Ok(n)
    }
    fn flush(&mut self) -> std::io::Result<()> {
        Ok(())
    }
}

/// render through `render_str_to` into a short-write writer: (wire, write calls, short calls)
fn render_writer(c: &Case, kind: usize, tok_filt: &str) -> (String, u64, u64) {
    with_engine(&c.d, |eng| {
        let Some(tera) = eng else {
            return ("err:delimiters_rejected".to_string(), 0, 0);
        };
        let ctx = context();
        let mut w = ShortWriter { kind, rng: Rng::new(c.x.wseed), buf: Vec::new(), calls: 0, short: 0 };
        let r = catch(std::panic::AssertUnwindSafe(|| tera.render_str_to(&c.src, &ctx, false, &mut w)));
        let (calls, short) = (w.calls, w.short);
        (wire_of(r.map(|r| r.map(|_| w.buf)), tok_filt), calls, short)
    })
}

// ---- instance history: rejected `set_delimiters` calls must leave the instance as it was

/// Replay the history on a fresh instance, then render the source on that same instance:
/// (what every call returned, render wire, writer-path wire)
fn history_render(c: &Case, tok_filt: &str) -> (Vec<Result<bool, String>>, String, String) {
    let mut tera = Tera::default();
    let mut got = Vec::with_capacity(c.x.history.len());
    for call in &c.x.history {
        got.push(catch(std::panic::AssertUnwindSafe(|| tera.set_delimiters(call.d.to_delimiters()).is_ok())));
    }
    let ctx = context();
    let mut w = ShortWriter { kind: 1, rng: Rng::new(c.x.wseed), buf: Vec::new(), calls: 0, short: 0 };
    if c.x.via_template {
        let added = catch(std::panic::AssertUnwindSafe(|| tera.add_raw_template("t", &c.src)));
        match added {
            Ok(Ok(())) => {}
            Ok(Err(e)) => {
                let r = wire_of(Ok(Err(e)), tok_filt);
                return (got, r.clone(), r);
            }
            Err(p) => return (got, format!("panic:{p}"), format!("panic:{p}")),
        }
        let r1 = wire_of(catch(std::panic::AssertUnwindSafe(|| tera.render("t", &ctx).map(String::into_bytes))), tok_filt);
        let r2 = catch(std::panic::AssertUnwindSafe(|| tera.render_to("t", &ctx, &mut w)));
        (got, r1, wire_of(r2.map(|r| r.map(|_| w.buf)), tok_filt))
    } else {
        let r1 = wire_of(catch(std::panic::AssertUnwindSafe(|| tera.render_str(&c.src, &ctx, false).map(String::into_bytes))), tok_filt);
        let r2 = catch(std::panic::AssertUnwindSafe(|| tera.render_str_to(&c.src, &ctx, false, &mut w)));
        (got, r1, wire_of(r2.map(|r| r.map(|_| w.buf)), tok_filt))
    }
}

// ---- file route: a template loaded from a file is read with the instance's delimiter set

const FILE_APIS: [&str; 4] = ["none", "add_template_file(path, Some(name))", "add_template_files([side, (path, name)])", "add_template_file(path, None)"];
static THREAD_IDS: std::sync::atomic::AtomicUsize = std::sync::atomic::AtomicUsize::new(0);
thread_local! {
    /// this thread's scratch directory (created on first use) and a file counter
    static FILE_DIR: RefCell<(Option<std::path::PathBuf>, u64)> = const { RefCell::new((None, 0)) };
}

fn scratch_root() -> std::path::PathBuf {
    std::env::temp_dir().join(format!("tera_verif_c08_{}", std::process::id()))
}

/// a fresh file path in this thread's scratch directory
fn next_file() -> std::io::Result<std::path::PathBuf> {
    FILE_DIR.with(|cell| {
        let mut st = cell.borrow_mut();
        if st.0.is_none() {
            let dir = scratch_root().join(THREAD_IDS.fetch_add(1, std::sync::atomic::Ordering::SeqCst).to_string());
            std::fs::create_dir_all(&dir)?;
            st.0 = Some(dir);
        }
        st.1 += 1;
        Ok(st.0.as_ref().unwrap().join(format!("f{}.tpl", st.1)))
    })
}

/// The source written to a file, loaded through a file entry point on an instance that has the
/// case's delimiter set (installed by the case's history when it has one), then rendered by name.
/// Err = the scratch file could not be written (not an observation about the engine).
fn file_render(c: &Case, tok_filt: &str) -> Result<String, String> {
    let path = next_file().map_err(|e| e.to_string())?;
    std::fs::write(&path, c.src.as_bytes()).map_err(|e| e.to_string())?;
    let side = path.with_extension("side");
    if c.x.file_route == 2 {
        std::fs::write(&side, b"side file").map_err(|e| e.to_string())?;
    }
    let mut tera = Tera::default();
    let wire = (|| {
        if c.x.history.is_empty() {
            if is_custom(&c.d) && tera.set_delimiters(c.d.to_delimiters()).is_err() {
                return "err:delimiters_rejected".to_string();
            }
        } else {
            for call in &c.x.history {
                let _ = catch(std::panic::AssertUnwindSafe(|| tera.set_delimiters(call.d.to_delimiters()).is_ok()));
            }
        }
        let path_name = path.to_string_lossy().to_string();
        let name: &str = if c.x.file_route == 3 { &path_name } else { "t" };
        let added = catch(std::panic::AssertUnwindSafe(|| match c.x.file_route {
            2 => tera.add_template_files(vec![(side.clone(), Some("u")), (path.clone(), Some("t"))]),
            3 => tera.add_template_file(&path, None),
            _ => tera.add_template_file(&path, Some("t")),
        }));
        match added {
            Ok(Ok(())) => {}
            Ok(Err(e)) => return wire_of(Ok(Err(e)), tok_filt),
            Err(p) => return format!("panic:{p}"),
        }
        let ctx = context();
        wire_of(catch(std::panic::AssertUnwindSafe(|| tera.render(name, &ctx).map(String::into_bytes))), tok_filt)
    })();
    let _ = std::fs::remove_file(&path);
    if c.x.file_route == 2 {
        let _ = std::fs::remove_file(&side);
    }
    Ok(wire)
}

fn history_text(c: &Case) -> String {
    c.x.history.iter().map(|h| format!("{:?}->{}", h.d.fields(), if h.ok { "Ok" } else { "Err" })).collect::<Vec<_>>().join(", ")
}

/// (d) raw token ranges partition the source (gaps only inside tags, ASCII whitespace only) and
/// every CONTENT token carries exactly its slice. Also returns the marker projection.
fn check_partition(src: &str, tok_raw: &str) -> Result<Vec<String>, String> {
    let (toks, ending) = parse_answer(tok_raw);
    if ending.starts_with("PANIC") {
        return Err(format!("lexer panic: {ending}"));
    }
    if ending.starts_with("UNPARSED") || ending.is_empty() {
        return Err(format!("unreadable token answer: {ending}"));
    }
    let bytes = src.as_bytes();
    let mut pos = 0usize;
    let mut in_tag = false;
    let mut proj: Vec<String> = Vec::new();
    let mut open: Option<(char, String)> = None;
    let gap_ok = |a: usize, b: usize, in_tag: bool| a == b || (a < b && in_tag && bytes[a..b].iter().all(|x| is_ascii_ws_byte(*x)));
    for t in &toks {
        let (rs, re) = (t.span[4], t.span[5]);
        if re < rs || re > bytes.len() || !src.is_char_boundary(rs) || !src.is_char_boundary(re) {
            return Err(format!("token {} has a bad byte range {rs}..{re}", t.kind));
        }
        if !gap_ok(pos, rs, in_tag) {
            return Err(format!("token {} starts at byte {rs}, previous ended at {pos}", t.kind));
        }
        let arg = |i: usize| t.args.get(i).cloned().unwrap_or_default();
        match t.kind.as_str() {
            "CONTENT" => {
                if arg(0) != hex(&bytes[rs..re]) || rs == re {
                    return Err(format!("CONTENT token at {rs}..{re} does not carry its source slice"));
                }
                proj.push(format!("T:{}", arg(0)));
            }
            "RAW" => proj.push(format!("R:{}:{}:{}", arg(0), arg(1), arg(2))),
            "COMMENT" => proj.push(format!("C:{}:{}", arg(0), arg(1))),
            "VS" | "TS" if !in_tag => {
                in_tag = true;
                open = Some((if t.kind == "VS" { 'V' } else { 'G' }, arg(0)));
            }
            "VE" | "TE" if in_tag => {
                in_tag = false;
                if let Some((k, l)) = open.take() {
                    proj.push(format!("{k}:{l}:{}", arg(0)));
                }
            }
            _ => {}
        }
        pos = re;
    }
    if ending == "END" && !gap_ok(pos, bytes.len(), in_tag) {
        return Err(format!("tokens end at byte {pos} of {}", bytes.len()));
    }
    Ok(proj)
}

fn has_start(src: &str, d: &D) -> bool {
    find_start(src.as_bytes(), 0, d).is_some()
}

/// Run one case on the implementation and evaluate the property directly on what it did.
fn run_case(c: &Case) -> Outcome {
    let tok_raw = canon_tokens(&c.src, &c.d, false);
    let tok_filt = canon_tokens(&c.src, &c.d, true);
    let rend = render_wire(&c.d, &c.src, &tok_filt);
    let mut checks = 0u32;
    let mut fail: Option<String> = None;
    let mut set = |f: String| {
        if fail.is_none() {
            fail = Some(f);
        }
    };
    // (d) partition
    checks += 1;
    let proj = match check_partition(&c.src, &tok_raw) {
        Ok(p) => Some(p),
        Err(e) => {
            // the adversarial stream may legitimately stop in a lexer error; a bad range never is fine
            set(format!("tokens: {e}"));
            None
        }
    };
    if tok_filt.contains("PANIC:") {
        checks += 1;
        set("whitespace filter panicked".into());
    }
    if let Some(segs) = &c.segs {
        // (a) render == reference
        checks += 1;
        let want = format!("ok:{}", hex(reference(segs).as_bytes()));
        if rend != want {
            set(format!("render differs from the reference renderer: engine `{}` expected `{}`", short(&rend), short(&want)));
        }
        // (e) raw tokens are exactly the intended texts and markers
        if let Some(p) = proj {
            checks += 1;
            let exp = expected_projection(segs);
            if p != exp {
                set(format!("raw tokens `{}` differ from the intended segments `{}`", short(&p.join(",")), short(&exp.join(","))));
            }
        }
        // (c) respelling with another accepted delimiter set renders the same
        if let Some(d2) = &c.d2 {
            checks += 1;
            let src2 = spell(segs, d2).src;
            let t2 = canon_tokens(&src2, d2, true);
            let r2 = render_wire(d2, &src2, &t2);
            if r2 != rend {
                set(format!("respelling with delimiters {:?} changes the output: `{}` vs `{}`", d2.fields(), short(&r2), short(&rend)));
            }
        }
    }
    if !has_start(&c.src, &c.d) {
        // (b) no start delimiter => renders to itself, one CONTENT token
        checks += 1;
        let want = format!("ok:{}", hex(c.src.as_bytes()));
        if rend != want {
            set(format!("source without a start delimiter does not render to itself: `{}`", short(&rend)));
        }
    }
    // same bytes through every output channel: writers that take fewer bytes than offered
    let mut wstats = [(0u64, 0u64, 0u64); 3];
    if rend.starts_with("ok:") {
        for kind in 0..3 {
            checks += 1;
            let (w, calls, short_calls) = render_writer(c, kind, &tok_filt);
            wstats[kind] = (1, calls, short_calls);
            if w != rend {
                set(format!("writer {}: render_str_to delivered `{}`, render_str returned `{}`", WRITERS[kind], short(&w), short(&rend)));
            }
        }
    }
    // instance history: rejected set_delimiters calls change nothing
    let mut history_visible = false;
    if !c.x.history.is_empty() {
        let (got, r1, r2) = history_render(c, &tok_filt);
        for (call, g) in c.x.history.iter().zip(got.iter()) {
            checks += 1;
            if *g != Ok(call.ok) {
                set(format!("history: set_delimiters({:?}) returned {:?}, the stated rule says {}", call.d.fields(), g, if call.ok { "Ok" } else { "Err" }));
            }
        }
        checks += 2;
        let api = if c.x.via_template { "add_raw_template + render" } else { "render_str" };
        if r1 != rend {
            set(format!("history: after [{}] on one instance, {api} gives `{}`; an instance with only the effective set {:?} gives `{}`", history_text(c), short(&r1), c.d.fields(), short(&rend)));
        } else if r2 != rend {
            set(format!("history: after [{}] on one instance, the writer path of {api} delivers `{}` instead of `{}`", history_text(c), short(&r2), short(&rend)));
        }
        if let Some(last) = c.x.history.iter().rev().find(|h| !h.ok) {
            history_visible = canon_tokens(&c.src, &last.d, false) != tok_raw;
        }
    }
    // file route: same bytes when the template comes from a file
    let mut file_io_error = false;
    if c.x.file_route != 0 {
        match file_render(c, &tok_filt) {
            Err(_) => file_io_error = true,
            Ok(w) => {
                checks += 1;
                if w != rend {
                    let hist = if c.x.history.is_empty() { String::new() } else { format!(" after the calls [{}]", history_text(c)) };
                    set(format!(
                        "file-route: the source loaded from a file with {} on an instance with delimiters {:?}{hist} renders `{}`; given as a string it renders `{}`",
                        FILE_APIS[c.x.file_route as usize],
                        c.d.fields(),
                        short(&w),
                        short(&rend)
                    ));
                }
            }
        }
    }
    Outcome { tok_raw, tok_filt, rend, checks, fail, wstats, history_visible, file_io_error }
}

fn short(s: &str) -> String {
    if s.len() > 300 { format!("{}…", s.chars().take(300).collect::<String>()) } else { s.to_string() }
}

// ------------------------------------------------------------------ model comparison

const STAGES: [&str; 3] = ["lex-raw", "lex-filtered", "skeleton"];

fn request(c: &Case, stage: usize) -> String {
    match stage {
        0 => lex_request(false, &c.d, &c.src),
        1 => lex_request(true, &c.d, &c.src),
        _ => skeleton_request(&c.d, &c.src),
    }
}

/// Some(agree) or None when the comparison does not apply (parser-level error the lexer model cannot know)
fn stage_agrees(stage: usize, model: &str, o: &Outcome) -> Option<bool> {
    let model = model.trim();
    match stage {
        0 => Some(same_answer(model, &o.tok_raw)),
        1 => Some(same_answer(model, &o.tok_filt)),
        _ => {
            let m = if model == "ok:-" { "ok:" } else { model };
            if o.rend.starts_with("ok:") {
                Some(m == o.rend)
            } else if o.rend.starts_with("panic:") {
                Some(m.starts_with("panic:"))
            } else if lex_err_of(&o.tok_filt).is_some() {
                Some(m.starts_with("err:"))
            } else {
                None
            }
        }
    }
}

/// the skeleton comparison presumes every expression renders the marker: only for these streams
fn skeleton_applies(c: &Case) -> bool {
    c.stream != "adversarial"
}

// ------------------------------------------------------------------ shrinking, burst

/// smaller variants of a case, biggest cuts first; structured ones must still spell unambiguously
fn candidates(c: &Case) -> Vec<Case> {
    let mut out: Vec<Case> = Vec::new();
    let Some(segs) = &c.segs else {
        // plain source: drop chunks, then single characters
        let chars: Vec<char> = c.src.chars().collect();
        let n = chars.len();
        let mut push = |a: usize, b: usize| {
            let s: String = chars[..a].iter().chain(chars[b..].iter()).collect();
            out.push(Case { src: s, ..c.clone() });
        };
        let mut w = n / 2;
        while w >= 1 {
            let mut a = 0;
            while a + w <= n {
                push(a, a + w);
                a += w;
            }
            w /= 2;
        }
        if c.d != D::default() && c.x.history.is_empty() {
            out.push(Case { d: D::default(), dclass: "default", ..c.clone() });
        }
        out.extend(history_candidates(c));
        return out;
    };
    let mut push = |segs: Vec<Seg>, d: &D| {
        let ok = spells_cleanly(&segs, d) && c.d2.as_ref().is_none_or(|d2| spells_cleanly(&segs, d2));
        if ok && (&segs != c.segs.as_ref().unwrap() || d != &c.d) {
            let mut n = Case::from_segs(c.stream, d.clone(), if *d == D::default() { "default" } else { c.dclass }, segs, c.d2.clone(), c.fixed);
            n.x = c.x.clone();
            out.push(n);
        }
    };
    let n = segs.len();
    // drop a block of segments, a single one, or a matching open/close pair
    for w in [n / 2, n / 4] {
        if w >= 2 {
            let mut a = 0;
            while a + w <= n {
                let mut v = segs.clone();
                v.drain(a..a + w);
                push(v, &c.d);
                a += w;
            }
        }
    }
    for i in 0..n {
        let mut v = segs.clone();
        v.remove(i);
        push(v, &c.d);
    }
    for i in 0..n {
        if let Seg::Tag { kind: k @ (1 | 3), .. } = &segs[i] {
            for j in i + 1..n {
                if matches!(&segs[j], Seg::Tag { kind, .. } if *kind == k + 1) {
                    let mut v = segs.clone();
                    v.remove(j);
                    v.remove(i);
                    push(v, &c.d);
                }
            }
        }
    }
    if c.d != D::default() && c.x.history.is_empty() {
        // (with a history the effective set is part of the case: it stays)
        push(segs.clone(), &D::default());
    }
    // shorten texts and bodies
    for i in 0..n {
        let body: Option<&String> = match &segs[i] {
            Seg::Text(t) => Some(t),
            Seg::Comment { body, .. } | Seg::Raw { body, .. } => Some(body),
            _ => None,
        };
        let Some(t) = body else { continue };
        let chars: Vec<char> = t.chars().collect();
        let mut variants: Vec<String> = Vec::new();
        if !chars.is_empty() {
            variants.push(String::new());
            if chars.len() > 2 {
                variants.push(chars[..chars.len() / 2].iter().collect());
                variants.push(chars[chars.len() / 2..].iter().collect());
            }
            if chars.len() <= 24 {
                for k in 0..chars.len() {
                    variants.push(chars[..k].iter().chain(chars[k + 1..].iter()).collect());
                }
                // a simpler character with the same role
                for k in 0..chars.len() {
                    let r = if is_ws(chars[k]) { ' ' } else { 'a' };
                    if chars[k] != r {
                        let mut cs = chars.clone();
                        cs[k] = r;
                        variants.push(cs.into_iter().collect());
                    }
                }
            }
        }
        for nv in variants {
            let mut v = segs.clone();
            match &mut v[i] {
                Seg::Text(t) => *t = nv,
                Seg::Comment { body, .. } | Seg::Raw { body, .. } => *body = nv,
                _ => {}
            }
            push(v, &c.d);
        }
    }
    // clear dashes, simplify spellings
    for i in 0..n {
        let mut vs: Vec<Seg> = Vec::new();
        match &segs[i] {
            Seg::Var { dl, dr, form } => {
                if *dl {
                    vs.push(Seg::Var { dl: false, dr: *dr, form: *form });
                }
                if *dr {
                    vs.push(Seg::Var { dl: *dl, dr: false, form: *form });
                }
                if *form != 0 {
                    vs.push(Seg::Var { dl: *dl, dr: *dr, form: 0 });
                }
            }
            Seg::Tag { dl, dr, kind, form } => {
                if *dl {
                    vs.push(Seg::Tag { dl: false, dr: *dr, kind: *kind, form: *form });
                }
                if *dr {
                    vs.push(Seg::Tag { dl: *dl, dr: false, kind: *kind, form: *form });
                }
                if *form != 0 {
                    vs.push(Seg::Tag { dl: *dl, dr: *dr, kind: *kind, form: 0 });
                }
            }
            Seg::Comment { dl, dr, body } => {
                if *dl {
                    vs.push(Seg::Comment { dl: false, dr: *dr, body: body.clone() });
                }
                if *dr {
                    vs.push(Seg::Comment { dl: *dl, dr: false, body: body.clone() });
                }
            }
            Seg::Raw { d, ws, body } => {
                for k in 0..4 {
                    if d[k] {
                        let mut d2 = *d;
                        d2[k] = false;
                        vs.push(Seg::Raw { d: d2, ws: *ws, body: body.clone() });
                    }
                }
                if *ws != [1, 1, 1, 1] {
                    vs.push(Seg::Raw { d: *d, ws: [1, 1, 1, 1], body: body.clone() });
                }
            }
            Seg::Text(_) => {}
        }
        for s in vs {
            let mut v = segs.clone();
            v[i] = s;
            push(v, &c.d);
        }
    }
    out.extend(history_candidates(c));
    out
}

/// shorter histories with the same effective set; the plain API instead of a named template
fn history_candidates(c: &Case) -> Vec<Case> {
    let mut out = Vec::new();
    let last_ok = c.x.history.iter().rposition(|h| h.ok);
    for i in 0..c.x.history.len() {
        // the last accepted call defines the effective set: it may only go when that set is the default
        if Some(i) == last_ok && (is_custom(&c.d) || c.x.history[..i].iter().any(|h| h.ok)) {
            continue;
        }
        let mut n = c.clone();
        n.x.history.remove(i);
        out.push(n);
    }
    if c.x.via_template {
        let mut n = c.clone();
        n.x.via_template = false;
        out.push(n);
    }
    if c.x.file_route > 1 {
        let mut n = c.clone();
        n.x.file_route = 1;
        out.push(n);
    }
    out
}

fn shrink(mut c: Case, still_fails: &dyn Fn(&[Case]) -> Vec<bool>) -> Case {
    for _ in 0..400 {
        let cands = candidates(&c);
        if cands.is_empty() {
            break;
        }
        let res = still_fails(&cands);
        match res.iter().position(|b| *b) {
            Some(i) => c = cands[i].clone(),
            None => break,
        }
    }
    c
}

/// Variations around a case whose model answer differs: does any of them break the property itself?
fn burst(c: &Case, rng: &mut Rng, n: usize) -> Option<(Case, String)> {
    for _ in 0..n {
        let cand = match &c.segs {
            Some(segs) => {
                let mut v = segs.clone();
                let d = if rng.chance(1, 5) { gen_delims(rng).0 } else { c.d.clone() };
                for _ in 0..1 + rng.below(3) {
                    if v.is_empty() {
                        break;
                    }
                    let i = rng.below(v.len());
                    match rng.below(5) {
                        0 => v[i] = Seg::Text(gen_text(rng, &d)),
                        1 => v.insert(i, gen_segments(rng, &d, 1).remove(0)),
                        2 => v.insert(i, padded_text(rng, &d)),
                        _ => match &mut v[i] {
                            Seg::Var { dl, dr, .. } | Seg::Tag { dl, dr, .. } | Seg::Comment { dl, dr, .. } => {
                                if rng.chance(1, 2) {
                                    *dl = !*dl
                                } else {
                                    *dr = !*dr
                                }
                            }
                            Seg::Raw { d, .. } => {
                                let k = rng.below(4);
                                d[k] = !d[k];
                            }
                            Seg::Text(t) => *t = format!("{}{}{}", ws_run(rng), t, ws_run(rng)),
                        },
                    }
                }
                // insertions may unbalance if/for pairs: such variants simply fail to parse and are not counted
                let Some(fixed) = sanitize(&mut v, &[&d]) else { continue };
                let mut n = Case::from_segs(c.stream, d, c.dclass, v, None, fixed);
                n.x.wseed = rng.next_u64();
                if n.d == c.d {
                    n.x.history = c.x.history.clone();
                    n.x.via_template = c.x.via_template;
                }
                n
            }
            None => {
                let mut chars: Vec<char> = c.src.chars().collect();
                let p: Vec<char> = piece(rng, &c.d).chars().collect();
                let at = rng.below(chars.len() + 1);
                if rng.chance(1, 2) || chars.is_empty() {
                    chars.splice(at..at, p);
                } else {
                    chars.remove(at.min(chars.len() - 1));
                }
                Case { src: chars.into_iter().collect(), ..c.clone() }
            }
        };
        let o = run_case(&cand);
        if let Some(f) = o.fail {
            // an unbalanced variant is a parse error, not a property failure
            if cand.segs.is_some() && o.rend == "err:parse" {
                continue;
            }
            return Some((cand, f));
        }
    }
    None
}

// ------------------------------------------------------------------ replay

fn replay(path: &str, env: &Env) {
    let text = std::fs::read_to_string(path).expect("replay file");
    let j: serde_json::Value = serde_json::from_str(&text).expect("replay json");
    let d = D::from_json(&j["delimiters"]).unwrap_or_default();
    let segs: Option<Vec<Seg>> = j["segments"].as_array().and_then(|a| a.iter().map(seg_from_json).collect());
    let src = match j["source"].as_str() {
        Some(s) => s.to_string(),
        None => spell(segs.as_deref().unwrap_or(&[]), &d).src,
    };
    let d2 = D::from_json(&j["delimiters2"]);
    let history: Vec<Call> = j["history"]
        .as_array()
        .map(|a| a.iter().filter_map(|h| Some(Call { d: D::from_json(&h["delimiters"])?, ok: h["expect_ok"].as_bool()?, why: "replay" })).collect())
        .unwrap_or_default();
    let wseed = j["writers"]["random_seed"].as_str().and_then(|s| s.parse::<u64>().ok()).unwrap_or(0);
    let x = Extra { history, via_template: j["via_template"].as_bool().unwrap_or(false), wseed, file_route: j["file_route"]["kind"].as_u64().unwrap_or(0).min(3) as u8 };
    let c = Case { stream: "structured", d: d.clone(), dclass: "replay", segs: segs.clone(), src: src.clone(), d2: d2.clone(), fixed: 0, x };
    let o = run_case(&c);
    println!("delimiters: {:?}  (accepted: {})", d.fields(), d.accepted());
    println!("source: {src:?}");
    println!("source hex: {}", hex(src.as_bytes()));
    println!("implementation tokens (raw):      {}", o.tok_raw);
    println!("implementation tokens (filtered): {}", o.tok_filt);
    println!("implementation render:            {}", o.rend);
    if let Some(segs) = &segs {
        let sp = spell(segs, &d);
        println!("segments spell the source: {}; spelling unambiguous: {}", sp.src == src, verify(segs, &sp, &d).is_none());
        println!("reference output:                 ok:{}", hex(reference(segs).as_bytes()));
        println!("reference output (text):          {:?}", reference(segs));
        if let Some(d2) = &d2 {
            let src2 = spell(segs, d2).src;
            let t2 = canon_tokens(&src2, d2, true);
            println!("respelled with {:?}: {src2:?}\nrespelled render:                 {}", d2.fields(), render_wire(d2, &src2, &t2));
        }
    }
    for kind in 0..3 {
        let (w, calls, short_calls) = render_writer(&c, kind, &o.tok_filt);
        println!("render_str_to, writer {:<20} {}   [{} write calls, {} short; {}]", WRITERS[kind], w, calls, short_calls, if w == o.rend { "same bytes" } else { "DIFFERS" });
    }
    if !c.x.history.is_empty() {
        let (got, r1, r2) = history_render(&c, &o.tok_filt);
        println!("instance history (fresh Tera::default(), then in order):");
        for (call, g) in c.x.history.iter().zip(got.iter()) {
            println!("  set_delimiters({:?}) -> {:?}   (rule: {})", call.d.fields(), g, if call.ok { "Ok" } else { "Err" });
        }
        let api = if c.x.via_template { "add_raw_template + render" } else { "render_str" };
        println!("  then {api}:            {r1}   [{}]", if r1 == o.rend { "same as a clean instance" } else { "DIFFERS from a clean instance" });
        println!("  then its writer path:  {r2}");
    }
    if c.x.file_route != 0 {
        match file_render(&c, &o.tok_filt) {
            Ok(w) => println!("file route, {}: {w}   [{}]", FILE_APIS[c.x.file_route as usize], if w == o.rend { "same bytes as the string route" } else { "DIFFERS from the string route" }),
            Err(e) => println!("file route: scratch file could not be written ({e})"),
        }
    }
    let _ = std::fs::remove_dir_all(scratch_root());
    println!("direct oracle: {}", o.fail.clone().unwrap_or_else(|| "holds".into()));
    let exe = driver::driver_path(&env.verif_dir, "drv_c08");
    let reqs: Vec<String> = (0..3).map(|s| request(&c, s)).collect();
    match driver::run_batch(&exe, &reqs) {
        Ok(m) => {
            for s in 0..3 {
                let agree = stage_agrees(s, &m[s], &o);
                println!("model {:<13} {}   [{}]", STAGES[s], m[s], match agree {
                    Some(true) => "agrees",
                    Some(false) => "DIFFERS",
                    None => "not compared",
                });
            }
        }
        Err(e) => println!("model: unavailable ({e})"),
    }
}

// ------------------------------------------------------------------ bookkeeping

fn is_custom(d: &D) -> bool {
    *d != D::default()
}

/// the stated rule for `distinct_nontrivial`
fn nontrivial(c: &Case, o: &Outcome) -> bool {
    if !o.rend.starts_with("ok:") {
        return false;
    }
    match &c.segs {
        Some(segs) => {
            let n = normalise(segs);
            let lit = |s: &Seg| matches!(s, Seg::Text(_) | Seg::Raw { .. } | Seg::Comment { .. });
            is_custom(&c.d)
                || n.iter().any(|s| matches!(s, Seg::Raw { .. }))
                || (0..n.len()).any(|i| (left_dash(&n[i]) && i > 0 && lit(&n[i - 1])) || (right_dash(&n[i]) && i + 1 < n.len() && lit(&n[i + 1])))
        }
        None => c.stream == "nostart" && !c.src.is_empty() && (is_custom(&c.d) || c.src.chars().any(|ch| "{}%#".contains(ch) || (is_ws(ch) && !ch.is_ascii()))),
    }
}

fn hash_case(c: &Case) -> u64 {
    let mut h = std::collections::hash_map::DefaultHasher::new();
    c.d.hash(&mut h);
    c.src.hash(&mut h);
    h.finish()
}

fn tally(report: &mut Report, c: &Case, o: &Outcome) {
    report.count(&format!("stream.{}", c.stream));
    report.count(&format!("delims.{}", c.dclass));
    let class: String = o.rend.split(':').take(if o.rend.starts_with("err") { 2 } else { 1 }).collect::<Vec<_>>().join(":");
    report.count(&format!("outcome.{}.{}", c.stream, class));
    if c.fixed > 0 {
        report.count("sanitizer.cases_repaired");
        report.count_n("sanitizer.characters_dropped", c.fixed as u64);
    }
    if c.d2.is_some() {
        report.count("respelling.pairs");
    }
    for (k, (n, calls, short_calls)) in o.wstats.iter().enumerate() {
        if *n > 0 {
            report.count(&format!("writer.{}.renders", WRITERS[k]));
            report.count_n(&format!("writer.{}.write_calls", WRITERS[k]), *calls);
            report.count_n(&format!("writer.{}.short_writes", WRITERS[k]), *short_calls);
            if *short_calls > 0 {
                report.count(&format!("writer.{}.renders_with_a_short_write", WRITERS[k]));
            }
        }
    }
    if !c.x.history.is_empty() {
        report.count("history.cases");
        report.count(&format!("history.calls.{}", c.x.history.len().min(6)));
        report.count(if c.x.via_template { "history.api.add_raw_template_render" } else { "history.api.render_str" });
        report.count(if c.x.history.iter().any(|h| h.ok) { "history.effective.set_explicitly" } else { "history.effective.default_never_set" });
        for h in &c.x.history {
            report.count(&format!("history.call.{}", h.why));
        }
        if o.history_visible {
            report.count("history.last_rejected_set_would_change_lexing");
        }
    }
    if c.x.file_route != 0 {
        if o.file_io_error {
            report.count("file-route.io_error");
        } else {
            report.count("file-route.cases");
            report.count(&format!("file-route.api.{}", ["", "add_template_file_named", "add_template_files", "add_template_file_unnamed"][c.x.file_route as usize]));
            report.count(if is_custom(&c.d) { "file-route.custom_delimiters" } else { "file-route.default_delimiters" });
            report.count(&format!("file-route.stream.{}", c.stream));
            if !c.x.history.is_empty() {
                report.count("file-route.with_history");
            }
        }
    }
    let Some(segs) = &c.segs else { return };
    if c.stream == "exhaustive" {
        return;
    }
    report.count(&format!("segments.len.{:02}", segs.len().min(20)));
    let n = normalise(segs);
    for (i, s) in n.iter().enumerate() {
        let d2 = |l: bool, r: bool| format!("{}{}", if l { "L" } else { "-" }, if r { "R" } else { "-" });
        match s {
            Seg::Text(t) => {
                report.count("seg.text");
                let lead = t.chars().next().is_some_and(is_ws);
                let trail = t.chars().last().is_some_and(is_ws);
                if t.chars().all(is_ws) {
                    report.count("text.whitespace_only");
                } else {
                    if lead {
                        report.count("text.leading_ws");
                    }
                    if trail {
                        report.count("text.trailing_ws");
                    }
                }
                if t.chars().any(|c| is_ws(c) && !c.is_ascii()) {
                    report.count("text.multibyte_ws");
                }
                if t.chars().any(|c| NON_WS.iter().any(|n| n.starts_with(c))) {
                    report.count("text.non_ws_lookalike");
                }
                if c.d.fields().iter().any(|f| f.chars().any(|fc| t.contains(fc))) {
                    report.count("text.has_delimiter_character");
                }
                if !t.is_ascii() {
                    report.count("text.non_ascii");
                }
                let before = i > 0 && right_dash(&n[i - 1]);
                let after = i + 1 < n.len() && left_dash(&n[i + 1]);
                if (before && lead) || (after && trail) {
                    report.count("text.actually_trimmed");
                }
            }
            Seg::Var { dl, dr, .. } => report.count(&format!("seg.var.{}", d2(*dl, *dr))),
            Seg::Tag { dl, dr, kind, .. } => report.count(&format!("seg.tag.{}.{}", ["set", "if", "endif", "for", "endfor"][*kind], d2(*dl, *dr))),
            Seg::Comment { dl, dr, .. } => {
                report.count(&format!("seg.comment.{}", d2(*dl, *dr)));
                if i > 0 && right_dash(&n[i - 1]) && !matches!(n[i - 1], Seg::Text(_)) {
                    report.count("shape.dashed_end_then_comment");
                }
                if i + 1 < n.len() && left_dash(&n[i + 1]) {
                    report.count("shape.comment_then_dashed_start");
                }
            }
            Seg::Raw { d, .. } => {
                report.count(&format!("seg.raw.{}{}{}{}", d[0] as u8, d[1] as u8, d[2] as u8, d[3] as u8));
                if (i > 0 && right_dash(&n[i - 1])) || (i + 1 < n.len() && left_dash(&n[i + 1])) {
                    report.count("shape.raw_next_to_dashed_marker");
                }
            }
        }
        if i > 0 && !matches!(s, Seg::Text(_)) && !matches!(n[i - 1], Seg::Text(_)) {
            report.count("shape.adjacent_markers_no_text");
        }
    }
}

fn fail_class(f: &str) -> &str {
    f.split([':', ' ']).next().unwrap_or("")
}

struct Plan {
    structured: usize,
    nostart: usize,
    adversarial: usize,
    max_len: usize,
}

/// writer seed for every case; an instance history for one case in five
fn attach_extra(c: &mut Case, rng: &mut Rng) {
    c.x.wseed = rng.next_u64();
    if c.stream != "adversarial" && rng.chance(1, 5) {
        c.x.history = gen_history(rng, &c.d, &c.src);
        c.x.via_template = rng.chance(1, 2);
    }
    // file route: every custom-delimiter case, one default-delimiter case in six
    if c.stream != "adversarial" && (is_custom(&c.d) || rng.chance(1, 6)) {
        c.x.file_route = 1 + rng.below(3) as u8;
    }
}

fn gen_structured(rng: &mut Rng, max_len: usize) -> Case {
    loop {
        let (d, class) = gen_delims(rng);
        let len = if rng.chance(1, 12) { max_len * 3 } else { max_len };
        let mut segs = gen_segments(rng, &d, len);
        let mut d2 = if rng.chance(1, 3) { Some(gen_delims(rng).0).filter(|x| *x != d) } else { None };
        if d2.as_ref().is_some_and(has_brackets) && segs.iter().any(|s| matches!(s, Seg::Tag { kind: 3 | 4, .. })) {
            d2 = None;
        }
        let ds: Vec<&D> = std::iter::once(&d).chain(d2.iter()).collect();
        if let Some(fixed) = sanitize(&mut segs, &ds) {
            let mut c = Case::from_segs("structured", d, class, segs, d2, fixed);
            attach_extra(&mut c, rng);
            return c;
        }
    }
}

fn run_plan(plan: &Plan, fixed_cases: Vec<Case>, rng: &mut Rng, threads: usize) -> Vec<(Case, Outcome)> {
    let forks: Vec<Rng> = (0..threads).map(|_| rng.fork()).collect();
    let chunk = fixed_cases.len().div_ceil(threads).max(1);
    let fixed_chunks: Vec<&[Case]> = fixed_cases.chunks(chunk).collect();
    std::thread::scope(|s| {
        let hs: Vec<_> = forks
            .into_iter()
            .enumerate()
            .map(|(ti, mut rng)| {
                let mine: &[Case] = fixed_chunks.get(ti).copied().unwrap_or(&[]);
                let share = |n: usize| n / threads + usize::from(ti < n % threads);
                let (ns, nn, na) = (share(plan.structured), share(plan.nostart), share(plan.adversarial));
                let max_len = plan.max_len;
                s.spawn(move || {
                    let mut out: Vec<(Case, Outcome)> = Vec::with_capacity(mine.len() + ns + nn + na);
                    for c in mine {
                        let o = run_case(c);
                        out.push((c.clone(), o));
                    }
                    for _ in 0..ns {
                        let c = gen_structured(&mut rng, max_len);
                        let o = run_case(&c);
                        out.push((c, o));
                    }
                    for _ in 0..nn {
                        let (d, dclass) = gen_delims(&mut rng);
                        let (src, fixed) = gen_nostart(&mut rng, &d);
                        let mut c = Case { stream: "nostart", d, dclass, segs: None, src, d2: None, fixed, x: Extra::default() };
                        attach_extra(&mut c, &mut rng);
                        let o = run_case(&c);
                        out.push((c, o));
                    }
                    for _ in 0..na {
                        let (d, dclass) = gen_delims(&mut rng);
                        let src = gen_adversarial(&mut rng, &d);
                        let mut c = Case { stream: "adversarial", d, dclass, segs: None, src, d2: None, fixed: 0, x: Extra::default() };
                        attach_extra(&mut c, &mut rng);
                        let o = run_case(&c);
                        out.push((c, o));
                    }
                    out
                })
            })
            .collect();
        hs.into_iter().flat_map(|h| h.join().unwrap()).collect()
    })
}

// ------------------------------------------------------------------ main

fn main() {
    quiet_panics();
    let env = Env::from_env();
    if let Some(path) = replay_path() {
        replay(&path, &env);
        return;
    }
    let t0 = std::time::Instant::now();
    let mut report = Report::new("C08");
    let mut rng = Rng::new(env.seed);
    let threads = std::thread::available_parallelism().map(|n| n.get()).unwrap_or(8).min(16);
    let exe = driver::driver_path(&env.verif_dir, "drv_c08");
    let mut model_on = true;

    // accepted delimiter sets: the independent restatement agrees with `set_delimiters`
    {
        let mut sets: Vec<D> = invalid_pool();
        for _ in 0..env.budget(200, 2000) {
            sets.push(gen_delims(&mut rng).0);
            let f = |rng: &mut Rng| match rng.below(6) {
                0 => String::new(),
                1 => (*rng.pick(PUNCT) as char).to_string(),
                2 => format!("{}{}", ascii_pair(rng), *rng.pick(PUNCT) as char),
                3 => random_scalar(rng).to_string(),
                _ => ascii_pair(rng),
            };
            sets.push(D::new(&f(&mut rng), &f(&mut rng), &f(&mut rng), &f(&mut rng), &f(&mut rng), &f(&mut rng)));
        }
        for d in &sets {
            let got = catch(std::panic::AssertUnwindSafe(|| Tera::default().set_delimiters(d.to_delimiters()).is_ok()));
            report.oracle_checks += 1;
            report.count(&format!("delimiter_validation.{}", if d.accepted() { "accepted" } else { "rejected" }));
            if got != Ok(d.accepted()) {
                report.oracle_failures += 1;
                report.violation(
                    "property",
                    format!("delimiter set {:?}: set_delimiters says {:?}, the stated rule (six 2-byte strings, distinct starts) says {}", d.fields(), got, d.accepted()),
                    json!({"stream": "delimiter-validation", "delimiters": d.to_json(), "source": "", "segments": null}),
                );
            }
        }
    }

    // fixed cases of the first round: every dash placement over small shapes, plus probes
    let mut fixed_cases: Vec<Case> = Vec::new();
    for (d, segs) in exhaustive_cases() {
        let class = if is_custom(&d) { "preset" } else { "default" };
        if spells_cleanly(&segs, &d) {
            let mut c = Case::from_segs("exhaustive", d, class, segs, None, 0);
            let k = fixed_cases.len();
            if is_custom(&c.d) || k % 8 == 0 {
                c.x.file_route = 1 + (k % 3) as u8;
            }
            fixed_cases.push(c);
        } else {
            report.count("exhaustive.unspellable_skipped");
        }
    }
    report.count_n("exhaustive.dash_placement_cases", fixed_cases.len() as u64);
    fixed_cases.extend(history_cases());
    // the shape of the repaired defect, both directions, and a few hand-written sources
    for (src, want) in [
        ("{{ m -}}{# c #}  text", "\u{1}  text"),
        ("text  {# c #}{{- m }}", "text  \u{1}"),
        ("{{ m -}}{# c -#}  text", "\u{1}text"),
        ("a {#-#} b", "a b"),
        ("a {#--#} b", "ab"),
        ("a {#- -#} b", "ab"),
        ("a {%- raw -%} {{ x }} {%- endraw -%} b", "a{{ x }}b"),
        ("{% raw %}{% endraw %}", ""),
        ("\u{a0}{{- m -}}\u{3000}|\u{200b}{{- m }}", "\u{1}|\u{200b}\u{1}"),
    ] {
        let c = Case { stream: "probe", d: D::default(), dclass: "default", segs: None, src: src.to_string(), d2: None, fixed: 0, x: Extra::default() };
        let o = run_case(&c);
        report.oracle_checks += 1;
        if o.rend != format!("ok:{}", hex(want.as_bytes())) {
            report.oracle_failures += 1;
            report.violation("property", format!("`{}` renders `{}`, the property gives {:?}", src.escape_debug(), o.rend, want), c.replay_json(json!({"expected": want})));
        }
        fixed_cases.push(c);
    }
    // regression cases of finding F16 (fixed): an endraw tag whose block start overlaps a previous
    // candidate closes the raw block; the body keeps the extra delimiter character
    {
        let d = D::new("<<", ">>", "{{", "}}", "{#", "#}");
        for (src, want) in [("<< raw >>x<<< endraw >>", "x<"), ("<< raw >><<< endraw >>", "<"), ("<< raw >><<<< endraw >>", "<<"), ("a<< raw ->> <<<<< endraw >>b", "a<<<b")] {
            let c = Case { stream: "probe", d: d.clone(), dclass: "preset", segs: None, src: src.to_string(), d2: None, fixed: 0, x: Extra::default() };
            let o = run_case(&c);
            report.oracle_checks += 1;
            if o.rend != format!("ok:{}", hex(want.as_bytes())) {
                report.oracle_failures += 1;
                report.violation("property", format!("`{}` under block delimiters `<<` `>>` renders `{}`, the property gives {:?}", src.escape_debug(), o.rend, want), c.replay_json(json!({"expected": want})));
            }
            fixed_cases.push(c);
        }
        let c2 = Case { stream: "probe", d: D::default(), dclass: "default", segs: None, src: "a {%-- raw %} x {% endraw %} b".into(), d2: None, fixed: 0, x: Extra::default() };
        let o2 = run_case(&c2);
        report.notes.push(format!("observation (not judged): `{}` gives `{}` (a second `-` right after `{{%-` is accepted in a raw tag)", c2.src, o2.rend));
        fixed_cases.push(c2);
    }

    let total = Plan { structured: env.budget(30_000, 800_000), nostart: env.budget(4_000, 100_000), adversarial: env.budget(6_000, 100_000), max_len: env.budget(8, 10) };
    let rounds = (total.structured + total.nostart + total.adversarial).div_ceil(60_000);
    let mut distinct: HashSet<u64> = HashSet::new();
    let mut failures: Vec<(Case, String)> = Vec::new();
    let mut mismatches: Vec<(Case, usize, String)> = Vec::new();
    let (mut rendered_ok, mut render_expected) = (0u64, 0u64);
    let mut samples_by_stream: HashMap<&'static str, u32> = HashMap::new();

    for round in 0..rounds {
        let share = |n: usize| n / rounds + usize::from(round < n % rounds);
        let plan = Plan { structured: share(total.structured), nostart: share(total.nostart), adversarial: share(total.adversarial), max_len: total.max_len };
        let results = run_plan(&plan, std::mem::take(&mut fixed_cases), &mut rng, threads);

        // model answers for this round
        let mut reqs: Vec<String> = Vec::new();
        let mut req_of: Vec<(usize, usize)> = Vec::new();
        if model_on {
            for (i, (c, _)) in results.iter().enumerate() {
                for stage in 0..3 {
                    if stage == 2 && !skeleton_applies(c) {
                        continue;
                    }
                    reqs.push(request(c, stage));
                    req_of.push((i, stage));
                }
            }
        }
        let answers: Vec<String> = if model_on {
            match driver::run_batch_parallel(&exe, &reqs, threads) {
                Ok(a) => a,
                Err(e) => {
                    model_on = false;
                    report.notes.push(format!("model driver unavailable: {e}"));
                    report.violation("model-mismatch", format!("model driver could not be run: {e}"), json!({"stage": "driver", "error": e}));
                    Vec::new()
                }
            }
        } else {
            Vec::new()
        };
        for (k, ans) in answers.iter().enumerate() {
            let (i, stage) = req_of[k];
            let (c, o) = &results[i];
            match stage_agrees(stage, ans, o) {
                None => report.count("skeleton.skipped_parse_error"),
                Some(ok) => {
                    report.model_comparisons += 1;
                    report.count(&format!("model.{}.{}", STAGES[stage], if ok { "agree" } else { "differ" }));
                    if !ok {
                        report.model_disagreements += 1;
                        if mismatches.len() < 40 {
                            mismatches.push((c.clone(), stage, ans.clone()));
                        }
                    }
                }
            }
        }

        for (c, o) in &results {
            report.evaluations += 1;
            report.oracle_checks += o.checks as u64;
            tally(&mut report, c, o);
            if c.stream != "adversarial" {
                render_expected += 1;
                if o.rend.starts_with("ok:") {
                    rendered_ok += 1;
                }
            }
            if nontrivial(c, o) {
                distinct.insert(hash_case(c));
            }
            if let Some(f) = &o.fail {
                report.oracle_failures += 1;
                report.count(&format!("oracle_failure.{}", fail_class(f)));
                if failures.len() < 400 {
                    failures.push((c.clone(), f.clone()));
                }
            }
            let seen = samples_by_stream.entry(c.stream).or_insert(0);
            let cap = match c.stream {
                "structured" => 6,
                "exhaustive" | "probe" => 1,
                _ => 2,
            };
            if *seen < cap && (c.stream != "structured" || c.segs.as_ref().is_some_and(|s| s.len() >= 4)) {
                *seen += 1;
                report.sample(json!({
                    "stream": c.stream, "delimiters": c.d.to_json(), "source": c.src,
                    "segments": c.segs.as_ref().map(|s| segs_to_json(s)),
                    "implementation_render": o.rend, "implementation_tokens_filtered": short(&o.tok_filt),
                    "reference": c.segs.as_ref().map(|s| reference(s)),
                }));
            }
        }
    }

    // ---- failures: shrink and report
    let oracle_pred = |orig_fail: &str, orig_ok: bool| {
        let class = fail_class(orig_fail).to_string();
        move |cands: &[Case]| -> Vec<bool> {
            cands
                .iter()
                .map(|c| {
                    let o = run_case(c);
                    o.fail.as_deref().is_some_and(|f| fail_class(f) == class) && (!orig_ok || o.rend.starts_with("ok:"))
                })
                .collect()
        }
    };
    // simplest first: default delimiters, short sources; one failure class after the other
    failures.sort_by_key(|(c, _)| (is_custom(&c.d), c.dclass != "preset", c.d.fields().iter().any(|f| !f.is_ascii()), c.src.len()));
    {
        let mut seen_class: HashMap<String, usize> = HashMap::new();
        let mut rank: Vec<(usize, usize)> = failures.iter().enumerate().map(|(i, (_, f))| {
            let n = seen_class.entry(fail_class(f).to_string()).or_insert(0);
            *n += 1;
            (*n, i)
        }).collect();
        rank.sort();
        failures = rank.into_iter().map(|(_, i)| failures[i].clone()).collect();
    }
    let mut reported: HashSet<String> = HashSet::new();
    for (c, f) in failures.iter().take(12) {
        let orig_ok = run_case(c).rend.starts_with("ok:");
        let small = shrink(c.clone(), &oracle_pred(f, orig_ok));
        let o = run_case(&small);
        let msg = o.fail.clone().unwrap_or_else(|| f.clone());
        if !reported.insert(format!("{:?}|{}", small.d, small.src)) {
            continue;
        }
        if reported.len() > 5 {
            break;
        }
        report.violation(
            "property",
            format!("delimiters {:?}, source {:?}: {}", small.d.fields(), small.src, msg),
            small.replay_json(json!({
                "oracle": msg, "implementation_render": o.rend, "implementation_tokens_raw": o.tok_raw, "implementation_tokens_filtered": o.tok_filt,
                "reference": small.segs.as_ref().map(|s| reference(s)), "original_source": c.src,
            })),
        );
    }
    if failures.is_empty() && model_on {
        let model_pred = |stage: usize| {
            let exe = exe.clone();
            move |cands: &[Case]| -> Vec<bool> {
                let reqs: Vec<String> = cands.iter().map(|c| request(c, stage)).collect();
                match driver::run_batch(&exe, &reqs) {
                    Ok(ans) => cands.iter().zip(ans.iter()).map(|(c, a)| stage_agrees(stage, a, &run_case(c)) == Some(false)).collect(),
                    Err(_) => vec![false; cands.len()],
                }
            }
        };
        let mut seen: HashSet<String> = HashSet::new();
        for (c, stage, ans) in mismatches.iter().take(10) {
            let small = shrink(c.clone(), &model_pred(*stage));
            if !seen.insert(format!("{}|{:?}|{}", stage, small.d, small.src)) {
                continue;
            }
            if seen.len() > 4 {
                break;
            }
            // does the implementation break the property itself somewhere around this case?
            let n_burst = env.budget(2_000, 20_000);
            report.count_n("burst.variants", n_burst as u64);
            if let Some((bc, bf)) = burst(&small, &mut rng, n_burst) {
                let orig_ok = run_case(&bc).rend.starts_with("ok:");
                let bs = shrink(bc, &oracle_pred(&bf, orig_ok));
                let o = run_case(&bs);
                report.oracle_failures += 1;
                report.violation(
                    "property",
                    format!("delimiters {:?}, source {:?}: {}", bs.d.fields(), bs.src, o.fail.clone().unwrap_or(bf)),
                    bs.replay_json(json!({"found_by": "burst around a model disagreement", "implementation_render": o.rend})),
                );
                continue;
            }
            let o = run_case(&small);
            let m = driver::run_batch(&exe, &[request(&small, *stage)]).ok().and_then(|v| v.into_iter().next()).unwrap_or_else(|| ans.clone());
            let imp = match stage {
                0 => &o.tok_raw,
                1 => &o.tok_filt,
                _ => &o.rend,
            };
            let mut rj = small.replay_json(json!({"model": m, "implementation": imp, "original_source": c.src}));
            rj["stage"] = json!(STAGES[*stage]);
            report.violation(
                "model-mismatch",
                format!("{}: delimiters {:?}, source {:?}: model `{}` vs implementation `{}`", STAGES[*stage], small.d.fields(), small.src, short(&m), short(imp)),
                rj,
            );
        }
    }

    report.distinct_nontrivial = distinct.len() as u64;
    report.exhaustive = false;
    let pct = if render_expected > 0 { rendered_ok * 100 / render_expected } else { 0 };
    report.count_n("reached_rendering.percent_of_renderable_streams", pct);
    report.count_n("reached_rendering.cases", rendered_ok);
    report.count_n("wall_seconds", t0.elapsed().as_secs());
    if pct < 60 {
        report.notes.push(format!("only {pct} % of the structured / exhaustive / no-start cases rendered"));
    }
    report.notes.push(
        "the exhaustive part enumerates every `-` placement over the shapes T X T, X T, T X, X, T X [mid] Y T (X, Y in var, set-tag, comment, raw) and T if T endif T, three paddings, three delimiter sets; the other streams are sampled"
            .into(),
    );
    report.rule = "distinct (delimiter set, source) pairs that rendered successfully and contain a dashed marker directly next to a text, raw body or comment, or a raw block, or use a custom delimiter set; for no-start sources: non-empty and either under a custom delimiter set or containing a delimiter character or non-ASCII whitespace; adversarial (token-stage only) sources are not counted".into();
    let _ = std::fs::remove_dir_all(scratch_root());
    report.write(&out_path());
}
