//! C17 — every built-in filter, test and function is total and honours its contract.
//!
//! The FULL matrix on the implementation, under `catch_unwind`: every registered filter / test /
//! function × representative receivers of every kind × keyword arguments absent / of the right
//! kind (incl. boundary values, multi-byte text) / of a wrong kind — each cell evaluated twice:
//! through a real template (`{{ v | f(k=a) }}`, `{{ v is t(k=a) }}`, `{{ fn(k=a) }}`, the value
//! captured by a probe filter) and through `StoredFilter::call` etc. (hook `call_builtin`, which
//! keeps the `ErrorKind`).  Then
//!  * direct oracles written here, independent of the Lean model: no panic; valid UTF-8 of every
//!    string result; a receiver or argument of the wrong kind / a missing required argument is
//!    reported as InvalidArgument / OutOfRangeArgument / MissingArgument (not a panic, not a
//!    coerced result), an argument the built-in does not declare changes nothing; per-filter laws
//!    (case filters change only case, trim* remove only matching ends, truncate, replace, indent,
//!    newlines_to_br, escape_*, wordcount by reference implementations; int / float / round / abs
//!    against exact arithmetic; default; pluralize; get; the type-test partition; odd / even /
//!    divisible_by; range against the arithmetic progression);
//!  * correspondence with the Lean model (`drv_c17`): outcome class for every modelled cell, value
//!    for the modelled filters, on the matrix and on seeded random streams of multi-byte strings,
//!    boundary numbers and range arguments.
use std::cell::RefCell;
use std::collections::{BTreeMap, BTreeSet};
use std::panic::AssertUnwindSafe;

use serde_json::json;
use tera::{Context, ErrorKind, Kwargs, State, Tera, Value};
use tera_verif_harness::report::{out_path, replay_path, Report};
use tera_verif_harness::rng::Rng;
use tera_verif_harness::wire::{decode, encode};
use tera_verif_harness::{catch, driver, quiet_panics, Env};

thread_local! {
    static PROBE: RefCell<Option<Value>> = const { RefCell::new(None) };
}

const MAX_RANGE_LEN: i128 = 100_000;

// ------------------------------------------------------------------ signatures (the documented contract)
#[derive(Clone, Copy, PartialEq, Debug)]
enum Ty {
    Str,
    CowStr,
    Val,
    Slice,
    Map,
    F64,
    Number,
    Bool,
    Usize,
    U32,
    I32,
    I128,
    NoRecv,
}

#[derive(Clone, Copy, PartialEq, Debug)]
enum Acc {
    Ok,
    Invalid,
    Range,
    Msg,
}

fn int_bounds(t: Ty) -> Option<(i128, u128)> {
    Some(match t {
        Ty::Usize => (0, u64::MAX as u128),
        Ty::U32 => (0, u32::MAX as u128),
        Ty::I32 => (i32::MIN as i128, i32::MAX as u128),
        Ty::I128 => (i128::MIN, i128::MAX as u128),
        _ => return None,
    })
}

/// exact integer denoted by an integer-kind value: (negative, magnitude)
fn exact_int(v: &Value) -> Option<(bool, u128)> {
    if v.is_f64() || !v.is_number() {
        return None;
    }
    if let Some(u) = v.as_u128() {
        return Some((false, u));
    }
    v.as_i128().map(|i| (i < 0, i.unsigned_abs()))
}

fn fits(neg: bool, mag: u128, lo: i128, hi: u128) -> bool {
    if neg && mag != 0 { mag <= lo.unsigned_abs() } else { mag <= hi }
}

/// Which values a typed argument accepts (args.rs as documented by its tests and error kinds).
fn accepts(t: Ty, v: &Value) -> Acc {
    use tera::value::ValueKind as K;
    match t {
        Ty::CowStr | Ty::Val | Ty::NoRecv => Acc::Ok,
        Ty::Str => if v.kind() == K::String { Acc::Ok } else { Acc::Invalid },
        Ty::Slice => if v.kind() == K::Array { Acc::Ok } else { Acc::Invalid },
        Ty::Map => if v.kind() == K::Map { Acc::Ok } else { Acc::Invalid },
        Ty::Bool => if v.kind() == K::Bool { Acc::Ok } else { Acc::Invalid },
        Ty::F64 => if v.is_number() { Acc::Ok } else { Acc::Invalid },
        Ty::Number => {
            if !v.is_number() {
                Acc::Invalid
            } else if v.is_f64() {
                Acc::Ok
            } else {
                match exact_int(v) {
                    Some((neg, m)) if fits(neg, m, i128::MIN, i128::MAX as u128) => Acc::Ok,
                    _ => Acc::Msg,
                }
            }
        }
        Ty::Usize | Ty::U32 | Ty::I32 | Ty::I128 => {
            let (lo, hi) = int_bounds(t).unwrap();
            if let Some((neg, m)) = exact_int(v) {
                if fits(neg, m, lo, hi) { Acc::Ok } else { Acc::Range }
            } else if v.is_f64() {
                let f = v.as_f64().unwrap();
                if f.is_nan() || (f.is_finite() && f.fract() != 0.0) {
                    Acc::Invalid
                } else if f.is_infinite() || f < -(2f64.powi(127)) || f >= 2f64.powi(127) {
                    Acc::Range
                } else {
                    let i = f as i128;
                    if fits(i < 0, i.unsigned_abs(), lo, hi) { Acc::Ok } else { Acc::Range }
                }
            } else {
                Acc::Invalid
            }
        }
    }
}

struct B {
    kind: &'static str,
    name: &'static str,
    recv: Ty,
    kwargs: Vec<(&'static str, Ty, bool)>,
    /// valid assignment of the required arguments
    base: Vec<(&'static str, Value)>,
}

fn builtins() -> Vec<B> {
    let s = |x: &str| Value::from(x);
    let f = |name, recv, kwargs: Vec<(&'static str, Ty, bool)>, base: Vec<(&'static str, Value)>| B { kind: "filter", name, recv, kwargs, base };
    let t = |name, recv, kwargs: Vec<(&'static str, Ty, bool)>, base: Vec<(&'static str, Value)>| B { kind: "test", name, recv, kwargs, base };
    let mut v = vec![
        f("safe", Ty::CowStr, vec![], vec![]),
        f("default", Ty::Val, vec![("value", Ty::Val, true), ("boolean", Ty::Bool, false)], vec![("value", s("dflt"))]),
        f("upper", Ty::Str, vec![], vec![]),
        f("lower", Ty::Str, vec![], vec![]),
        f("wordcount", Ty::Str, vec![], vec![]),
        f("escape_html", Ty::Str, vec![], vec![]),
        f("escape_xml", Ty::Str, vec![], vec![]),
        f("newlines_to_br", Ty::Str, vec![], vec![]),
        f("pluralize", Ty::Val, vec![("singular", Ty::Str, false), ("plural", Ty::Str, false)], vec![]),
        f("trim", Ty::Str, vec![("pat", Ty::Str, false)], vec![]),
        f("trim_start", Ty::Str, vec![("pat", Ty::Str, false)], vec![]),
        f("trim_end", Ty::Str, vec![("pat", Ty::Str, false)], vec![]),
        f("replace", Ty::Str, vec![("from", Ty::Str, true), ("to", Ty::Str, true)], vec![("from", s("l")), ("to", s("LL"))]),
        f("capitalize", Ty::Str, vec![], vec![]),
        f("title", Ty::Str, vec![], vec![]),
        f("truncate", Ty::Str, vec![("length", Ty::Usize, true), ("end", Ty::Str, false)], vec![("length", Value::from(3u64))]),
        f("indent", Ty::Str, vec![("width", Ty::Usize, false), ("first", Ty::Bool, false), ("blank", Ty::Bool, false)], vec![]),
        f("str", Ty::Val, vec![], vec![]),
        f("int", Ty::Val, vec![("base", Ty::U32, false)], vec![]),
        f("float", Ty::Val, vec![], vec![]),
        f("length", Ty::Val, vec![], vec![]),
        f("reverse", Ty::Val, vec![], vec![]),
        f("split", Ty::Str, vec![("pat", Ty::Str, true)], vec![("pat", s(" "))]),
        f("abs", Ty::Val, vec![], vec![]),
        f("round", Ty::F64, vec![("method", Ty::Str, false), ("precision", Ty::I32, false)], vec![]),
        f("first", Ty::Slice, vec![], vec![]),
        f("last", Ty::Slice, vec![], vec![]),
        f("nth", Ty::Slice, vec![("n", Ty::Usize, true)], vec![("n", Value::from(1u64))]),
        f("join", Ty::Slice, vec![("sep", Ty::Str, false)], vec![]),
        f("sort", Ty::Slice, vec![("attribute", Ty::Str, false)], vec![]),
        f("unique", Ty::Slice, vec![], vec![]),
        f("get", Ty::Map, vec![("key", Ty::Str, true), ("default", Ty::Val, false)], vec![("key", s("a"))]),
        f("values", Ty::Map, vec![], vec![]),
        f("keys", Ty::Map, vec![], vec![]),
        f("pairs", Ty::Map, vec![], vec![]),
        f("group_by", Ty::Slice, vec![("attribute", Ty::Str, true)], vec![("attribute", s("a"))]),
    ];
    for n in ["string", "number", "map", "bool", "array", "integer", "float", "none", "iterable", "defined", "undefined"] {
        v.push(t(n, Ty::Val, vec![], vec![]));
    }
    v.push(t("odd", Ty::Number, vec![], vec![]));
    v.push(t("even", Ty::Number, vec![], vec![]));
    v.push(t("divisible_by", Ty::Number, vec![("divisor", Ty::I128, true)], vec![("divisor", Value::from(3))]));
    v.push(t("starting_with", Ty::Str, vec![("pat", Ty::Str, true)], vec![("pat", s("a"))]));
    v.push(t("ending_with", Ty::Str, vec![("pat", Ty::Str, true)], vec![("pat", s("c"))]));
    v.push(t("containing", Ty::Val, vec![("pat", Ty::Val, true)], vec![("pat", s("b"))]));
    v.push(B { kind: "function", name: "range", recv: Ty::NoRecv, kwargs: vec![("start", Ty::I128, false), ("end", Ty::I128, true), ("step_by", Ty::I128, false)], base: vec![("end", Value::from(5))] });
    v.push(B { kind: "function", name: "throw", recv: Ty::NoRecv, kwargs: vec![("message", Ty::Str, true)], base: vec![("message", s("boom"))] });
    v
}

/// Representative values: every kind, boundary numbers, multi-byte / empty / special strings,
/// nested containers.  The first entry is `undefined`.
fn reps() -> Vec<Value> {
    let mut m1 = tera::Map::new();
    m1.insert("a".into(), Value::from(1));
    let mut inner = tera::Map::new();
    inner.insert("c".into(), Value::from("é"));
    m1.insert("b".into(), Value::from(inner));
    let mut m2 = tera::Map::new();
    m2.insert(tera::value::Key::I64(3), Value::from("three"));
    m2.insert(tera::value::Key::Bool(true), Value::none());
    let mut ma = tera::Map::new();
    ma.insert("a".into(), Value::from("k"));
    let mut mb = tera::Map::new();
    mb.insert("a".into(), Value::from(2));
    vec![
        Value::undefined(),
        Value::none(),
        Value::from(true),
        Value::from(false),
        Value::from(0u64),
        Value::from(1u64),
        Value::from(3u64),
        Value::from(u64::MAX),
        Value::from(-1i64),
        Value::from(12i64),
        Value::from(i64::MIN),
        Value::from(i64::MAX),
        Value::from(i128::MIN),
        Value::from(i128::MAX),
        Value::from(-7i128),
        Value::from(u128::MAX),
        Value::from(1u128 << 127),
        Value::from(36u128),
        // just above the bounds of the narrower integer types, in wide encodings: must be reported
        // out of range or handled exactly, never truncated
        Value::from(1u64 << 32),
        Value::from((1u64 << 32) + 1),
        Value::from(1u64 << 63),
        Value::from(1u128 << 64),
        Value::from((1i128 << 64) + 1),
        Value::from((1i128 << 65) + 3),
        Value::from(-((1i128 << 64) + 2)),
        Value::from(1i128 << 100),
        Value::from(0.0f64),
        Value::from(-0.0f64),
        Value::from(1.5f64),
        Value::from(-2.5f64),
        Value::from(3.0f64),
        Value::from(1e300f64),
        Value::from(4294967296.0f64),
        Value::from(-(2f64.powi(127))),
        Value::from(2f64.powi(127)),
        Value::from(f64::NAN),
        Value::from(f64::INFINITY),
        Value::from(f64::NEG_INFINITY),
        Value::from(""),
        Value::from("abc"),
        Value::from("  héllo wörld \n"),
        Value::from("日本語 テキスト"),
        Value::from("ǆ ß İstanbul ŉ ΑΣ ﬁ"),
        Value::from("a\r\nb\n\nc\r"),
        Value::from("<&>'\" it's"),
        Value::from("12"),
        Value::from(" -0x1F "),
        Value::from("1.5"),
        Value::from("llallall"),
        Value::from("ceil"),
        Value::safe_string("<safe> b"),
        Value::from(Vec::<Value>::new()),
        Value::from(vec![Value::from(1), Value::from(2), Value::from(3)]),
        Value::from(vec![Value::from("b"), Value::from("a"), Value::from("b")]),
        Value::from(vec![Value::from(vec![Value::from(1)]), Value::from(vec![Value::from(2)])]),
        Value::from(vec![Value::from(1), Value::from("x"), Value::none(), Value::from(1.5)]),
        Value::from(vec![Value::from(ma), Value::from(mb)]),
        Value::from(tera::Map::new()),
        Value::from(m1),
        Value::from(m2),
        Value::bytes(vec![0x61, 0xff, 0x62]),
        Value::bytes(vec![]),
    ]
}

// ------------------------------------------------------------------ running a cell
fn engine(bs: &[B], universe: &[&'static str]) -> (Tera, BTreeMap<String, String>) {
    let mut tera = Tera::default();
    tera.register_filter("probe", |v: Value, _: Kwargs, _: &State| {
        PROBE.with(|p| *p.borrow_mut() = Some(v.clone()));
        v
    });
    let mut tpls: Vec<(String, String)> = Vec::new();
    let mut names = BTreeMap::new();
    for b in bs {
        let mut sets: BTreeSet<Vec<&str>> = BTreeSet::new();
        let base: Vec<&str> = b.base.iter().map(|(k, _)| *k).collect();
        sets.insert(vec![]);
        sets.insert(sorted(base.clone()));
        for k in universe {
            let mut s = base.clone();
            if !s.contains(k) {
                s.push(k);
            }
            sets.insert(sorted(s));
        }
        for k in &base {
            sets.insert(sorted(base.iter().filter(|x| *x != k).cloned().collect()));
        }
        // every subset of the declared keywords (random cells)
        let decl: Vec<&str> = b.kwargs.iter().map(|(k, _, _)| *k).collect();
        for mask in 0..(1u32 << decl.len()) {
            sets.insert(sorted(decl.iter().enumerate().filter(|(i, _)| mask >> i & 1 == 1).map(|(_, k)| *k).collect()));
        }
        for set in sets {
            let args: Vec<String> = set.iter().map(|k| format!("{k}=a_{k}")).collect();
            let args = args.join(", ");
            let src = match b.kind {
                "filter" => format!("{{{{ v | {}({args}) | probe }}}}", b.name),
                "test" => format!("{{{{ (v is {}({args})) | probe }}}}", b.name),
                _ => format!("{{{{ {}({args}) | probe }}}}", b.name),
            };
            let key = tpl_key(b, &set);
            names.insert(key.clone(), src.clone());
            tpls.push((key, src));
        }
    }
    tera.add_raw_templates(tpls).expect("matrix templates");
    (tera, names)
}

fn sorted<'a>(mut v: Vec<&'a str>) -> Vec<&'a str> {
    v.sort();
    v.dedup();
    v
}

fn tpl_key(b: &B, set: &[&str]) -> String {
    format!("{}:{}:{}", b.kind, b.name, set.join(","))
}

fn class_of_kind(k: &ErrorKind) -> &'static str {
    match k {
        ErrorKind::InvalidArgument { .. } => "invalidarg",
        ErrorKind::MissingArgument { .. } => "missingarg",
        ErrorKind::OutOfRangeArgument { .. } => "outofrange",
        ErrorKind::Msg(_) => "msg",
        _ => "other",
    }
}

fn class_of_message(m: &str) -> &'static str {
    if m.starts_with("Invalid type for the value, expected `") {
        "invalidarg"
    } else if m.starts_with("Missing keyword argument `") {
        "missingarg"
    } else if m.starts_with("Value `") && m.contains("` is out of range for `") {
        "outofrange"
    } else {
        "msg"
    }
}

type Kw = Vec<(&'static str, Value)>;

fn eval_hook(tera: &Tera, b: &B, recv: &Value, kw: &Kw) -> String {
    let mut map = tera::Map::new();
    for (k, v) in kw {
        map.insert((*k).into(), v.clone());
    }
    let r = catch(AssertUnwindSafe(|| tera::verif_hooks::call_builtin(tera, b.kind, b.name, recv, map)));
    match r {
        Err(p) => format!("panic {p}"),
        Ok(None) => "unregistered".into(),
        Ok(Some(Ok(v))) => format!("ok {}", encode(&v)),
        Ok(Some(Err(e))) => format!("err {}", class_of_kind(e.kind())),
    }
}

fn eval_tpl(tera: &Tera, b: &B, recv: &Value, kw: &Kw) -> String {
    let mut ctx = Context::new();
    if !recv.is_undefined() {
        ctx.insert_value("v", recv.clone());
    }
    let mut set: Vec<&str> = Vec::new();
    for (k, v) in kw {
        set.push(k);
        if !v.is_undefined() {
            ctx.insert_value(format!("a_{k}"), v.clone());
        }
    }
    let key = tpl_key(b, &sorted(set));
    PROBE.with(|p| *p.borrow_mut() = None);
    let r = catch(AssertUnwindSafe(|| tera.render(&key, &ctx)));
    let probed = PROBE.with(|p| p.borrow_mut().take());
    match (r, probed) {
        (Err(p), _) => format!("panic {p}"),
        // the built-in answered; what happens to its value afterwards (printing `undefined` is an
        // error) is not its business
        (Ok(_), Some(v)) => format!("ok {}", encode(&v)),
        (Ok(Ok(_)), None) => "noprobe".into(),
        (Ok(Err(e)), None) => match e.kind() {
            ErrorKind::RenderingError(r) => format!("err {}", class_of_message(r.message())),
            ErrorKind::TemplateNotFound(_) => "notemplate".into(),
            other => format!("err other:{}", class_of_kind(other)),
        },
    }
}

fn model_request(b: &B, recv: &Value, kw: &Kw) -> String {
    let mut s = match b.kind {
        "function" => format!("fn {} {}", b.name, kw.len()),
        k => format!("{k} {} {} {}", b.name, encode(recv), kw.len()),
    };
    for (k, v) in kw {
        s.push_str(&format!(" {k} {}", encode(v)));
    }
    s
}

// ------------------------------------------------------------------ reference implementations (oracles)
fn ok_value(imp: &str) -> Option<Value> {
    imp.strip_prefix("ok ").and_then(decode)
}

fn all_strings_valid(v: &Value) -> bool {
    use tera::value::ValueKind as K;
    match v.kind() {
        K::String => std::str::from_utf8(v.as_str().unwrap().as_bytes()).is_ok(),
        K::Array => v.as_array().unwrap().iter().all(all_strings_valid),
        K::Map => v.as_map().unwrap().iter().all(|(k, x)| k.as_str().is_none_or(|s| std::str::from_utf8(s.as_bytes()).is_ok()) && all_strings_valid(x)),
        _ => true,
    }
}

fn fold(s: &str) -> String {
    s.to_uppercase().to_lowercase()
}

fn ref_replace(s: &str, from: &str, to: &str) -> String {
    let sc: Vec<char> = s.chars().collect();
    let fc: Vec<char> = from.chars().collect();
    let mut out = String::new();
    if fc.is_empty() {
        out.push_str(to);
        for c in sc {
            out.push(c);
            out.push_str(to);
        }
        return out;
    }
    let mut i = 0;
    while i < sc.len() {
        if i + fc.len() <= sc.len() && sc[i..i + fc.len()] == fc[..] {
            out.push_str(to);
            i += fc.len();
        } else {
            out.push(sc[i]);
            i += 1;
        }
    }
    out
}

fn ref_newlines_to_br(s: &str) -> String {
    let cs: Vec<char> = s.chars().collect();
    let mut out = String::new();
    let mut i = 0;
    while i < cs.len() {
        if cs[i] == '\r' && i + 1 < cs.len() && cs[i + 1] == '\n' {
            out.push_str("<br>");
            i += 2;
        } else if cs[i] == '\n' || cs[i] == '\r' {
            out.push_str("<br>");
            i += 1;
        } else {
            out.push(cs[i]);
            i += 1;
        }
    }
    out
}

fn ref_escape(s: &str, apos: &str) -> String {
    let mut out = String::new();
    for c in s.chars() {
        match c {
            '&' => out.push_str("&amp;"),
            '<' => out.push_str("&lt;"),
            '>' => out.push_str("&gt;"),
            '"' => out.push_str("&quot;"),
            '\'' => out.push_str(apos),
            c => out.push(c),
        }
    }
    out
}

/// indent as documented: a prefix of `width` spaces (at most 1000) at the start of each line but
/// the first (unless `first`) and blank ones (unless `blank`); line terminators `\n` / `\r\n`
/// both come back as `\n` (observation O-indent: `\r\n` is not preserved), a final terminator is kept
fn ref_indent(s: &str, width: usize, first: bool, blank: bool) -> String {
    let ind = " ".repeat(width.min(1000));
    let mut segs: Vec<&str> = s.split('\n').collect();
    let trailing = s.ends_with('\n');
    if trailing || s.is_empty() {
        segs.pop();
    }
    let n = segs.len();
    let mut out = String::new();
    for (i, seg) in segs.iter().enumerate() {
        // a `\r` directly before the `\n` belongs to the terminator
        let terminated = i + 1 < n || trailing;
        let line = if terminated { seg.strip_suffix('\r').unwrap_or(seg) } else { seg };
        if i == 0 {
            if first {
                out.push_str(&ind);
            }
        } else {
            out.push('\n');
            if !line.is_empty() || blank {
                out.push_str(&ind);
            }
        }
        out.push_str(line);
    }
    if trailing {
        out.push('\n');
    }
    out
}

fn ref_truthy(v: &Value) -> bool {
    use tera::value::ValueKind as K;
    match v.kind() {
        K::Undefined | K::None => false,
        K::Bool => v.as_bool().unwrap(),
        K::F64 => v.as_f64().unwrap() != 0.0,
        K::String => !v.as_str().unwrap().is_empty(),
        K::Array => !v.as_array().unwrap().is_empty(),
        K::Map => !v.as_map().unwrap().is_empty(),
        K::Bytes => !v.as_bytes().unwrap().is_empty(),
        _ => exact_int(v).is_some_and(|(_, m)| m != 0),
    }
}

fn kw_get<'a>(kw: &'a Kw, k: &str) -> Option<&'a Value> {
    kw.iter().find(|(n, _)| *n == k).map(|(_, v)| v)
}

fn kw_str<'a>(kw: &'a Kw, k: &str) -> Option<&'a str> {
    kw_get(kw, k).and_then(|v| v.as_str())
}

fn same(a: &Value, b: &Value) -> bool {
    encode(a) == encode(b)
}

/// exact integer value of an Ok result that must be an integer kind
fn res_int(v: &Value) -> Option<(bool, u128)> {
    exact_int(v).map(|(n, m)| (n && m != 0, m))
}

/// The per-built-in law, applied to the implementation's own answer when receiver and arguments
/// are all of accepted kinds. `Some(description)` = the contract is broken.
fn law(b: &B, recv: &Value, kw: &Kw, imp: &str) -> Option<String> {
    let out = ok_value(imp);
    let is_err = imp.starts_with("err");
    let s_in = recv.as_str();
    let s_out = out.as_ref().and_then(|v| v.as_str().map(|s| s.to_string()));
    let expect_str = |want: String| -> Option<String> {
        match &s_out {
            Some(got) if *got == want => None,
            _ => Some(format!("expected the string {want:?}, got `{}`", short(imp))),
        }
    };
    match (b.kind, b.name) {
        ("filter", "upper" | "lower" | "capitalize" | "title") => {
            let (i, o) = (s_in?, s_out.as_deref()?);
            if fold(i) != fold(o) {
                return Some(format!("changed more than letter case: {i:?} -> {o:?}"));
            }
            if i.is_ascii() && (o.len() != i.len() || !o.eq_ignore_ascii_case(i)) {
                return Some(format!("ASCII text changed beyond case: {i:?} -> {o:?}"));
            }
            match b.name {
                "upper" if i.is_ascii() && o != i.to_ascii_uppercase() => Some(format!("not upper case: {o:?}")),
                "lower" if i.is_ascii() && o != i.to_ascii_lowercase() => Some(format!("not lower case: {o:?}")),
                _ => None,
            }
        }
        ("filter", "trim" | "trim_start" | "trim_end") => {
            let (i, o) = (s_in?, s_out.as_deref()?);
            let pat = kw_str(kw, "pat");
            let (do_start, do_end) = (b.name != "trim_end", b.name != "trim_start");
            let only = |part: &str| match pat {
                None => part.chars().all(char::is_whitespace),
                Some("") => part.is_empty(),
                Some(p) => part.len() % p.len() == 0 && part.as_bytes().chunks(p.len()).all(|c| c == p.as_bytes()),
            };
            // some occurrence of the result inside the input must leave only matching ends
            let fits_at = |pos: usize| {
                let (pre, suf) = (&i[..pos], &i[pos + o.len()..]);
                only(pre) && only(suf) && (do_start || pre.is_empty()) && (do_end || suf.is_empty())
            };
            let positions: Vec<usize> = (0..=i.len().saturating_sub(o.len())).filter(|p| i.is_char_boundary(*p) && i[*p..].starts_with(o)).collect();
            if positions.is_empty() {
                return Some(format!("result {o:?} is not the input {i:?} minus its ends"));
            }
            if !positions.iter().any(|p| fits_at(*p)) {
                return Some(format!("removed something that is not a matching end: {i:?} -> {o:?}"));
            }
            let left_start = match pat {
                None => o.chars().next().is_some_and(char::is_whitespace),
                Some("") => false,
                Some(p) => o.starts_with(p),
            };
            let left_end = match pat {
                None => o.chars().last().is_some_and(char::is_whitespace),
                Some("") => false,
                Some(p) => o.ends_with(p),
            };
            if (do_start && left_start) || (do_end && left_end) {
                return Some(format!("a matching end was left in place: {i:?} -> {o:?}"));
            }
            None
        }
        ("filter", "truncate") => {
            let i = s_in?;
            let (neg, len) = exact_int(kw_get(kw, "length")?).or_else(|| {
                let f = kw_get(kw, "length")?.as_f64()?;
                Some((f < 0.0, f.abs() as u128))
            })?;
            if neg && len != 0 {
                return None;
            }
            let end = kw_str(kw, "end").unwrap_or("…");
            let n = i.chars().count() as u128;
            let want = if n <= len { i.to_string() } else { i.chars().take(len as usize).collect::<String>() + end };
            expect_str(want)
        }
        ("filter", "replace") => expect_str(ref_replace(s_in?, kw_str(kw, "from")?, kw_str(kw, "to")?)),
        ("filter", "newlines_to_br") => expect_str(ref_newlines_to_br(s_in?)),
        ("filter", "escape_html") => expect_str(ref_escape(s_in?, "&#39;")),
        ("filter", "escape_xml") => expect_str(ref_escape(s_in?, "&apos;")),
        ("filter", "indent") => {
            let i = s_in?;
            let width = match kw_get(kw, "width") {
                None => 4,
                Some(w) => match exact_int(w) {
                    Some((false, m)) => m.min(1000) as usize,
                    Some((true, 0)) => 0,
                    _ => w.as_f64().filter(|f| *f >= 0.0).map(|f| f.min(1000.0) as usize)?,
                },
            };
            let first = kw_get(kw, "first").and_then(|v| v.as_bool()).unwrap_or(false);
            let blank = kw_get(kw, "blank").and_then(|v| v.as_bool()).unwrap_or(false);
            expect_str(ref_indent(i, width, first, blank))
        }
        ("filter", "wordcount") => {
            let i = s_in?;
            let mut n = 0u64;
            let mut inw = false;
            for c in i.chars() {
                if c.is_whitespace() {
                    inw = false;
                } else if !inw {
                    inw = true;
                    n += 1;
                }
            }
            (out.as_ref().and_then(exact_int) != Some((false, n as u128))).then(|| format!("expected {n} words, got `{}`", short(imp)))
        }
        ("filter", "safe") => {
            let i = s_in?;
            let o = out?;
            (!(o.is_safe() && o.as_str() == Some(i))).then(|| format!("safe must only mark the string: `{}`", short(imp)))
        }
        ("filter", "str") => {
            if let Some(i) = s_in {
                return expect_str(i.to_string());
            }
            if let Some((neg, m)) = exact_int(recv) {
                return expect_str(format!("{}{m}", if neg && m != 0 { "-" } else { "" }));
            }
            None
        }
        ("filter", "default") => {
            let dv = kw_get(kw, "value")?;
            let boolean = kw_get(kw, "boolean").and_then(|v| v.as_bool()).unwrap_or(false);
            let want = if boolean {
                if ref_truthy(recv) { recv } else { dv }
            } else if recv.is_undefined() {
                dv
            } else {
                recv
            };
            match out {
                Some(o) if same(&o, want) => None,
                _ => Some(format!("default must give `{}`, got `{}`", short(&encode(want)), short(imp))),
            }
        }
        ("filter", "pluralize") => {
            let Some((_, m)) = exact_int(recv) else {
                return (!is_err).then(|| format!("pluralize of a non-integer must be an error, got `{}`", short(imp)));
            };
            if is_err {
                // integers that do not fit i128 are refused
                return (m <= i128::MAX as u128 + 1).then(|| "pluralize refused an integer".to_string()).filter(|_| exact_int(recv).is_some_and(|(n, m)| fits(n, m, i128::MIN, i128::MAX as u128)));
            }
            let want = if m == 1 { kw_str(kw, "singular").unwrap_or("") } else { kw_str(kw, "plural").unwrap_or("s") };
            expect_str(want.to_string())
        }
        ("filter", "get") => {
            let map = recv.as_map()?;
            let key = kw_str(kw, "key")?;
            let found = map.iter().find(|(k, _)| k.as_str() == Some(key)).map(|(_, v)| v.clone());
            let want = found.or_else(|| kw_get(kw, "default").cloned());
            match (want, out) {
                (Some(w), Some(o)) if same(&w, &o) => None,
                (None, None) if is_err => None,
                (w, _) => Some(format!("get must give {:?}, got `{}`", w.map(|w| encode(&w)), short(imp))),
            }
        }
        ("filter", "abs") => {
            if let Some((_, m)) = exact_int(recv) {
                match out {
                    Some(o) => (res_int(&o) != Some((false, m))).then(|| format!("|x| must be {m}, got `{}`", short(imp))),
                    None => (!is_err).then(|| format!("abs: `{}`", short(imp))),
                }
            } else if recv.is_f64() {
                let want = recv.as_f64().unwrap().abs();
                let ok = out.as_ref().is_some_and(|o| o.is_f64() && bits(o.as_f64().unwrap()) == bits(want));
                (!ok).then(|| format!("abs of a float must be {want:?}, got `{}`", short(imp)))
            } else {
                (!is_err).then(|| format!("abs of a non-number must be an error, got `{}`", short(imp)))
            }
        }
        ("filter", "int") => {
            if kw_get(kw, "base").is_some_and(|bv| exact_int(bv).is_none_or(|(n, m)| n || !(2..=36).contains(&m))) {
                return None; // base outside 2..=36 is an error by the argument oracle or here
            }
            if let Some((neg, m)) = exact_int(recv) {
                match out {
                    Some(o) => (res_int(&o) != Some((neg && m != 0, m))).then(|| format!("int of an integer must be the same integer, got `{}`", short(imp))),
                    None => Some(format!("int of an integer failed: `{}`", short(imp))),
                }
            } else if recv.is_f64() {
                let f = recv.as_f64().unwrap();
                let exact = f.is_finite() && f.fract() == 0.0 && f >= -(2f64.powi(127)) && f < 2f64.powi(127);
                match out {
                    Some(o) => {
                        let want = f as i128;
                        (!exact || res_int(&o) != Some((want < 0, want.unsigned_abs()))).then(|| format!("int of the float {f:?}: `{}`", short(imp)))
                    }
                    None => exact.then(|| format!("int of the integral float {f:?} failed")),
                }
            } else if let Some(s) = s_in {
                // plain decimal text: the exact value or an error
                let base = kw_get(kw, "base").and_then(exact_int).map(|(_, m)| m).unwrap_or(10);
                let t = s.trim();
                if base == 10 && !t.is_empty() && t.chars().enumerate().all(|(i, c)| c.is_ascii_digit() || (i == 0 && (c == '-' || c == '+') && t.len() > 1)) {
                    let neg = t.starts_with('-');
                    let mut mag: Option<u128> = Some(0);
                    for c in t.trim_start_matches(['-', '+']).chars() {
                        mag = mag.and_then(|m| m.checked_mul(10)).and_then(|m| m.checked_add(c as u128 - 48));
                    }
                    let fits_i128 = mag.is_some_and(|m| fits(neg, m, i128::MIN, i128::MAX as u128));
                    match out {
                        Some(o) => (!fits_i128 || res_int(&o) != Some((neg && mag != Some(0), mag.unwrap()))).then(|| format!("int of {t:?}: `{}`", short(imp))),
                        None => fits_i128.then(|| format!("int of the decimal text {t:?} failed")),
                    }
                } else {
                    None
                }
            } else {
                (!is_err).then(|| format!("int of a `{}` must be an error, got `{}`", recv.name(), short(imp)))
            }
        }
        ("filter", "float") => {
            if let Some((neg, m)) = exact_int(recv) {
                let want = if neg { -(m as f64) } else { m as f64 };
                match out {
                    Some(o) => (!o.is_f64() || bits(o.as_f64().unwrap()) != bits(want)).then(|| format!("float of an integer must be the nearest float {want:?}, got `{}`", short(imp))),
                    None => (!is_err).then(|| format!("float: `{}`", short(imp))),
                }
            } else if recv.is_f64() {
                let ok = out.as_ref().is_some_and(|o| o.is_f64() && bits(o.as_f64().unwrap()) == bits(recv.as_f64().unwrap()));
                (!ok).then(|| format!("float of a float must be itself, got `{}`", short(imp)))
            } else if s_in.is_some() {
                None
            } else {
                (!is_err).then(|| format!("float of a `{}` must be an error, got `{}`", recv.name(), short(imp)))
            }
        }
        ("filter", "round") => {
            let x = if recv.is_f64() { recv.as_f64().unwrap() } else { let (n, m) = exact_int(recv)?; if n { -(m as f64) } else { m as f64 } };
            let method = kw_str(kw, "method");
            let prec = match kw_get(kw, "precision") {
                None => 0i128,
                Some(p) => match exact_int(p) {
                    Some((n, m)) => if n { -(m as i128) } else { m as i128 },
                    None => p.as_f64()? as i128,
                },
            };
            // 10^precision must be a normal float (F15): outside, the documented error
            if !(-307..=308).contains(&prec) {
                return (!is_err).then(|| format!("round with precision {prec} must be an error, got `{}`", short(imp)));
            }
            let scale = if prec == 0 { 1.0 } else { 10f64.powi(prec as i32) };
            let overflow = !(scale * x).is_finite();
            if !matches!(method, None | Some("ceil") | Some("floor")) {
                // an unknown method is an error for every value (finite or not, scaled or not)
                return (!is_err).then(|| format!("unknown rounding method accepted: `{}`", short(imp)));
            }
            let o = out.as_ref().filter(|o| o.is_f64()).and_then(|o| o.as_f64());
            let Some(r) = o else { return Some(format!("round must give a float, got `{}`", short(imp))) };
            if !x.is_finite() || overflow {
                return (bits(r) != bits(x)).then(|| format!("round of {x:?} (precision {prec}) must be the value itself, gave {r:?}"));
            }
            if !r.is_finite() {
                return Some(format!("round of the finite {x:?} (precision {prec}) gave {r:?}"));
            }
            if prec != 0 {
                // within half a unit (one unit for ceil / floor) of the last kept digit, up to the
                // float roundings of the scaling; and on the right side for ceil / floor
                let unit = 10f64.powi(-(prec as i32));
                let slack = x.abs() * 8.0 * f64::EPSILON + unit * 1e-9;
                let bound = if method.is_none() { 0.5 } else { 1.0 };
                let ok = (r - x).abs() <= unit * bound + slack
                    && match method {
                        Some("ceil") => r >= x - slack,
                        Some("floor") => r <= x + slack,
                        _ => true,
                    };
                return (!ok).then(|| format!("round({x:?}, method={method:?}, precision={prec}) gave {r:?}"));
            }
            // exact (no rounding in any comparison: r, r ± 0.5, r ± 1 are representable below 2^52)
            let ok = if x.abs() >= 4503599627370496.0 {
                r == x
            } else {
                r.fract() == 0.0
                    && match method {
                        None => (r - 0.5 < x && x < r + 0.5) || (x > 0.0 && x == r - 0.5) || (x < 0.0 && x == r + 0.5),
                        Some("ceil") => r >= x && r - 1.0 < x,
                        _ => r <= x && r + 1.0 > x,
                    }
                    && (r != 0.0 || r.is_sign_negative() == x.is_sign_negative())
            };
            (!ok).then(|| format!("round({x:?}, method={method:?}) gave {r:?}"))
        }
        ("test", name) => {
            use tera::value::ValueKind as K;
            let k = recv.kind();
            let is_int = exact_int(recv).is_some();
            let want = match name {
                "string" => Some(k == K::String),
                "number" => Some(is_int || k == K::F64),
                "integer" => Some(is_int),
                "float" => Some(k == K::F64),
                "map" => Some(k == K::Map),
                "bool" => Some(k == K::Bool),
                "array" => Some(k == K::Array),
                "none" => Some(k == K::None),
                "defined" => Some(k != K::Undefined),
                "undefined" => Some(k == K::Undefined),
                "iterable" => Some(matches!(k, K::Map | K::Array | K::String | K::Bytes)),
                "odd" | "even" => match exact_int(recv) {
                    Some((n, m)) if fits(n, m, i128::MIN, i128::MAX as u128) => Some((m % 2 == 1) == (name == "odd")),
                    _ => None,
                },
                "divisible_by" => match (exact_int(recv), kw_get(kw, "divisor").and_then(int_arg)) {
                    (Some((n, m)), Some(d)) if fits(n, m, i128::MIN, i128::MAX as u128) => Some(d != 0 && m % d.unsigned_abs() == 0),
                    _ => None,
                },
                "starting_with" => Some(s_in?.starts_with(kw_str(kw, "pat")?)),
                "ending_with" => Some(s_in?.ends_with(kw_str(kw, "pat")?)),
                "containing" => match k {
                    K::String => Some(s_in?.contains(kw_str(kw, "pat")?)),
                    K::Map => kw_str(kw, "pat").map(|p| recv.as_map().unwrap().iter().any(|(key, _)| key.as_str() == Some(p))),
                    _ => None,
                },
                _ => None,
            };
            match want {
                Some(w) => (out.as_ref().and_then(|o| o.as_bool()) != Some(w)).then(|| format!("`is {name}` must be {w}, got `{}`", short(imp))),
                None => {
                    // floats are neither odd nor even nor divisible
                    let zero_divisor = name == "divisible_by" && kw_get(kw, "divisor").and_then(int_arg) == Some(0);
                    if matches!(name, "odd" | "even" | "divisible_by") && recv.is_f64() && !is_err && !zero_divisor {
                        Some(format!("`is {name}` on a float must be an error, got `{}`", short(imp)))
                    } else {
                        None
                    }
                }
            }
        }
        ("function", "range") => {
            let start = kw_get(kw, "start").map(int_arg).unwrap_or(Some(0))?;
            let end = int_arg(kw_get(kw, "end")?)?;
            let step = kw_get(kw, "step_by").map(int_arg).unwrap_or(Some(1))?;
            range_law(start, end, step, out.as_ref(), is_err, imp)
        }
        ("function", "throw") => (!is_err).then(|| "throw returned".to_string()),
        _ => None,
    }
}

/// the integer an accepted i128 argument denotes
fn int_arg(v: &Value) -> Option<i128> {
    if let Some((n, m)) = exact_int(v) {
        if !fits(n, m, i128::MIN, i128::MAX as u128) {
            return None;
        }
        return Some(if n { (m as i128).wrapping_neg() } else { m as i128 });
    }
    let f = v.as_f64().filter(|_| v.is_f64())?;
    (f.fract() == 0.0 && f >= -(2f64.powi(127)) && f < 2f64.powi(127)).then_some(f as i128)
}

/// `range` against the arithmetic progression, in arithmetic that cannot overflow
fn range_law(start: i128, end: i128, step: i128, out: Option<&Value>, is_err: bool, imp: &str) -> Option<String> {
    // true length of { start + i*step : i >= 0 } before `end` (exclusive), as u128 (span < 2^128)
    let len: Option<u128> = if step == 0 || (start > end && step > 0) {
        None
    } else if step > 0 {
        let span = end.abs_diff(start);
        Some(span.div_ceil(step as u128))
    } else if start <= end {
        Some(0)
    } else {
        let span = start.abs_diff(end);
        Some(span.div_ceil(step.unsigned_abs()))
    };
    match (len, out) {
        (None, _) => (!is_err).then(|| format!("range({start}, {end}, {step}) must be an error, got `{}`", short(imp))),
        (Some(n), Some(o)) => {
            if n > MAX_RANGE_LEN as u128 {
                return Some(format!("range produced {n} elements, above its size cap"));
            }
            let arr = o.as_array()?;
            if arr.len() as u128 != n {
                return Some(format!("range({start}, {end}, {step}) must have {n} elements, has {}", arr.len()));
            }
            for (i, x) in arr.iter().enumerate() {
                let want = start.checked_add((i as i128).checked_mul(step)?)?;
                if x.is_f64() || x.as_i128() != Some(want) {
                    return Some(format!("range({start}, {end}, {step})[{i}] must be {want}, is {x}"));
                }
            }
            None
        }
        (Some(n), None) => {
            // failing is allowed only above the cap or when the span arithmetic leaves i128
            let span_overflows = if step > 0 {
                end.checked_sub(start).and_then(|s| s.checked_add(step - 1)).is_none()
            } else {
                step.checked_neg().is_none() || start.checked_sub(end).and_then(|s| s.checked_add(-step - 1)).is_none()
            };
            (n <= MAX_RANGE_LEN as u128 && !(span_overflows && n > 0 || span_overflows)).then(|| format!("range({start}, {end}, {step}) has {n} elements and must succeed, got `{}`", short(imp)))
        }
    }
}

fn bits(f: f64) -> u64 {
    if f.is_nan() { 0x7ff8000000000000 } else { f.to_bits() }
}

fn short(s: &str) -> String {
    s.chars().take(120).collect()
}

/// The argument oracle: what the documented signature demands of this cell. Returns the required
/// error class (`Some`) or None when the body is reached.
fn required_error(b: &B, recv: &Value, kw: &Kw) -> Option<&'static str> {
    let cls = |a: Acc| match a {
        Acc::Ok => None,
        Acc::Invalid => Some("invalidarg"),
        Acc::Range => Some("outofrange"),
        Acc::Msg => Some("msg"),
    };
    if let Some(c) = cls(accepts(b.recv, recv)) {
        return Some(c);
    }
    // `sort` and `group_by` answer for an empty array before looking at their arguments
    if matches!(b.name, "sort" | "group_by") && recv.as_array().is_some_and(|a| a.is_empty()) {
        return None;
    }
    for (k, ty, required) in &b.kwargs {
        match kw_get(kw, k) {
            Some(v) => {
                if let Some(c) = cls(accepts(*ty, v)) {
                    return Some(c);
                }
            }
            None => {
                if *required {
                    return Some("missingarg");
                }
            }
        }
    }
    None
}

// ------------------------------------------------------------------ cells
#[derive(Clone)]
struct Cell {
    b: usize,
    /// index of the receiver in `reps()` (usize::MAX for random cells)
    ri: usize,
    recv: Value,
    kw: Kw,
    /// which part of the matrix: base / none / set:<k> / drop:<k> / random
    shape: String,
    to_model: bool,
}

struct Done {
    cell: Cell,
    hook: String,
    tpl: String,
}

fn class_str(imp: &str) -> String {
    if imp.starts_with("ok") {
        "ok".into()
    } else if imp.starts_with("panic") {
        "panic".into()
    } else {
        imp.to_string()
    }
}

fn replay_of(bs: &[B], c: &Cell, detail: serde_json::Value) -> serde_json::Value {
    let b = &bs[c.b];
    json!({
        "kind": b.kind, "name": b.name, "receiver": encode(&c.recv),
        "receiver_display": format!("{} ({})", short(&c.recv.to_string()), c.recv.name()),
        "kwargs": c.kw.iter().map(|(k, v)| json!([k, encode(v), format!("{} ({})", short(&v.to_string()), v.name())])).collect::<Vec<_>>(),
        "detail": detail,
        "rerun": "harness/target/release/c17 --replay <this file>",
    })
}

const ALPHABET: &[&str] = &["a", "B", "l", " ", "\n", "\r", "\r\n", "\t", "é", "ß", "İ", "ǆ", "Σ", "σ", "日", "😀", "&", "<", "'", "\"", "|", "ab", "ll", ".", "\u{a0}", "\u{2003}", "x-y", "it's"];
const PATS: &[&str] = &["", " ", "a", "ab", "l", "ll", "é", "|", "😀", "\n", "\r\n", "日", "B", "aa"];

fn rand_string(rng: &mut Rng, max: usize) -> String {
    let n = rng.below(max + 1);
    (0..n).map(|_| *rng.pick(ALPHABET)).collect()
}

fn rand_int_value(rng: &mut Rng) -> Value {
    let sh = rng.below(128) as u32;
    let m = rng.next_u128() >> sh;
    match rng.below(8) {
        0 => Value::from(m as u64),
        1 => Value::from(m as u64 as i64),
        2 => Value::from(m),
        3 => Value::from(m as i128),
        4 => Value::from(rng.range(-40, 40)),
        5 => rng.pick(&[Value::from(i128::MIN), Value::from(i128::MAX), Value::from(i64::MIN), Value::from(u64::MAX), Value::from(u128::MAX), Value::from(-1i64), Value::from(0u64), Value::from(1u64)]).clone(),
        6 => Value::from((rng.range(-2000, 2000) as f64) / 4.0),
        _ => Value::from(f64::from_bits(rng.next_u64())),
    }
}

fn random_cells(bs: &[B], rng: &mut Rng, n_str: usize, n_num: usize, n_range: usize) -> Vec<Cell> {
    let idx = |name: &str, kind: &str| bs.iter().position(|b| b.name == name && b.kind == kind).unwrap();
    let mut out = Vec::new();
    let str_filters = ["upper", "lower", "capitalize", "title", "wordcount", "escape_html", "escape_xml", "newlines_to_br", "trim", "trim_start", "trim_end", "replace", "truncate", "indent", "safe", "str", "int"];
    for _ in 0..n_str {
        let name = *rng.pick(&str_filters);
        let s = rand_string(rng, 12);
        let mut kw: Kw = Vec::new();
        match name {
            "trim" | "trim_start" | "trim_end" => {
                if rng.chance(2, 3) {
                    kw.push(("pat", Value::from(*rng.pick(PATS))));
                }
            }
            "replace" => {
                kw.push(("from", Value::from(*rng.pick(PATS))));
                kw.push(("to", Value::from(*rng.pick(PATS))));
            }
            "truncate" => {
                kw.push(("length", Value::from(rng.below(14) as u64)));
                if rng.chance(1, 2) {
                    kw.push(("end", Value::from(*rng.pick(PATS))));
                }
            }
            "indent" => {
                if rng.chance(2, 3) {
                    kw.push(("width", Value::from(rng.below(7) as u64)));
                }
                if rng.chance(1, 2) {
                    kw.push(("first", Value::from(rng.chance(1, 2))));
                }
                if rng.chance(1, 2) {
                    kw.push(("blank", Value::from(rng.chance(1, 2))));
                }
            }
            "int" => {
                if rng.chance(1, 2) {
                    kw.push(("base", Value::from(*rng.pick(&[2u64, 8, 10, 16, 36, 7]))));
                }
            }
            _ => {}
        }
        let recv = if name == "int" {
            let digits: String = (0..1 + rng.below(6)).map(|_| *rng.pick(&["0", "1", "7", "9", "a", "F", "z", "b", "x", "o", "-", "+", " ", "1", "0"])).collect();
            Value::from(digits)
        } else if rng.chance(1, 10) {
            Value::safe_string(&s)
        } else {
            Value::from(s)
        };
        out.push(Cell { b: idx(name, "filter"), ri: usize::MAX, recv, kw, shape: "random:string".into(), to_model: true });
    }
    for _ in 0..n_num {
        let (name, kind) = *rng.pick(&[("int", "filter"), ("float", "filter"), ("abs", "filter"), ("round", "filter"), ("pluralize", "filter"), ("str", "filter"), ("odd", "test"), ("even", "test"), ("divisible_by", "test"), ("number", "test"), ("integer", "test"), ("float", "test")]);
        let recv = rand_int_value(rng);
        let mut kw: Kw = Vec::new();
        if name == "divisible_by" {
            kw.push(("divisor", if rng.chance(1, 2) { Value::from(rng.range(-6, 6)) } else { rand_int_value(rng) }));
        }
        if name == "round" {
            if rng.chance(1, 2) {
                kw.push(("method", Value::from(*rng.pick(&["ceil", "floor", "ceil", "floor", "nearest"]))));
            }
            if rng.chance(1, 3) {
                kw.push(("precision", Value::from(if rng.chance(1, 3) { *rng.pick(&[-400i64, -309, -308, -307, -300, -20, 15, 22, 23, 300, 307, 308, 309, 400, i32::MAX as i64, i32::MIN as i64]) } else { rng.range(-6, 6) })));
            }
        }
        out.push(Cell { b: idx(name, kind), ri: usize::MAX, recv, kw, shape: "random:number".into(), to_model: true });
    }
    // F15 regression cases: 10^precision or the scaled value leaving the f64 range
    for (x, p) in [(2.5f64, 400i64), (2.5, -400), (1e308, 2), (-1e308, 3), (1e300, 9), (f64::MAX, 1), (5e-324, 308), (2.5, 308), (2.5, -307), (123456.789, -3), (0.000123456, 6)] {
        for m in [None, Some("ceil"), Some("floor")] {
            let mut kw: Kw = vec![("precision", Value::from(p))];
            if let Some(m) = m {
                kw.push(("method", Value::from(m)));
            }
            out.push(Cell { b: idx("round", "filter"), ri: usize::MAX, recv: Value::from(x), kw, shape: "regression:F15".into(), to_model: true });
        }
    }
    // regression: an invalid `method` is an error also when the value is not finite or the
    // scaling overflows (the first version of the F15 fix answered the value)
    for (x, p) in [(f64::INFINITY, None), (f64::NEG_INFINITY, None), (f64::NAN, None), (1e308, Some(2i64)), (f64::MAX, Some(1)), (2.5, None), (2.5, Some(2))] {
        for m in ["bogus", "x", "", "Ceil", "round"] {
            let mut kw: Kw = vec![("method", Value::from(m))];
            if let Some(p) = p {
                kw.push(("precision", Value::from(p)));
            }
            out.push(Cell { b: idx("round", "filter"), ri: usize::MAX, recv: Value::from(x), kw, shape: "regression:F15-method".into(), to_model: true });
        }
    }
    // steps and bounds beyond 64 bits with small spans (a step cast to usize would be truncated)
    for step in [1i128 << 64, (1i128 << 64) + 1, (1i128 << 64) + 2, (1i128 << 65) + 1, 3 * (1i128 << 64), 1i128 << 100, i128::MAX, -(1i128 << 64), -((1i128 << 64) + 1), -(1i128 << 100), i128::MIN + 1, 1i128 << 32, (1i128 << 32) + 1, 1i128 << 63] {
        for (start, end) in [(0i128, 5i128), (0, 1), (-3, 4), (5, 0), (4, -3), (0, 0), (1i128 << 64, (1i128 << 64) + 5), (-(1i128 << 70), -(1i128 << 70) + 2), (0, 1i128 << 66), (1i128 << 66, 0)] {
            out.push(Cell { b: idx("range", "function"), ri: usize::MAX, recv: Value::undefined(), kw: vec![("start", Value::from(start)), ("end", Value::from(end)), ("step_by", Value::from(step))], shape: "range:wide-step".into(), to_model: true });
        }
    }
    let edge = [i128::MIN, i128::MIN + 1, -(1i128 << 64) - 1, (1i128 << 64) + 1, 1i128 << 64, -100_001, -100_000, -3, -1, 0, 1, 2, 3, 7, 99_999, 100_000, 100_001, i128::MAX - 1, i128::MAX, i64::MAX as i128, 1 << 100];
    for _ in 0..n_range {
        let pick = |rng: &mut Rng| if rng.chance(1, 2) { *rng.pick(&edge) } else { rng.range(-30, 30) as i128 };
        let mut kw: Kw = Vec::new();
        let start = pick(rng);
        // mostly short progressions; some right at the size cap; some arbitrary
        let end = match rng.below(20) {
            0 => start.saturating_add(rng.range(99_990, 100_010) as i128),
            1 => start.saturating_add(rng.range(-100_010, -99_990) as i128),
            2..=11 => start.saturating_add(rng.range(-60, 60) as i128),
            _ => pick(rng),
        };
        let step = match rng.below(12) {
            0..=3 => pick(rng),
            4 => (1i128 << 64) * rng.range(1, 3) as i128 + rng.range(-2, 2) as i128,
            5 => -((1i128 << 64) * rng.range(1, 3) as i128 + rng.range(-2, 2) as i128),
            _ => rng.range(-4, 4) as i128,
        };
        if rng.chance(4, 5) {
            kw.push(("start", Value::from(start)));
        }
        kw.push(("end", Value::from(end)));
        if rng.chance(4, 5) {
            kw.push(("step_by", Value::from(step)));
        }
        out.push(Cell { b: idx("range", "function"), ri: usize::MAX, recv: Value::undefined(), kw, shape: "random:range".into(), to_model: true });
    }
    out
}

fn matrix_cells(bs: &[B], reps: &[Value], universe: &[&'static str]) -> Vec<Cell> {
    // values tried for keyword names the built-in does not declare (they must be ignored)
    let undeclared_vals: Vec<usize> = (0..reps.len()).filter(|i| i % 5 == 1 || *i == 0).collect();
    let mut out = Vec::new();
    for (bi, b) in bs.iter().enumerate() {
        let recvs: Vec<(usize, Value)> = if b.kind == "function" { vec![(0, Value::undefined())] } else { reps.iter().cloned().enumerate().collect() };
        for (ri, recv) in &recvs {
            let ri = *ri;
            out.push(Cell { b: bi, ri, recv: recv.clone(), kw: b.base.clone(), shape: "base".into(), to_model: true });
            if !b.base.is_empty() {
                out.push(Cell { b: bi, ri, recv: recv.clone(), kw: vec![], shape: "none".into(), to_model: true });
                for (k, _) in &b.base {
                    let kw: Kw = b.base.iter().filter(|(n, _)| n != k).cloned().collect();
                    out.push(Cell { b: bi, ri, recv: recv.clone(), kw, shape: format!("drop:{k}"), to_model: true });
                }
            }
            for k in universe {
                let declared = b.kwargs.iter().any(|(n, _, _)| n == k);
                for (vi, val) in reps.iter().enumerate() {
                    if !declared && !undeclared_vals.contains(&vi) {
                        continue;
                    }
                    let mut kw: Kw = b.base.iter().filter(|(n, _)| n != k).cloned().collect();
                    kw.push((k, val.clone()));
                    out.push(Cell { b: bi, ri, recv: recv.clone(), kw, shape: if declared { "set:declared".into() } else { "set:undeclared".into() }, to_model: declared || vi == 1 });
                }
            }
        }
    }
    out
}

fn run_cells(tera: &Tera, bs: &[B], cells: Vec<Cell>, threads: usize) -> Vec<Done> {
    let chunk = cells.len().div_ceil(threads).max(1);
    std::thread::scope(|s| {
        let hs: Vec<_> = cells
            .chunks(chunk)
            .map(|cs| {
                s.spawn(move || {
                    cs.iter()
                        .map(|c| {
                            let b = &bs[c.b];
                            Done { hook: eval_hook(tera, b, &c.recv, &c.kw), tpl: eval_tpl(tera, b, &c.recv, &c.kw), cell: c.clone() }
                        })
                        .collect::<Vec<_>>()
                })
            })
            .collect();
        hs.into_iter().flat_map(|h| h.join().unwrap()).collect()
    })
}

/// all direct oracles for one evaluated cell
fn check_cell(bs: &[B], d: &Done, base_result: Option<&String>) -> Option<String> {
    let b = &bs[d.cell.b];
    if d.hook.starts_with("panic") || d.tpl.starts_with("panic") {
        return Some(format!("panic: {} / {}", short(&d.hook), short(&d.tpl)));
    }
    if d.hook != d.tpl {
        return Some(format!("through a template the call gives `{}`, called directly `{}`", short(&d.tpl), short(&d.hook)));
    }
    if let Some(v) = ok_value(&d.hook) {
        if !all_strings_valid(&v) {
            return Some("a string result is not valid UTF-8".into());
        }
    } else if d.hook.starts_with("ok") {
        return Some(format!("result cannot be decoded: {}", short(&d.hook)));
    }
    match required_error(b, &d.cell.recv, &d.cell.kw) {
        Some(cls) => {
            if d.hook != format!("err {cls}") {
                return Some(format!("a mistyped or missing argument must be reported as `err {cls}`, got `{}`", short(&d.hook)));
            }
        }
        None => {
            if matches!(d.hook.as_str(), "err invalidarg" | "err missingarg" | "err outofrange") && !(b.name == "containing" && d.hook == "err invalidarg") {
                return Some(format!("all arguments are of accepted kinds but the call reports `{}`", d.hook));
            }
            if let Some(l) = law(b, &d.cell.recv, &d.cell.kw, &d.hook) {
                return Some(l);
            }
        }
    }
    if d.cell.shape == "set:undeclared" {
        if let Some(base) = base_result {
            if *base != d.hook {
                return Some(format!("an argument the built-in does not declare changed the result: `{}` vs `{}`", short(base), short(&d.hook)));
            }
        }
    }
    None
}

fn main() {
    quiet_panics();
    let env = Env::from_env();
    let bs = builtins();
    let mut universe: Vec<&'static str> = bs.iter().flat_map(|b| b.kwargs.iter().map(|(k, _, _)| *k)).collect();
    universe.push("unknown_kw");
    universe.sort();
    universe.dedup();
    let (tera, _tpls) = engine(&bs, &universe);
    let exe = driver::driver_path(&env.verif_dir, "drv_c17");

    if let Some(path) = replay_path() {
        let text = std::fs::read_to_string(&path).expect("replay file");
        let j: serde_json::Value = serde_json::from_str(&text).expect("replay json");
        let j = if j.get("replay").is_some() { j["replay"].clone() } else { j };
        let bi = bs.iter().position(|b| b.kind == j["kind"].as_str().unwrap() && b.name == j["name"].as_str().unwrap()).expect("builtin");
        let recv = decode(j["receiver"].as_str().unwrap()).unwrap();
        let kw: Kw = j["kwargs"].as_array().unwrap().iter().map(|e| {
            let k = universe.iter().find(|u| **u == e[0].as_str().unwrap()).copied().unwrap_or("unknown_kw");
            (k, decode(e[1].as_str().unwrap()).unwrap())
        }).collect();
        let cell = Cell { b: bi, ri: usize::MAX, recv, kw, shape: "replay".into(), to_model: true };
        let d = run_cells(&tera, &bs, vec![cell.clone()], 1).pop().unwrap();
        let req = model_request(&bs[bi], &cell.recv, &cell.kw);
        println!("request: {req}\nthrough a template: {}\ncalled directly:    {}\nmodel: {:?}\noracle: {:?}", d.tpl, d.hook, driver::run_batch(&exe, &[req.clone()]), check_cell(&bs, &d, None));
        return;
    }

    let mut report = Report::new("C17");
    let mut rng = Rng::new(env.seed);
    let threads = std::thread::available_parallelism().map(|n| n.get()).unwrap_or(8).min(16);

    // the harness's table must be exactly what the engine registers
    let (rf, rt, rg) = tera::verif_hooks::registered_builtins(&tera);
    for (kind, reg) in [("filter", rf), ("test", rt), ("function", rg)] {
        let mut mine: Vec<String> = bs.iter().filter(|b| b.kind == kind).map(|b| b.name.to_string()).collect();
        mine.sort();
        let reg: Vec<String> = reg.into_iter().filter(|n| n != "probe").collect();
        if mine != reg {
            let missing: Vec<&String> = reg.iter().filter(|n| !mine.contains(n)).collect();
            let extra: Vec<&String> = mine.iter().filter(|n| !reg.contains(n)).collect();
            report.violation("model-mismatch", format!("the {kind}s the engine registers are not the ones the check knows: not covered {missing:?}, not registered {extra:?}"), json!({"stage": "registration-list", "kind": kind, "not_covered": missing, "not_registered": extra}));
        }
        report.count_n(&format!("registered.{kind}s"), reg.len() as u64);
    }

    let reps = reps();
    let mut cells = matrix_cells(&bs, &reps, &universe);
    let n_matrix = cells.len();
    cells.extend(random_cells(&bs, &mut rng, env.budget(40_000, 700_000), env.budget(20_000, 250_000), env.budget(4_000, 40_000)));
    report.count_n("cells.matrix", n_matrix as u64);
    report.count_n("cells.random", (cells.len() - n_matrix) as u64);
    report.count_n("receivers", reps.len() as u64);
    report.count_n("kwarg_names", universe.len() as u64);

    let t0 = std::time::Instant::now();
    let done = run_cells(&tera, &bs, cells, threads);
    report.notes.push(format!("implementation runs: {:.1} s", t0.elapsed().as_secs_f64()));

    // results of the base cell per (builtin, receiver) for the "undeclared argument" oracle
    let mut base: BTreeMap<(usize, usize), String> = BTreeMap::new();
    for d in &done {
        if d.cell.shape == "base" {
            base.insert((d.cell.b, d.cell.ri), d.hook.clone());
        }
    }
    struct Part {
        hist: BTreeMap<String, u64>,
        distinct: BTreeSet<String>,
        fails: Vec<(usize, String)>,
        reached: u64,
    }
    let chunk = done.len().div_ceil(threads).max(1);
    let parts: Vec<Part> = std::thread::scope(|s| {
        let (bs, base) = (&bs, &base);
        let hs: Vec<_> = done
            .chunks(chunk)
            .enumerate()
            .map(|(ci, ds)| {
                s.spawn(move || {
                    let mut p = Part { hist: BTreeMap::new(), distinct: BTreeSet::new(), fails: vec![], reached: 0 };
                    for (k, d) in ds.iter().enumerate() {
                        let b = &bs[d.cell.b];
                        *p.hist.entry(format!("outcome.{}.{}", b.kind, class_str(&d.hook))).or_insert(0) += 1;
                        *p.hist.entry(format!("shape.{}", d.cell.shape)).or_insert(0) += 1;
                        if required_error(b, &d.cell.recv, &d.cell.kw).is_none() {
                            p.reached += 1;
                            p.distinct.insert(format!("{}:{}:{}", b.kind, b.name, d.hook));
                        }
                        if let Some(f) = check_cell(bs, d, base.get(&(d.cell.b, d.cell.ri))) {
                            p.fails.push((ci * chunk + k, f));
                        }
                    }
                    p
                })
            })
            .collect();
        hs.into_iter().map(|h| h.join().unwrap()).collect()
    });
    let mut distinct: BTreeSet<String> = BTreeSet::new();
    let mut fails: Vec<(usize, String)> = Vec::new();
    let mut reached_body = 0u64;
    for p in parts {
        for (k, v) in p.hist {
            report.count_n(&k, v);
        }
        distinct.extend(p.distinct);
        fails.extend(p.fails);
        reached_body += p.reached;
    }
    report.evaluations = done.len() as u64;
    report.oracle_checks = done.len() as u64;
    report.count_n("cells.reaching_the_body", reached_body);
    report.oracle_failures = fails.len() as u64;
    report.distinct_nontrivial = distinct.len() as u64;

    report.notes.push(format!("oracles done at {:.1} s", t0.elapsed().as_secs_f64()));
    // model
    let idxs: Vec<usize> = done.iter().enumerate().filter(|(_, d)| d.cell.to_model).map(|(i, _)| i).collect();
    let reqs: Vec<String> = idxs.iter().map(|&i| model_request(&bs[done[i].cell.b], &done[i].cell.recv, &done[i].cell.kw)).collect();
    let model = match driver::run_batch_parallel(&exe, &reqs, threads) {
        Ok(m) => m,
        Err(e) => {
            report.notes.push(format!("model driver unavailable: {e}"));
            report.violation("model-mismatch", format!("model driver could not be run: {e}"), json!({"stage": "driver", "error": e}));
            Vec::new()
        }
    };
    report.notes.push(format!("model answers at {:.1} s", t0.elapsed().as_secs_f64()));
    let mut mismatches: Vec<(usize, String)> = Vec::new();
    for (j, m) in model.iter().enumerate() {
        let d = &done[idxs[j]];
        if m == "skip" {
            report.count("model.skip");
            continue;
        }
        report.model_comparisons += 1;
        let agree = if m == "ok ?" { d.hook.starts_with("ok ") } else { *m == d.hook };
        report.count(if m.starts_with("ok ?") { "model.class_only" } else if m.starts_with("ok") { "model.value" } else { "model.error_class" });
        if !agree {
            report.model_disagreements += 1;
            mismatches.push((idxs[j], m.clone()));
        }
    }

    let mut by_builtin: BTreeMap<String, u64> = BTreeMap::new();
    for (i, _) in &fails {
        *by_builtin.entry(format!("{} {}", bs[done[*i].cell.b].kind, bs[done[*i].cell.b].name)).or_insert(0) += 1;
    }
    if !fails.is_empty() {
        report.notes.push(format!("oracle failures by built-in: {by_builtin:?}"));
    }
    // one violation per built-in first, so that different breaches are all visible
    let mut seen_b: BTreeSet<usize> = BTreeSet::new();
    let mut ordered: Vec<&(usize, String)> = fails.iter().filter(|(i, _)| seen_b.insert(done[*i].cell.b)).collect();
    ordered.extend(fails.iter().take(6));
    for (i, f) in ordered.into_iter().take(12) {
        let d = &done[*i];
        report.violation("property", format!("{} `{}`: {f}", bs[d.cell.b].kind, bs[d.cell.b].name), replay_of(&bs, &d.cell, json!({"oracle": f, "implementation": d.hook, "through_template": d.tpl})));
    }
    if fails.is_empty() {
        for (i, m) in mismatches.iter().take(5) {
            let d = &done[*i];
            report.violation(
                "model-mismatch",
                format!("{} `{}`: model `{}` vs implementation `{}`", bs[d.cell.b].kind, bs[d.cell.b].name, short(m), short(&d.hook)),
                replay_of(&bs, &d.cell, json!({"stage": "correspondence:builtins", "model": m, "implementation": d.hook})),
            );
        }
    }
    for i in [0usize, done.len() / 7, done.len() / 3, done.len() / 2, done.len() - 5, done.len() - 30_000.min(done.len() - 1)] {
        let d = &done[i];
        report.sample(json!({"request": model_request(&bs[d.cell.b], &d.cell.recv, &d.cell.kw), "implementation": short(&d.hook), "shape": d.cell.shape}));
    }
    report.notes.push(format!("{} of {} cells reach the body of the built-in (receiver and arguments accepted); the rest exercise argument checking, which is part of the property", reached_body, done.len()));
    report.exhaustive = false;
    report.rule = "a cell = (built-in, receiver, keyword arguments); the matrix crosses every registered filter, test and function with representative receivers of every kind (boundary numbers, multi-byte / empty / CRLF / HTML-special strings, safe strings, nested and mixed arrays, maps with non-string keys, bytes, undefined, none) and, one keyword at a time over every keyword name any built-in declares plus an undeclared one, every representative value, plus all-absent and each-required-dropped; seeded random streams add multi-byte strings with random valid arguments, boundary numbers and range arguments; distinct = distinct (built-in, outcome) among cells whose arguments are all accepted (the body runs)".into();
    report.write(&out_path());
}
