//! C13 — integer arithmetic exact or an error; mixed comparisons exact.
//!
//! For every generated pair of numeric values (every encoding) and every operator:
//!  * implementation result (through a real template, value captured by a probe filter)
//!    vs the Lean model (`drv_c13`)                                   — correspondence
//!  * implementation result vs an exact-arithmetic oracle written here — the property itself
use std::cell::RefCell;
use std::cmp::Ordering;
use tera::{Context, Kwargs, State, Tera, Value};
use tera_verif_harness::report::{out_path, replay_path, Report};
use tera_verif_harness::rng::Rng;
use tera_verif_harness::wire::{decode, encode};
use tera_verif_harness::{catch, driver, quiet_panics, Env};

thread_local! {
    static PROBE: RefCell<Option<Value>> = const { RefCell::new(None) };
}

const OPS: [(&str, &str); 7] = [
    ("add", "+"),
    ("sub", "-"),
    ("mul", "*"),
    ("div", "/"),
    ("floordiv", "//"),
    ("mod", "%"),
    ("pow", "**"),
];

fn engine() -> Tera {
    let mut tera = Tera::default();
    tera.register_filter("probe", |v: Value, _: Kwargs, _: &State| {
        PROBE.with(|p| *p.borrow_mut() = Some(v.clone()));
        v
    });
    let mut tpls: Vec<(String, String)> = OPS
        .iter()
        .map(|(n, s)| (n.to_string(), format!("{{{{ (a {s} b) | probe }}}}")))
        .collect();
    tpls.push(("neg".into(), "{{ (-a) | probe }}".into()));
    for (n, s) in [("lt", "<"), ("le", "<="), ("gt", ">"), ("ge", ">="), ("eq", "=="), ("ne", "!=")] {
        tpls.push((n.into(), format!("{{{{ (a {s} b) | probe }}}}")));
    }
    tera.add_raw_templates(tpls).expect("probe templates");
    tera
}

/// "ok <wire>" | "err <class>" | "panic <msg>"
fn classify_err(msg: &str) -> &'static str {
    if msg.contains("out of range for integer arithmetic") {
        "operandrange"
    } else if msg.contains("divide by 0") {
        "divzero"
    } else if msg.contains("Exponent") && msg.contains("out of range") {
        "exprange"
    } else if msg.contains("Unable to perform") || msg.contains("overflow") {
        "overflow"
    } else if msg.contains("can only be done on numbers")
        || msg.contains("requires both operands to be numbers")
        || msg.contains("Only numbers can be")
    {
        "notnumber"
    } else if msg.contains("Cannot compare") {
        "notcomparable"
    } else {
        "other"
    }
}

fn run_tpl(tera: &Tera, name: &str, a: &Value, b: Option<&Value>) -> String {
    let mut ctx = Context::new();
    ctx.insert_value("a", a.clone());
    if let Some(b) = b {
        ctx.insert_value("b", b.clone());
    }
    PROBE.with(|p| *p.borrow_mut() = None);
    let res = catch(std::panic::AssertUnwindSafe(|| tera.render(name, &ctx)));
    match res {
        Err(p) => format!("panic {p}"),
        Ok(Ok(_)) => match PROBE.with(|p| p.borrow_mut().take()) {
            Some(v) => format!("ok {}", encode(&v)),
            None => "noprobe".into(),
        },
        Ok(Err(e)) => {
            let msg = match e.kind() {
                tera::ErrorKind::RenderingError(r) => r.message().to_string(),
                _ => e.to_string(),
            };
            format!("err {}", classify_err(&msg))
        }
    }
}

// ---------------------------------------------------------------- exact oracle

#[derive(Clone, Copy, Debug)]
enum Ex {
    /// sign (true = negative), magnitude
    Int(bool, u128),
    Float(f64),
}

fn exact_of(v: &Value) -> Option<Ex> {
    if let Some(f) = v.as_f64().filter(|_| v.is_f64()) {
        return Some(Ex::Float(f));
    }
    if let Some(u) = v.as_u128() {
        return Some(Ex::Int(false, u));
    }
    v.as_i128().map(|i| Ex::Int(i < 0, i.unsigned_abs()))
}

/// exact comparison of |float| = m * 2^e (finite, m < 2^53) with an unsigned integer
fn cmp_mag(m: u64, e: i32, n: u128) -> Ordering {
    if m == 0 {
        return if n == 0 { Ordering::Equal } else { Ordering::Less };
    }
    if e >= 0 {
        // m * 2^e fits in u128 iff bits(m) + e <= 128
        let bits = 64 - m.leading_zeros() as i32;
        if bits + e > 128 {
            return Ordering::Greater;
        }
        ((m as u128) << e).cmp(&n)
    } else {
        let s = (-e) as u32;
        if s >= 64 {
            // value < 1
            return if n == 0 { Ordering::Greater } else { Ordering::Less };
        }
        let fl = (m >> s) as u128;
        let frac = m & ((1u64 << s) - 1);
        match fl.cmp(&n) {
            Ordering::Equal if frac != 0 => Ordering::Greater,
            o => o,
        }
    }
}

fn decompose(f: f64) -> (bool, u64, i32) {
    let bits = f.to_bits();
    let neg = bits >> 63 == 1;
    let ex = ((bits >> 52) & 0x7ff) as i32;
    let mant = bits & ((1u64 << 52) - 1);
    if ex == 0 { (neg, mant, -1074) } else { (neg, mant | (1u64 << 52), ex - 1075) }
}

/// The order the property prescribes: exact mathematical value, NaN equal to itself and after
/// every number.
fn exact_cmp(a: Ex, b: Ex) -> Ordering {
    match (a, b) {
        (Ex::Int(sa, ma), Ex::Int(sb, mb)) => {
            let za = ma == 0;
            let zb = mb == 0;
            let sa = sa && !za;
            let sb = sb && !zb;
            match (sa, sb) {
                (false, false) => ma.cmp(&mb),
                (true, true) => mb.cmp(&ma),
                (true, false) => Ordering::Less,
                (false, true) => Ordering::Greater,
            }
        }
        (Ex::Float(x), Ex::Float(y)) => match (x.is_nan(), y.is_nan()) {
            (true, true) => Ordering::Equal,
            (true, false) => Ordering::Greater,
            (false, true) => Ordering::Less,
            _ => x.partial_cmp(&y).unwrap(),
        },
        (Ex::Float(x), Ex::Int(s, m)) => {
            if x.is_nan() {
                return Ordering::Greater;
            }
            if x.is_infinite() {
                return if x > 0.0 { Ordering::Greater } else { Ordering::Less };
            }
            let (neg, fm, fe) = decompose(x);
            let fneg = neg && fm != 0;
            let ineg = s && m != 0;
            match (fneg, ineg) {
                (false, true) => Ordering::Greater,
                (true, false) => Ordering::Less,
                (false, false) => cmp_mag(fm, fe, m),
                (true, true) => cmp_mag(fm, fe, m).reverse(),
            }
        }
        (Ex::Int(..), Ex::Float(_)) => exact_cmp(b, a).reverse(),
    }
}

fn as_i128_exact(e: Ex) -> Option<i128> {
    match e {
        Ex::Int(false, m) => i128::try_from(m).ok(),
        Ex::Int(true, m) => {
            if m <= i128::MAX as u128 {
                Some(-(m as i128))
            } else if m == 1u128 << 127 {
                Some(i128::MIN)
            } else {
                None
            }
        }
        Ex::Float(_) => None,
    }
}

/// What the property demands for an *integer × integer* operation: Some(Ok(exact)) when the
/// result fits, Some(Err(())) when an error is required, None when the property leaves it open
/// (operands outside i128, `/`, negative exponent).
fn exact_int_op(op: &str, a: i128, b: i128) -> Option<Result<i128, ()>> {
    Some(match op {
        "add" => a.checked_add(b).ok_or(()),
        "sub" => a.checked_sub(b).ok_or(()),
        "mul" => a.checked_mul(b).ok_or(()),
        "floordiv" => {
            if b == 0 {
                Err(())
            } else if a == i128::MIN && b == -1 {
                Err(())
            } else {
                Ok(a.div_euclid(b))
            }
        }
        "mod" => {
            if b == 0 {
                Err(())
            } else if b == -1 {
                Ok(0)
            } else {
                Ok(a.rem_euclid(b))
            }
        }
        "pow" => {
            if b < 0 {
                return None;
            }
            match a {
                0 => Ok(if b == 0 { 1 } else { 0 }),
                1 => Ok(1),
                -1 => Ok(if b % 2 == 0 { 1 } else { -1 }),
                _ => {
                    if b > 127 {
                        Err(())
                    } else {
                        a.checked_pow(b as u32).ok_or(())
                    }
                }
            }
        }
        _ => return None,
    })
}

// ---------------------------------------------------------------- generators

fn int_lattice(thorough: bool) -> Vec<(bool, u128)> {
    let mut out: Vec<(bool, u128)> = Vec::new();
    let mut push = |neg: bool, m: u128| {
        if !out.contains(&(neg && m != 0, m)) {
            out.push((neg && m != 0, m));
        }
    };
    for m in [0u128, 1, 2, 3, 7, 10, 255] {
        push(false, m);
        push(true, m);
    }
    let ks: &[u32] = if thorough {
        &[8, 16, 24, 31, 32, 33, 52, 53, 54, 62, 63, 64, 65, 96, 106, 126, 127]
    } else {
        &[31, 32, 53, 63, 64, 127]
    };
    for &k in ks {
        let p = 1u128 << k;
        for d in [-1i32, 0, 1] {
            let m = if d < 0 { p - 1 } else if d > 0 { p + 1 } else { p };
            push(false, m);
            push(true, m);
        }
    }
    push(false, u128::MAX);
    push(false, u128::MAX - 1);
    push(false, (1u128 << 127) + (1u128 << 74)); // halfway cases around f64 spacing at 2^127
    push(false, (1u128 << 53) + 2);
    push(true, (1u128 << 53) + 2);
    push(false, 9007199254740993);
    if thorough {
        for m in [12345678901234567890u128, 1u128 << 100, (1u128 << 100) + 12345, 999999999999] {
            push(false, m);
            push(true, m);
        }
    }
    out
}

/// every encoding that can hold the integer
fn encodings(neg: bool, m: u128) -> Vec<Value> {
    let mut v = Vec::new();
    if !neg {
        if let Ok(x) = u64::try_from(m) {
            v.push(Value::from(x));
        }
        v.push(Value::from(m));
        if let Ok(x) = i64::try_from(m) {
            v.push(Value::from(x));
        }
        if let Ok(x) = i128::try_from(m) {
            v.push(Value::from(x));
        }
    } else {
        if m <= 1u128 << 63 {
            v.push(Value::from((-(m as i128)) as i64));
        }
        if m <= 1u128 << 127 {
            v.push(Value::from((m as i128).wrapping_neg()));
        }
    }
    v
}

fn float_lattice(ints: &[(bool, u128)], rng: &mut Rng, extra: usize) -> Vec<f64> {
    let mut fs: Vec<f64> = vec![
        0.0,
        -0.0,
        0.5,
        -0.5,
        1.5,
        -1.5,
        2.5,
        1e300,
        -1e300,
        f64::MAX,
        f64::MIN,
        f64::MIN_POSITIVE,
        5e-324,
        -5e-324,
        f64::INFINITY,
        f64::NEG_INFINITY,
        f64::NAN,
        0.1,
        3.0,
        -7.0,
    ];
    for &(neg, m) in ints {
        let f = if neg { -(m as f64) } else { m as f64 };
        for g in [f, next_up(f), next_down(f)] {
            if !fs.iter().any(|x| x.to_bits() == g.to_bits()) {
                fs.push(g);
            }
        }
    }
    for _ in 0..extra {
        fs.push(f64::from_bits(rng.next_u64()));
    }
    fs
}

fn next_up(f: f64) -> f64 {
    if f.is_nan() || f == f64::INFINITY {
        return f;
    }
    if f == 0.0 {
        return 5e-324;
    }
    let b = f.to_bits();
    f64::from_bits(if f > 0.0 { b + 1 } else { b - 1 })
}
fn next_down(f: f64) -> f64 {
    -next_up(-f)
}

fn random_value(rng: &mut Rng) -> Value {
    match rng.below(8) {
        0 => Value::from(rng.next_u64()),
        1 => Value::from(rng.next_u64() as i64),
        2 => Value::from(rng.next_u128()),
        3 => Value::from(rng.next_u128() as i128),
        4 => Value::from(f64::from_bits(rng.next_u64())),
        5 => Value::from(rng.range(-20, 20)),
        6 => {
            // integer-valued float of random magnitude
            let k = rng.below(130) as i32;
            let f = (rng.range(1, 1 << 20) as f64) * 2f64.powi(k - 20);
            Value::from(if rng.chance(1, 2) { f } else { -f })
        }
        _ => {
            let sh = rng.below(128) as u32;
            let m = rng.next_u128() >> sh;
            match rng.below(3) {
                0 => Value::from(m),
                1 => Value::from(m as i128),
                _ => Value::from((m >> 1) as i128).clone(),
            }
        }
    }
}

// ---------------------------------------------------------------- main

struct Case {
    req: String,
    imp: String,
    a: Value,
    b: Option<Value>,
    op: String,
}

fn ord_name(o: Option<Ordering>) -> &'static str {
    match o {
        Some(Ordering::Less) => "lt",
        Some(Ordering::Equal) => "eq",
        Some(Ordering::Greater) => "gt",
        None => "none",
    }
}

fn eval_case(tera: &Tera, op: &str, a: &Value, b: Option<&Value>) -> (String, String) {
    match op {
        "cmp" => {
            let b = b.unwrap();
            let req = format!("cmp {} {}", encode(a), encode(b));
            let r = catch(std::panic::AssertUnwindSafe(|| (a.partial_cmp(b), a == b)));
            let imp = match r {
                Ok((o, e)) => format!("{} {}", ord_name(o), if e { 1 } else { 0 }),
                Err(p) => format!("panic {p}"),
            };
            (req, imp)
        }
        "neg" => (format!("neg {}", encode(a)), run_tpl(tera, "neg", a, None)),
        _ => (
            format!("arith {op} {} {}", encode(a), encode(b.unwrap())),
            run_tpl(tera, op, a, b),
        ),
    }
}

/// The property itself, evaluated on the implementation's answer. Some(description) = violated.
fn oracle(tera: &Tera, c: &Case) -> Option<String> {
    if c.imp.starts_with("panic") {
        return Some(format!("panic: {}", c.imp));
    }
    let ea = exact_of(&c.a)?;
    match c.op.as_str() {
        "cmp" => {
            let b = c.b.as_ref()?;
            let eb = exact_of(b)?;
            let want = exact_cmp(ea, eb);
            let want_s = format!("{} {}", ord_name(Some(want)), if want == Ordering::Equal { 1 } else { 0 });
            if c.imp != want_s {
                return Some(format!("comparison: engine says `{}`, exact values give `{}`", c.imp, want_s));
            }
            // the operators of the template language must agree with it
            for (name, expect) in [
                ("lt", want == Ordering::Less),
                ("le", want != Ordering::Greater),
                ("gt", want == Ordering::Greater),
                ("ge", want != Ordering::Less),
                ("eq", want == Ordering::Equal),
                ("ne", want != Ordering::Equal),
            ] {
                let got = run_tpl(tera, name, &c.a, Some(b));
                let exp = format!("ok {}", if expect { "B1" } else { "B0" });
                if got != exp {
                    return Some(format!("operator `{name}`: engine `{got}`, exact `{exp}`"));
                }
            }
            None
        }
        "neg" => {
            let got_val = c.imp.strip_prefix("ok ").and_then(decode);
            match ea {
                Ex::Float(_) => None,
                Ex::Int(..) => match as_i128_exact(ea) {
                    Some(a) => match a.checked_neg() {
                        Some(r) => {
                            if got_val.as_ref().and_then(|v| v.as_i128()) != Some(r) || got_val.as_ref().is_some_and(|v| v.is_f64()) {
                                Some(format!("-({a}) must be {r}, engine: {}", c.imp))
                            } else {
                                None
                            }
                        }
                        None => (!c.imp.starts_with("err")).then(|| format!("-({a}) does not fit, engine: {}", c.imp)),
                    },
                    None => (!c.imp.starts_with("err")).then(|| format!("operand outside i128 must be an error, engine: {}", c.imp)),
                },
            }
        }
        op => {
            let b = c.b.as_ref()?;
            let eb = exact_of(b)?;
            let got_val = c.imp.strip_prefix("ok ").and_then(decode);
            // division by zero is an error for every representation of zero
            let b_zero = match eb {
                Ex::Int(_, m) => m == 0,
                Ex::Float(f) => f == 0.0,
            };
            let both_in_range = !matches!(ea, Ex::Int(..)) || as_i128_exact(ea).is_some();
            let both_in_range = both_in_range && (!matches!(eb, Ex::Int(..)) || as_i128_exact(eb).is_some());
            if matches!(op, "div" | "floordiv" | "mod") && b_zero && both_in_range {
                return (!c.imp.starts_with("err")).then(|| format!("division by zero must be an error, engine: {}", c.imp));
            }
            match (ea, eb) {
                (Ex::Int(..), Ex::Int(..)) => {
                    let (Some(x), Some(y)) = (as_i128_exact(ea), as_i128_exact(eb)) else {
                        // an operand does not fit i128: the property asks for an error
                        return (!c.imp.starts_with("err")).then(|| format!("operand outside i128 must be an error, engine: {}", c.imp));
                    };
                    if op == "div" {
                        // always the floating point quotient
                        let want = (x as f64) / (y as f64);
                        let ok = got_val.as_ref().is_some_and(|v| v.is_f64() && v.as_f64().map(|g| g.to_bits()) == Some(want.to_bits()));
                        return (!ok).then(|| format!("{x} / {y} must be the float {want:?}, engine: {}", c.imp));
                    }
                    match exact_int_op(op, x, y)? {
                        Ok(r) => {
                            let ok = got_val.as_ref().is_some_and(|v| !v.is_f64() && v.as_i128() == Some(r));
                            if !ok {
                                return Some(format!("{x} {op} {y} must be exactly {r}, engine: {}", c.imp));
                            }
                            if op == "mod" || op == "floordiv" {
                                // (a // b) * b + a % b == a and 0 <= a % b < |b|, on the engine's own answers
                                let q = run_tpl(tera, "floordiv", &c.a, Some(b));
                                let m = run_tpl(tera, "mod", &c.a, Some(b));
                                if let (Some(q), Some(m)) = (
                                    q.strip_prefix("ok ").and_then(decode).and_then(|v| v.as_i128()),
                                    m.strip_prefix("ok ").and_then(decode).and_then(|v| v.as_i128()),
                                ) {
                                    // q * y alone may leave i128 (x = MIN): check the identity modulo 2^128;
                                    // q and m were already compared with the exact quotient and remainder
                                    let lhs = q.wrapping_mul(y).wrapping_add(m);
                                    if lhs != x || m < 0 || (m as u128) >= y.unsigned_abs() {
                                        return Some(format!("division law broken: {x} // {y} = {q}, {x} % {y} = {m}"));
                                    }
                                }
                            }
                            None
                        }
                        Err(()) => (!c.imp.starts_with("err")).then(|| format!("{x} {op} {y} does not fit in i128 and must be an error, engine: {}", c.imp)),
                    }
                }
                _ => {
                    // a float operand: carried out in floating point => a float result (or an error)
                    if let Some(v) = got_val {
                        if !v.is_f64() {
                            return Some(format!("float operand must give a float result, engine: {}", c.imp));
                        }
                        // + - * / are single IEEE operations on the operands rounded to nearest
                        let fx = match ea { Ex::Float(f) => f, _ => as_i128_exact(ea)? as f64 };
                        let fy = match eb { Ex::Float(f) => f, _ => as_i128_exact(eb)? as f64 };
                        let want = match op {
                            "add" => fx + fy,
                            "sub" => fx - fy,
                            "mul" => fx * fy,
                            "div" => fx / fy,
                            _ => return None,
                        };
                        let g = v.as_f64().unwrap();
                        if g.to_bits() != want.to_bits() && !(g.is_nan() && want.is_nan()) {
                            return Some(format!("float {op}: engine {g:?}, IEEE {want:?}"));
                        }
                    }
                    None
                }
            }
        }
    }
}

/// Integer LITERALS written in the template source at and beyond the i64 boundary: the rendered
/// text is the exact decimal of the exact result, or the template is refused / the render is an
/// error — never an inexact (float) answer.  Directed, every seed.
fn literal_family(report: &mut Report) {
    let big: Vec<(String, Option<i128>)> = {
        let mut v: Vec<(String, Option<i128>)> = Vec::new();
        for n in [0i128, 1, 255, 4294967296, (1 << 53) + 1, i64::MAX as i128 - 1, i64::MAX as i128, i64::MAX as i128 + 1,
                  i64::MAX as i128 + 2, u64::MAX as i128, u64::MAX as i128 + 1, 10i128.pow(19), 10i128.pow(20),
                  i128::MAX - 1, i128::MAX] {
            v.push((n.to_string(), Some(n)));
        }
        // beyond i128: no exact integer result exists in the engine, so only an error is right
        v.push(("170141183460469231731687303715884105728".into(), None)); // 2^127
        v.push(("340282366920938463463374607431768211456".into(), None)); // 2^128
        v.push(("1".to_string() + &"0".repeat(40), None));
        v
    };
    let exact = |x: Option<i128>| x.map(|n| n.to_string());
    let mut check = |src: String, want: Option<String>, report: &mut Report| {
        report.evaluations += 1;
        report.oracle_checks += 1;
        report.count("literal.cases");
        let got = std::panic::catch_unwind(|| Tera::default().render_str(&src, &Context::new(), false));
        let bad = match (&got, &want) {
            (Err(_), _) => Some("panic".to_string()),
            (Ok(Err(_)), _) => None, // refusing the literal (or the operation) is always allowed
            (Ok(Ok(text)), Some(w)) if text == w => None,
            (Ok(Ok(text)), w) => Some(format!("rendered `{text}`, exact result {}", w.clone().unwrap_or_else(|| "does not fit any integer: only an error is right".into()))),
        };
        if let Some(d) = bad {
            report.oracle_failures += 1;
            report.count("literal.failures");
            if report.histogram.get("literal.failures").copied().unwrap_or(0) <= 5 {
                report.violation(
                    "property",
                    format!("integer literal in the template source: `{src}` {d}"),
                    serde_json::json!({"literal_template": src, "expected": want, "rerun": "harness/target/release/c13 --replay <this file>"}),
                );
            }
        }
    };
    for (lit, n) in &big {
        check(format!("{{{{ {lit} }}}}"), exact(*n), report);
        check(format!("{{{{ {lit} - 1 }}}}"), exact(n.and_then(|x| x.checked_sub(1))), report);
        check(format!("{{{{ {lit} + 1 }}}}"), exact(n.and_then(|x| x.checked_add(1))), report);
        check(format!("{{{{ 0 - {lit} }}}}"), exact(n.and_then(|x| 0i128.checked_sub(x))), report);
        check(format!("{{{{ -{lit} }}}}"), exact(n.and_then(|x| x.checked_neg())), report);
        check(format!("{{{{ {lit} * 1 }}}}"), exact(*n), report);
        check(format!("{{{{ {lit} // 1 }}}}"), exact(*n), report);
        check(format!("{{{{ {lit} % 7 }}}}"), exact(n.map(|x| x.rem_euclid(7))), report);
        // equality of a literal with its successor must not be true
        let succ = n.and_then(|x| x.checked_add(1)).map(|x| x.to_string());
        if let Some(sx) = succ {
            check(format!("{{{{ {lit} == {sx} }}}}"), Some("false".into()), report);
            check(format!("{{{{ {lit} < {sx} }}}}"), Some("true".into()), report);
        }
    }
}

fn main() {
    quiet_panics();
    let env = Env::from_env();
    let mut report = Report::new("C13");
    let tera = engine();

    if let Some(path) = replay_path() {
        let text = std::fs::read_to_string(&path).expect("replay file");
        let j: serde_json::Value = serde_json::from_str(&text).expect("replay json");
        if let Some(src) = j["literal_template"].as_str() {
            let got = std::panic::catch_unwind(|| Tera::default().render_str(src, &Context::new(), false));
            println!("template: {src}\nexpected: {}\nimplementation: {:?}", j["expected"], got.map(|r| r.map_err(|e| e.to_string())));
            return;
        }
        let op = j["op"].as_str().unwrap().to_string();
        let a = decode(j["a"].as_str().unwrap()).unwrap();
        let b = j["b"].as_str().and_then(decode);
        let (req, imp) = eval_case(&tera, &op, &a, b.as_ref());
        let c = Case { req, imp, a, b, op };
        println!("request: {}\nimplementation: {}\noracle: {:?}", c.req, c.imp, oracle(&tera, &c));
        return;
    }

    literal_family(&mut report);

    let mut rng = Rng::new(env.seed);
    let ints = int_lattice(!env.quick());
    let mut values: Vec<Value> = Vec::new();
    for &(neg, m) in &ints {
        values.extend(encodings(neg, m));
    }
    let n_int_values = values.len();
    let floats = float_lattice(&ints, &mut rng, env.budget(20, 200));
    values.extend(floats.iter().map(|f| Value::from(*f)));
    report.count_n("lattice.integer_values", n_int_values as u64);
    report.count_n("lattice.float_values", floats.len() as u64);

    // pairs: the whole lattice product in thorough; in quick the product of a seeded subsample
    // of the lattice plus every value against the extremes
    let mut pairs: Vec<(Value, Value)> = Vec::new();
    if env.quick() {
        let mut idx: Vec<usize> = (0..values.len()).collect();
        // keep ~130 values: shuffle then take
        for i in (1..idx.len()).rev() {
            idx.swap(i, rng.below(i + 1));
        }
        let keep: Vec<usize> = idx.into_iter().take(130).collect();
        for &i in &keep {
            for &j in &keep {
                pairs.push((values[i].clone(), values[j].clone()));
            }
        }
        let extremes = [
            Value::from(i128::MIN),
            Value::from(i128::MAX),
            Value::from(-1i64),
            Value::from(0u64),
            Value::from(1i64),
            Value::from(2i64),
            Value::from(u128::MAX),
            Value::from(f64::NAN),
            Value::from(2f64.powi(127)),
            Value::from(-(2f64.powi(127))),
        ];
        for v in &values {
            for e in &extremes {
                pairs.push((v.clone(), e.clone()));
                pairs.push((e.clone(), v.clone()));
            }
        }
    } else {
        for a in &values {
            for b in &values {
                pairs.push((a.clone(), b.clone()));
            }
        }
    }
    let n_lattice_pairs = pairs.len();
    for _ in 0..env.budget(20_000, 600_000) {
        pairs.push((random_value(&mut rng), random_value(&mut rng)));
    }
    // huge exponents for `**` (the F6 arm) and non-numbers
    for base in [-2i64, -1, 0, 1, 2, 3] {
        for exp in [0i128, 1, 2, 127, 128, (1 << 32) - 1, 1 << 32, (1 << 32) + 1, 1 << 40, (1 << 40) + 1, i128::MAX, i128::MAX - 1] {
            pairs.push((Value::from(base), Value::from(exp)));
        }
    }
    for other in [Value::from("1"), Value::from(true), Value::none(), Value::undefined(), Value::from(vec![Value::from(1)])] {
        pairs.push((other.clone(), Value::from(1)));
        pairs.push((Value::from(1.5), other.clone()));
    }
    report.count_n("pairs.lattice", n_lattice_pairs as u64);
    report.count_n("pairs.total", pairs.len() as u64);

    // Evaluate on the implementation, in parallel
    let threads = std::thread::available_parallelism().map(|n| n.get()).unwrap_or(8).min(16);
    let chunk = pairs.len().div_ceil(threads);
    let mut cases: Vec<Case> = std::thread::scope(|s| {
        let tera = &tera;
        let hs: Vec<_> = pairs
            .chunks(chunk)
            .map(|ps| {
                s.spawn(move || {
                    let mut out = Vec::with_capacity(ps.len() * 9);
                    for (a, b) in ps {
                        for (op, _) in OPS.iter() {
                            let (req, imp) = eval_case(tera, op, a, Some(b));
                            out.push(Case { req, imp, a: a.clone(), b: Some(b.clone()), op: op.to_string() });
                        }
                        let (req, imp) = eval_case(tera, "cmp", a, Some(b));
                        out.push(Case { req, imp, a: a.clone(), b: Some(b.clone()), op: "cmp".into() });
                    }
                    out
                })
            })
            .collect();
        hs.into_iter().flat_map(|h| h.join().unwrap()).collect()
    });
    for v in &values {
        let (req, imp) = eval_case(&tera, "neg", v, None);
        cases.push(Case { req, imp, a: v.clone(), b: None, op: "neg".into() });
    }

    // Model answers
    let exe = driver::driver_path(&env.verif_dir, "drv_c13");
    let reqs: Vec<String> = cases.iter().map(|c| c.req.clone()).collect();
    let model = match driver::run_batch_parallel(&exe, &reqs, threads) {
        Ok(m) => m,
        Err(e) => {
            report.notes.push(format!("model driver unavailable: {e}"));
            report.violation("model-mismatch", format!("model driver could not be run: {e}"), serde_json::json!({"stage": "driver", "error": e}));
            Vec::new()
        }
    };

    let mut distinct = std::collections::HashSet::new();
    let mut mismatches: Vec<usize> = Vec::new();
    for (i, c) in cases.iter().enumerate() {
        report.evaluations += 1;
        let class = c.imp.split(' ').take(if c.imp.starts_with("err") { 2 } else { 1 }).collect::<Vec<_>>().join(" ");
        report.count(&format!("op.{}.{}", c.op, class));
        // non-trivial: a result was produced or a specific error class arose; distinct by request
        if distinct.insert(&c.req) {
            report.distinct_nontrivial += 1;
        }
        if !model.is_empty() {
            report.model_comparisons += 1;
            // powf goes through libm on both sides; compared but NaN payloads canonicalised already
            if model[i] != c.imp {
                report.model_disagreements += 1;
                mismatches.push(i);
            }
        }
    }
    // The property itself on the implementation's answers (independent of the model)
    let fails: Vec<(usize, String)> = std::thread::scope(|s| {
        let tera = &tera;
        let hs: Vec<_> = cases
            .chunks(cases.len().div_ceil(threads).max(1))
            .enumerate()
            .map(|(ci, cs)| {
                let base = ci * cases.len().div_ceil(threads).max(1);
                s.spawn(move || {
                    let mut f = Vec::new();
                    for (k, c) in cs.iter().enumerate() {
                        if let Some(d) = oracle(tera, c) {
                            f.push((base + k, d));
                        }
                    }
                    f
                })
            })
            .collect();
        hs.into_iter().flat_map(|h| h.join().unwrap()).collect()
    });
    report.oracle_checks += cases.len() as u64;
    report.oracle_failures += fails.len() as u64;

    let replay_of = |c: &Case, extra: serde_json::Value| {
        serde_json::json!({
            "op": c.op, "a": encode(&c.a), "b": c.b.as_ref().map(encode),
            "a_display": format!("{} ({})", c.a, c.a.name()),
            "b_display": c.b.as_ref().map(|b| format!("{} ({})", b, b.name())),
            "implementation": c.imp, "detail": extra,
            "rerun": "harness/target/release/c13 --replay <this file>",
        })
    };
    for (i, d) in fails.iter().take(5) {
        let c = &cases[*i];
        report.violation("property", d.clone(), replay_of(c, serde_json::json!({"oracle": d, "model": model.get(*i)})));
    }
    if fails.is_empty() {
        for i in mismatches.iter().take(5) {
            let c = &cases[*i];
            report.violation(
                "model-mismatch",
                format!("model `{}` vs implementation `{}` on `{}`", model[*i], c.imp, c.req),
                replay_of(c, serde_json::json!({"stage": "correspondence:number", "model": model[*i]})),
            );
        }
    }
    for i in [0usize, cases.len() / 3, cases.len() / 2, cases.len() - 1] {
        let c = &cases[i];
        report.sample(serde_json::json!({"request": c.req, "implementation": c.imp, "model": model.get(i)}));
    }
    report.rule = "pairs of numeric values from the boundary lattice (every width's extremes ±1, 2^53, 2^63, 2^64, 2^127, neighbouring floats, ±0, ±inf, NaN, subnormals) in every encoding that can hold them, plus seeded random bit patterns, under 7 arithmetic operators, negation and comparison; a case is distinct by its (operator, operands-with-encoding) request; every case reaches the arithmetic or comparison code (non-trivial)".into();
    report.write(&out_path());
}
