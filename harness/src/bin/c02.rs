//! C02 (syntax half) — grouping follows the documented precedence table and associativity.
//!
//! Stages, for every generated source `{{ expr }}`:
//!  * correspondence: real token stream (`verif_hooks::tokens_wire`) → Lean model parser
//!    (`drv_c02 parse`) vs the real parser's AST (`verif_hooks::ast_wire`): exact AST equality,
//!    or both reject;
//!  * direct oracle (independent of the Lean model and of parser.rs): the source printed with the
//!    MINIMAL parentheses the DOCUMENTED table requires (table read from docs/content/_index.md
//!    at run time, textbook precedence climbing written here) must give the same AST, and the
//!    same render result, as the FULLY parenthesised spelling of the same tree — "the engine
//!    agrees with itself under documented parenthesisation";
//!  * exhaustive: every ordered pair of the 21 infix forms (17 binary operators, `in`, `not in`,
//!    `is t`, `is not t`, `| f`) as `A op1 B op2 C` with no parentheses at all, both nestings
//!    through the printer, unary and ternary combinations; triples in the thorough tier;
//!  * malformed stream: token-level mutations of valid expressions, nesting limits;
//!  * reference printer: random trees are sent to the Lean driver (`spec`), which answers with the
//!    tokens of the documented spelling (`S.render` of Spec/Precedence.lean, the object of the
//!    parse/print theorems) and the AST it denotes; the real engine must parse that spelling to
//!    exactly that AST.
use std::collections::{BTreeMap, HashSet};
use tera::{Context, Delimiters, Tera};
use tera_verif_harness::report::{out_path, replay_path, Report};
use tera_verif_harness::rng::Rng;
use tera_verif_harness::{catch, driver, quiet_panics, Env};

// ------------------------------------------------------------------ documented table

/// level of each documented spelling: row index + 1 (0 is the ternary, which the table omits and
/// the prose describes as `a if c else b`)
struct DocTable {
    level: BTreeMap<String, u8>,
}

fn read_doc_table() -> Result<DocTable, String> {
    let text = std::fs::read_to_string("/repo/docs/content/_index.md").map_err(|e| e.to_string())?;
    let start = text.find("#### Operator precedence").ok_or("no precedence section")?;
    let sec = &text[start..];
    if !sec.contains("From lowest to highest binding power") {
        return Err("direction sentence changed".into());
    }
    let mut level = BTreeMap::new();
    let mut row = 0u8;
    let mut in_table = false;
    for line in sec.lines().skip(1) {
        let l = line.trim();
        if l.starts_with('|') {
            if l.contains("Operators") || l.contains("---") {
                in_table = true;
                continue;
            }
            row += 1;
            let cell = l.trim_matches('|').trim().replace("\\|", "|");
            // split on "`, `" boundaries
            let mut rest = cell.as_str();
            while let Some(i) = rest.find('`') {
                let after = &rest[i + 1..];
                let j = after.find('`').ok_or("unbalanced backtick")?;
                let mut name = after[..j].to_string();
                let tail = &after[j + 1..];
                if tail.trim_start().starts_with("(unary)") {
                    name.push_str(" (unary)");
                }
                level.insert(name, row);
                rest = tail;
            }
        } else if in_table && l.is_empty() {
            if row > 0 {
                break;
            }
        } else if l.starts_with('#') {
            break;
        }
    }
    for need in ["or", "and", "not", "in", "not in", "is", "is not", "==", "!=", "<", "<=", ">", ">=", "+", "-", "*", "/", "//", "%", "~", "**", "|", "- (unary)", "[]"] {
        if !level.contains_key(need) {
            return Err(format!("documented table has no entry `{need}`"));
        }
    }
    Ok(DocTable { level })
}

// ------------------------------------------------------------------ surface trees

const BIN_SYMS: [&str; 17] = ["*", "/", "%", "+", "-", "//", "**", "<", ">", "<=", ">=", "==", "!=", "and", "or", "~", "in"];
const POW: usize = 6;
const CONCAT: usize = 15;

#[derive(Clone, Debug, PartialEq)]
enum X {
    Int(u64),
    Float(&'static str),
    Str(String),
    Bool(bool),
    NoneLit(&'static str),
    Var(String),
    Attr(Box<X>, String, bool),
    Index(Box<X>, Box<X>, bool),
    Slice(Box<X>, Option<Box<X>>, Option<Box<X>>, Option<Box<X>>, bool),
    Call(String, Vec<(String, X)>),
    Filter(Box<X>, String, Option<Vec<(String, X)>>),
    Test(Box<X>, String, Option<Vec<(String, X)>>, bool),
    Not(Box<X>),
    Neg(Box<X>),
    Bin(usize, Box<X>, Box<X>),
    NotIn(Box<X>, Box<X>),
    Tern(Box<X>, Box<X>, Box<X>),
    Array(Vec<(bool, X)>),
    Map(Vec<(Option<String>, X)>),
    Comp(Box<X>, Option<String>, String, Box<X>, Option<Box<X>>),
}

fn bx(x: X) -> Box<X> {
    Box::new(x)
}

impl X {
    fn is_chain(&self) -> bool {
        match self {
            X::Var(_) => true,
            X::Attr(b, _, _) => b.is_chain(),
            X::Index(b, _, _) | X::Slice(b, _, _, _, _) => b.is_chain(),
            _ => false,
        }
    }
    /// produces a `UnaryOperation` node in the engine's AST
    fn is_unary_node(&self) -> bool {
        matches!(self, X::Not(_) | X::Neg(_) | X::NotIn(..) | X::Test(_, _, _, true))
    }
    fn kind(&self) -> &'static str {
        match self {
            X::Int(_) | X::Float(_) | X::Str(_) | X::Bool(_) | X::NoneLit(_) => "literal",
            X::Var(_) => "var",
            X::Attr(..) => "attr",
            X::Index(..) => "index",
            X::Slice(..) => "slice",
            X::Call(..) => "call",
            X::Filter(..) => "filter",
            X::Test(..) => "test",
            X::Not(_) => "not",
            X::Neg(_) => "neg",
            X::Bin(..) => "binary",
            X::NotIn(..) => "not-in",
            X::Tern(..) => "ternary",
            X::Array(_) => "array",
            X::Map(_) => "map",
            X::Comp(..) => "comprehension",
        }
    }
    fn children(&self) -> Vec<&X> {
        match self {
            X::Attr(b, _, _) => vec![b],
            X::Index(b, i, _) => vec![b, i],
            X::Slice(b, a, c, d, _) => {
                let mut v: Vec<&X> = vec![b];
                for o in [a, c, d].into_iter().flatten() {
                    v.push(o);
                }
                v
            }
            X::Call(_, kw) => kw.iter().map(|(_, x)| x).collect(),
            X::Filter(b, _, kw) | X::Test(b, _, kw, _) => {
                let mut v: Vec<&X> = vec![b];
                if let Some(kw) = kw {
                    v.extend(kw.iter().map(|(_, x)| x));
                }
                v
            }
            X::Not(a) | X::Neg(a) => vec![a],
            X::Bin(_, a, b) | X::NotIn(a, b) => vec![a, b],
            X::Tern(a, b, c) => vec![a, b, c],
            X::Array(xs) => xs.iter().map(|(_, x)| x).collect(),
            X::Map(xs) => xs.iter().map(|(_, x)| x).collect(),
            X::Comp(e, _, _, t, c) => {
                let mut v: Vec<&X> = vec![e, t];
                if let Some(c) = c {
                    v.push(c);
                }
                v
            }
            _ => vec![],
        }
    }
    fn walk(&self, f: &mut dyn FnMut(&X)) {
        f(self);
        for c in self.children() {
            c.walk(f);
        }
    }
    fn depth(&self) -> usize {
        1 + self.children().iter().map(|c| c.depth()).max().unwrap_or(0)
    }
    /// nesting of array literals as the parser's `array_dimension` counter sees it
    fn array_depth(&self) -> usize {
        match self {
            X::Array(xs) => 1 + xs.iter().map(|(_, x)| x.array_depth()).max().unwrap_or(0),
            X::Comp(e, _, _, t, c) => (1 + e.array_depth()).max(t.array_depth()).max(c.as_ref().map(|c| c.array_depth()).unwrap_or(0)),
            _ => self.children().iter().map(|c| c.array_depth()).max().unwrap_or(0),
        }
    }
    /// nesting of subscripts as the parser's `num_left_brackets` counter sees it
    fn bracket_depth(&self) -> usize {
        match self {
            X::Index(b, i, _) => b.bracket_depth().max(1 + i.bracket_depth()),
            X::Slice(b, a, c, d, _) => {
                let inner = [a, c, d].into_iter().flatten().map(|x| x.bracket_depth()).max().unwrap_or(0);
                b.bracket_depth().max(1 + inner)
            }
            _ => self.children().iter().map(|c| c.bracket_depth()).max().unwrap_or(0),
        }
    }
    fn within_limits(&self) -> bool {
        self.array_depth() <= 2 && self.bracket_depth() <= 4
    }
}

#[derive(Clone, Copy, PartialEq)]
enum Mode {
    /// the parentheses the documented table requires, plus redundant ones with probability p/100
    Minimal(u32),
    /// parentheses around every operator node in operand position
    Full,
}

struct Printer<'a> {
    doc: &'a DocTable,
    mode: Mode,
    rng: Rng,
}

impl<'a> Printer<'a> {
    fn lv(&self, s: &str) -> u8 {
        self.doc.level[s]
    }
    fn atom_level(&self) -> u8 {
        self.lv("[]")
    }
    fn level(&self, x: &X) -> u8 {
        match x {
            X::Tern(..) => 0,
            X::Bin(op, _, _) => self.lv(BIN_SYMS[*op]),
            X::NotIn(..) => self.lv("not in"),
            X::Test(_, _, _, neg) => self.lv(if *neg { "is not" } else { "is" }),
            X::Filter(..) => self.lv("|"),
            X::Not(_) => self.lv("not"),
            X::Neg(_) => self.lv("- (unary)"),
            _ => self.atom_level(),
        }
    }
    fn kwargs(&mut self, kw: &[(String, X)], out: &mut Vec<String>) {
        out.push("(".into());
        for (i, (n, v)) in kw.iter().enumerate() {
            if i > 0 {
                out.push(",".into());
            }
            out.push(n.clone());
            out.push("=".into());
            self.emit(v, 0, out);
        }
        if !kw.is_empty() && self.rng.chance(1, 6) {
            out.push(",".into());
        }
        out.push(")".into());
    }
    /// print `x` where a construct of level >= `need` is required
    fn emit(&mut self, x: &X, need: u8, out: &mut Vec<String>) {
        // the reference spelling writes the two-word operators as the documentation defines them:
        // `a not in b` = `not (a in b)`, `a is not t` = `not (a is t)`
        if self.mode == Mode::Full {
            match x {
                X::NotIn(a, b) => return self.emit(&X::Not(bx(X::Bin(16, a.clone(), b.clone()))), need, out),
                X::Test(b, n, kw, true) => return self.emit(&X::Not(bx(X::Test(b.clone(), n.clone(), kw.clone(), false))), need, out),
                _ => {}
            }
        }
        let mut inner = Vec::new();
        self.emit_bare(x, &mut inner);
        let lvl = self.level(x);
        let wrap = match self.mode {
            Mode::Full => lvl < self.atom_level(),
            Mode::Minimal(p) => lvl < need || self.rng.chance(p, 100),
        };
        if wrap {
            out.push("(".into());
            out.extend(inner);
            out.push(")".into());
        } else {
            out.extend(inner);
        }
    }
    /// operand of a unary operator: additionally parenthesised when it would start with `-`/`not`
    /// (the engine rejects two consecutive unary operators)
    fn emit_unary_operand(&mut self, x: &X, need: u8, out: &mut Vec<String>) {
        let mut inner = Vec::new();
        self.emit(x, need, &mut inner);
        if inner[0] == "-" || inner[0] == "not" {
            out.push("(".into());
            out.extend(inner);
            out.push(")".into());
        } else {
            out.extend(inner);
        }
    }
    fn emit_chain(&mut self, x: &X, out: &mut Vec<String>) {
        // no parentheses anywhere along an identifier chain
        self.emit_bare(x, out)
    }
    fn emit_subscript(&mut self, x: &X, out: &mut Vec<String>) {
        match x {
            X::Index(_, i, opt) => {
                out.push(if *opt { "?[".into() } else { "[".into() });
                self.emit(i, 0, out);
                out.push("]".into());
            }
            X::Slice(_, a, b, c, opt) => {
                out.push(if *opt { "?[".into() } else { "[".into() });
                if let Some(a) = a {
                    self.emit(a, 0, out);
                }
                out.push(":".into());
                if let Some(b) = b {
                    self.emit(b, 0, out);
                }
                if let Some(c) = c {
                    out.push(":".into());
                    self.emit(c, 0, out);
                }
                out.push("]".into());
            }
            _ => unreachable!(),
        }
    }
    fn emit_bare(&mut self, x: &X, out: &mut Vec<String>) {
        match x {
            X::Int(i) => out.push(i.to_string()),
            X::Float(f) => out.push(f.to_string()),
            X::Str(s) => {
                let q = if s.contains('\'') { '"' } else if s.contains('"') { '\'' } else { *self.rng.pick(&['\'', '"', '`']) };
                out.push(format!("{q}{s}{q}"));
            }
            X::Bool(b) => out.push(if *b { (*self.rng.pick(&["true", "True"])).into() } else { (*self.rng.pick(&["false", "False"])).into() }),
            X::NoneLit(s) => out.push(s.to_string()),
            X::Var(v) => out.push(v.clone()),
            X::Attr(b, n, opt) => {
                self.emit_chain(b, out);
                out.push(if *opt { "?.".into() } else { ".".into() });
                out.push(n.clone());
            }
            X::Index(b, _, opt) | X::Slice(b, _, _, _, opt) => {
                if b.is_chain() && (*opt || self.mode == Mode::Full || !self.rng.chance(1, 8)) {
                    self.emit_chain(b, out);
                } else {
                    let need = self.atom_level();
                    self.emit(b, need, out);
                }
                self.emit_subscript(x, out);
            }
            X::Call(n, kw) => {
                out.push(n.clone());
                self.kwargs(kw, out);
            }
            X::Filter(b, n, kw) => {
                let k = self.lv("|");
                self.emit(b, k, out);
                out.push("|".into());
                out.push(n.clone());
                if let Some(kw) = kw {
                    self.kwargs(kw, out);
                }
            }
            X::Test(b, n, kw, neg) => {
                let k = self.lv("is");
                self.emit(b, k, out);
                out.push("is".into());
                if *neg {
                    out.push("not".into());
                }
                out.push(n.clone());
                if let Some(kw) = kw {
                    self.kwargs(kw, out);
                }
            }
            X::Not(a) => {
                out.push("not".into());
                let k = self.lv("not") + 1;
                self.emit_unary_operand(a, k, out);
            }
            X::Neg(a) => {
                out.push("-".into());
                let k = self.lv("- (unary)") + 1;
                self.emit_unary_operand(a, k, out);
            }
            X::Bin(op, a, b) => {
                let k = self.lv(BIN_SYMS[*op]);
                let (la, lb) = if *op == POW { (k + 1, k) } else { (k, k + 1) };
                self.emit(a, la, out);
                out.push(BIN_SYMS[*op].into());
                self.emit(b, lb, out);
            }
            X::NotIn(a, b) => {
                let k = self.lv("not in");
                self.emit(a, k, out);
                out.push("not".into());
                out.push("in".into());
                self.emit(b, k + 1, out);
            }
            X::Tern(c, t, f) => {
                self.emit(t, 1, out);
                out.push("if".into());
                self.emit(c, 1, out);
                out.push("else".into());
                self.emit(f, 0, out);
            }
            X::Array(xs) => {
                out.push("[".into());
                for (i, (spread, x)) in xs.iter().enumerate() {
                    if i > 0 {
                        out.push(",".into());
                    }
                    if *spread {
                        out.push("...".into());
                    }
                    self.emit(x, 0, out);
                }
                if !xs.is_empty() && self.rng.chance(1, 6) {
                    out.push(",".into());
                }
                out.push("]".into());
            }
            X::Map(xs) => {
                out.push("{".into());
                for (i, (k, x)) in xs.iter().enumerate() {
                    if i > 0 {
                        out.push(",".into());
                    }
                    match k {
                        None => out.push("...".into()),
                        Some(k) => {
                            out.push(k.clone());
                            out.push(":".into());
                        }
                    }
                    self.emit(x, 0, out);
                }
                if !xs.is_empty() && self.rng.chance(1, 6) {
                    out.push(",".into());
                }
                out.push("}".into());
            }
            X::Comp(e, k, v, t, c) => {
                out.push("[".into());
                self.emit(e, 0, out);
                out.push("for".into());
                if let Some(k) = k {
                    out.push(k.clone());
                    out.push(",".into());
                }
                out.push(v.clone());
                out.push("in".into());
                self.emit(t, 1, out);
                if let Some(c) = c {
                    out.push("if".into());
                    self.emit(c, 1, out);
                }
                out.push("]".into());
            }
        }
    }
}

/// Join tokens; a separator may be dropped only between pairs that cannot fuse into another token
/// or an end delimiter (never `}` `}`, `*` `*`, `-` `}`, ident ident, number `.` …).
fn join(toks: &[String], rng: &mut Rng, tight: bool) -> String {
    let mut s = String::from("{{ ");
    for (i, t) in toks.iter().enumerate() {
        if i > 0 {
            let a = toks[i - 1].as_str();
            let b = t.as_str();
            let a_ok = matches!(a, "(" | "[" | "," | ":" | ")" | "]")
                || a.chars().last().map(|c| c.is_ascii_alphabetic() || c == '_' || c == '\'' || c == '"' || c == '`').unwrap_or(false);
            let b_ok = matches!(b, "(" | ")" | "[" | "]" | "," | ":");
            if tight && a_ok && b_ok && rng.chance(1, 2) {
                // no separator
            } else {
                s.push_str(*rng.pick(&[" ", " ", " ", "  ", "\t", "\n", " \n "]));
            }
        }
        s.push_str(t);
    }
    s.push_str(" }}");
    s
}

fn plain_join(toks: &[String]) -> String {
    format!("{{{{ {} }}}}", toks.join(" "))
}

/// The ASCII whitespace spellings between two tokens inside `{{ }}` / `{% %}` (lexer.rs skips
/// `is_ascii_whitespace`: space, tab, LF, FF, CR).  `None` = no separator where that cannot fuse two
/// tokens (same rule as `join`), a single space elsewhere; `Some("")` = cycle through all of them.
const WS_VARIANTS: [(&str, Option<&str>); 10] = [
    ("tab", Some("\t")),
    ("lf", Some("\n")),
    ("crlf", Some("\r\n")),
    ("cr", Some("\r")),
    ("ff", Some("\x0c")),
    ("two spaces", Some("  ")),
    ("mixed run", Some(" \r\n\t \x0c")),
    ("crlf indent", Some("\r\n    ")),
    ("cycle", Some("")),
    ("none where legal", None),
];

/// tokens joined with one whitespace spelling (also after the opening and before the closing
/// delimiter), without the delimiters
fn ws_inner(toks: &[String], variant: Option<&str>) -> String {
    const CYCLE: [&str; 7] = [" ", "\t", "\n", "\r\n", "\r", "\x0c", " \r\n "];
    let mut k = 0usize;
    let mut sep = |tight_ok: bool| -> String {
        match variant {
            None => if tight_ok { String::new() } else { " ".into() },
            Some("") => {
                k += 1;
                CYCLE[k % CYCLE.len()].to_string()
            }
            Some(w) => w.to_string(),
        }
    };
    let mut s = String::new();
    s.push_str(&match variant { None => " ".to_string(), _ => sep(false) });
    for (i, t) in toks.iter().enumerate() {
        if i > 0 {
            let a = toks[i - 1].as_str();
            let b = t.as_str();
            let a_ok = matches!(a, "(" | "[" | "," | ":" | ")" | "]")
                || a.chars().last().map(|c| c.is_ascii_alphabetic() || c == '_' || c == '\'' || c == '"' || c == '`').unwrap_or(false);
            let b_ok = matches!(b, "(" | ")" | "[" | "]" | "," | ":");
            s.push_str(&sep(a_ok && b_ok));
        }
        s.push_str(t);
    }
    s.push_str(&match variant { None => " ".to_string(), _ => sep(false) });
    s
}

fn ws_join(toks: &[String], variant: Option<&str>) -> String {
    format!("{{{{{}}}}}", ws_inner(toks, variant))
}

// ------------------------------------------------------------------ generator

#[derive(Clone, Copy, PartialEq)]
enum Ty {
    Num,
    Bool,
    Str,
    Arr,
    Any,
}

const NUM_VARS: [&str; 6] = ["a", "b", "c", "x", "y", "order"];
const STR_VARS: [&str; 3] = ["s", "t", "notice"];
const BOOL_VARS: [&str; 3] = ["flag", "off", "android"];
const ARR_VARS: [&str; 3] = ["xs", "ys", "inbox"];
const UNDEF_VARS: [&str; 3] = ["u", "iffy", "nota"];

fn context() -> Context {
    let mut c = Context::new();
    c.insert("a", &7);
    c.insert("b", &3);
    c.insert("c", &2);
    c.insert("x", &5);
    c.insert("y", &-4);
    c.insert("order", &10);
    c.insert("s", "hello");
    c.insert("t", "World é");
    c.insert("notice", "<b>");
    c.insert("flag", &true);
    c.insert("off", &false);
    c.insert("android", &true);
    c.insert("xs", &vec![1, 2, 3]);
    c.insert("ys", &vec!["a", "b"]);
    c.insert("inbox", &Vec::<i32>::new());
    c.insert("m", &serde_json::json!({"k": 1, "j": {"z": 2}, "name": "map"}));
    c.insert("user", &serde_json::json!({"name": "Bob", "age": 30, "tags": ["x", "y"]}));
    c.insert("nothing", &Option::<i32>::None);
    c
}

fn pick_s(rng: &mut Rng, xs: &[&str]) -> String {
    (*rng.pick(xs)).to_string()
}

fn gen_x(ty: Ty, d: usize, rng: &mut Rng) -> X {
    let leaf = d == 0 || rng.chance(1, 6);
    match ty {
        Ty::Num => {
            if leaf {
                return match rng.below(6) {
                    0 | 1 => X::Int(rng.below(10) as u64),
                    2 => X::Float(*rng.pick(&["1.5", "0.25", "2.", "10.0"])),
                    3 => X::Attr(bx(X::Var("user".into())), "age".into(), rng.chance(1, 5)),
                    _ => X::Var(pick_s(rng, &NUM_VARS)),
                };
            }
            match rng.below(12) {
                0..=5 => {
                    let op = *rng.pick(&[0usize, 1, 2, 3, 4, 5, 6, 3, 4, 0]);
                    let r = if op == POW { X::Int(rng.below(4) as u64) } else { gen_x(Ty::Num, d - 1, rng) };
                    X::Bin(op, bx(gen_x(Ty::Num, d - 1, rng)), bx(r))
                }
                6 => X::Neg(bx(gen_x(Ty::Num, d - 1, rng))),
                7 => X::Filter(bx(gen_x(Ty::Num, d - 1, rng)), "abs".into(), if rng.chance(1, 3) { Some(vec![]) } else { None }),
                8 => X::Filter(bx(gen_x(Ty::Arr, d - 1, rng)), "length".into(), None),
                9 => X::Tern(bx(gen_x(Ty::Bool, d - 1, rng)), bx(gen_x(Ty::Num, d - 1, rng)), bx(gen_x(Ty::Num, d - 1, rng))),
                10 => X::Index(bx(gen_x(Ty::Arr, d - 1, rng)), bx(X::Int(rng.below(2) as u64)), false),
                _ => X::Filter(bx(gen_x(Ty::Num, d - 1, rng)), "round".into(), Some(vec![("precision".into(), X::Int(1))])),
            }
        }
        Ty::Bool => {
            if leaf {
                return match rng.below(4) {
                    0 => X::Bool(rng.chance(1, 2)),
                    _ => X::Var(pick_s(rng, &BOOL_VARS)),
                };
            }
            match rng.below(12) {
                0..=2 => X::Bin(*rng.pick(&[7usize, 8, 9, 10, 11, 12]), bx(gen_x(Ty::Num, d - 1, rng)), bx(gen_x(Ty::Num, d - 1, rng))),
                3 => X::Bin(13, bx(gen_x(Ty::Bool, d - 1, rng)), bx(gen_x(Ty::Bool, d - 1, rng))),
                4 => X::Bin(14, bx(gen_x(Ty::Bool, d - 1, rng)), bx(gen_x(Ty::Bool, d - 1, rng))),
                5 => X::Not(bx(gen_x(Ty::Any, d - 1, rng))),
                6 => X::Bin(16, bx(gen_x(Ty::Num, d - 1, rng)), bx(gen_x(Ty::Arr, d - 1, rng))),
                7 => X::NotIn(bx(gen_x(Ty::Str, d - 1, rng)), bx(gen_x(Ty::Str, d - 1, rng))),
                8 => {
                    let neg = rng.chance(1, 2);
                    match rng.below(4) {
                        0 => X::Test(bx(gen_x(Ty::Num, d - 1, rng)), pick_s(rng, &["odd", "even", "number", "integer"]), None, neg),
                        1 => X::Test(bx(X::Var(pick_s(rng, &UNDEF_VARS))), pick_s(rng, &["defined", "undefined"]), if rng.chance(1, 3) { Some(vec![]) } else { None }, neg),
                        2 => X::Test(bx(gen_x(Ty::Str, d - 1, rng)), "starting_with".into(), Some(vec![("pat".into(), gen_x(Ty::Str, d - 1, rng))]), neg),
                        _ => X::Test(bx(gen_x(Ty::Num, d - 1, rng)), "divisible_by".into(), Some(vec![("divisor".into(), X::Int(1 + rng.below(3) as u64))]), neg),
                    }
                }
                9 => X::Tern(bx(gen_x(Ty::Bool, d - 1, rng)), bx(gen_x(Ty::Bool, d - 1, rng)), bx(gen_x(Ty::Bool, d - 1, rng))),
                10 => X::Bin(*rng.pick(&[11usize, 12]), bx(gen_x(Ty::Str, d - 1, rng)), bx(gen_x(Ty::Str, d - 1, rng))),
                _ => X::Bin(16, bx(gen_x(Ty::Str, d - 1, rng)), bx(gen_x(Ty::Str, d - 1, rng))),
            }
        }
        Ty::Str => {
            if leaf {
                return match rng.below(5) {
                    0 | 1 => X::Str(pick_s(rng, &["hi", "", "a b", "é✓", "it's", "x\"y", "<&>"])),
                    2 => X::Attr(bx(X::Var("user".into())), "name".into(), rng.chance(1, 5)),
                    _ => X::Var(pick_s(rng, &STR_VARS)),
                };
            }
            match rng.below(9) {
                0..=2 => {
                    let mut r = gen_x(Ty::Any, d - 1, rng);
                    if r.is_unary_node() {
                        r = X::Filter(bx(r), "string".into(), None);
                    }
                    X::Bin(CONCAT, bx(gen_x(Ty::Any, d - 1, rng)), bx(r))
                }
                3 => X::Filter(bx(gen_x(Ty::Str, d - 1, rng)), pick_s(rng, &["upper", "lower", "trim", "capitalize"]), None),
                4 => X::Tern(bx(gen_x(Ty::Bool, d - 1, rng)), bx(gen_x(Ty::Str, d - 1, rng)), bx(gen_x(Ty::Str, d - 1, rng))),
                5 => X::Index(bx(X::Var("ys".into())), bx(X::Int(rng.below(2) as u64)), rng.chance(1, 4)),
                6 => X::Slice(
                    bx(gen_x(Ty::Str, d - 1, rng)),
                    if rng.chance(1, 2) { Some(bx(X::Int(rng.below(3) as u64))) } else { None },
                    if rng.chance(1, 2) { Some(bx(gen_x(Ty::Num, 0, rng))) } else { None },
                    if rng.chance(1, 3) { Some(bx(X::Neg(bx(X::Int(1))))) } else { None },
                    false,
                ),
                7 => X::Filter(bx(gen_x(Ty::Str, d - 1, rng)), "replace".into(), Some(vec![("from".into(), X::Str("l".into())), ("to".into(), gen_x(Ty::Str, d - 1, rng))])),
                _ => X::Filter(bx(gen_x(Ty::Any, d - 1, rng)), "default".into(), Some(vec![("value".into(), gen_x(Ty::Str, d - 1, rng))])),
            }
        }
        Ty::Arr => {
            if leaf {
                return match rng.below(4) {
                    0 => X::Array((0..rng.below(4)).map(|_| (false, X::Int(rng.below(10) as u64))).collect()),
                    1 => X::Attr(bx(X::Var("user".into())), "tags".into(), false),
                    _ => X::Var(pick_s(rng, &ARR_VARS)),
                };
            }
            match rng.below(8) {
                0 | 1 => X::Array(
                    (0..rng.below(4))
                        .map(|_| if rng.chance(1, 4) { (true, gen_x(Ty::Arr, d - 1, rng)) } else { (false, gen_x(Ty::Any, d - 1, rng)) })
                        .collect(),
                ),
                2 => X::Comp(
                    bx(gen_x(Ty::Num, d - 1, rng)),
                    None,
                    pick_s(rng, &["x", "item", "a"]),
                    bx(gen_x(Ty::Arr, d - 1, rng)),
                    if rng.chance(1, 2) { Some(bx(gen_x(Ty::Bool, d - 1, rng))) } else { None },
                ),
                3 => X::Comp(bx(X::Var("v".into())), Some("k".into()), "v".into(), bx(X::Var("m".into())), None),
                4 => X::Call("range".into(), vec![("end".into(), gen_x(Ty::Num, d - 1, rng))]),
                5 => X::Slice(bx(gen_x(Ty::Arr, d - 1, rng)), None, None, Some(bx(X::Neg(bx(X::Int(1))))), false),
                6 => X::Filter(bx(gen_x(Ty::Arr, d - 1, rng)), pick_s(rng, &["reverse", "sort", "unique"]), None),
                _ => X::Tern(bx(gen_x(Ty::Bool, d - 1, rng)), bx(gen_x(Ty::Arr, d - 1, rng)), bx(gen_x(Ty::Arr, d - 1, rng))),
            }
        }
        Ty::Any => {
            if leaf && rng.chance(1, 6) {
                return match rng.below(4) {
                    0 => X::NoneLit(*rng.pick(&["none", "None", "null"])),
                    1 => X::Var(pick_s(rng, &UNDEF_VARS)),
                    2 => X::Attr(bx(X::Attr(bx(X::Var("m".into())), "j".into(), rng.chance(1, 3))), "z".into(), rng.chance(1, 3)),
                    _ => X::Index(bx(X::Var("m".into())), bx(X::Str("k".into())), rng.chance(1, 3)),
                };
            }
            if !leaf && rng.chance(1, 6) {
                return match rng.below(4) {
                    0 => X::Bin(13, bx(gen_x(Ty::Any, d - 1, rng)), bx(gen_x(Ty::Any, d - 1, rng))),
                    1 => X::Bin(14, bx(gen_x(Ty::Any, d - 1, rng)), bx(gen_x(Ty::Any, d - 1, rng))),
                    2 => X::Map(
                        (0..rng.below(3))
                            .map(|i| match rng.below(4) {
                                0 => (None, X::Var("m".into())),
                                1 => (Some(format!("{i}")), gen_x(Ty::Any, d - 1, rng)),
                                2 => (Some("true".into()), gen_x(Ty::Any, d - 1, rng)),
                                _ => (Some(format!("\"k{i}\"")), gen_x(Ty::Any, d - 1, rng)),
                            })
                            .collect(),
                    ),
                    _ => X::Index(bx(X::Map(vec![(Some("'k'".into()), gen_x(Ty::Any, d - 1, rng))])), bx(X::Str("k".into())), false),
                };
            }
            let t = *rng.pick(&[Ty::Num, Ty::Num, Ty::Bool, Ty::Bool, Ty::Str, Ty::Arr]);
            gen_x(t, d, rng)
        }
    }
}

// ------------------------------------------------------------------ infix forms / reference grouping

#[derive(Clone, Copy, PartialEq, Debug)]
enum Form {
    Bin(usize),
    NotIn,
    Is(bool),
    Pipe,
}

fn all_forms() -> Vec<Form> {
    let mut v: Vec<Form> = (0..17).map(Form::Bin).collect();
    v.extend([Form::NotIn, Form::Is(false), Form::Is(true), Form::Pipe]);
    v
}

impl Form {
    fn spelling(&self) -> &'static str {
        match self {
            Form::Bin(i) => BIN_SYMS[*i],
            Form::NotIn => "not in",
            Form::Is(false) => "is",
            Form::Is(true) => "is not",
            Form::Pipe => "|",
        }
    }
    fn has_rhs(&self) -> bool {
        matches!(self, Form::Bin(_) | Form::NotIn)
    }
    /// source tokens of the operator (with its test / filter name when it takes no operand)
    fn toks(&self) -> Vec<String> {
        match self {
            Form::Bin(i) => vec![BIN_SYMS[*i].into()],
            Form::NotIn => vec!["not".into(), "in".into()],
            Form::Is(false) => vec!["is".into(), "defined".into()],
            Form::Is(true) => vec!["is".into(), "not".into(), "defined".into()],
            Form::Pipe => vec!["|".into(), "string".into()],
        }
    }
    fn apply(&self, l: X, r: Option<X>) -> X {
        match self {
            Form::Bin(i) => X::Bin(*i, bx(l), bx(r.unwrap())),
            Form::NotIn => X::NotIn(bx(l), bx(r.unwrap())),
            Form::Is(neg) => X::Test(bx(l), "defined".into(), None, *neg),
            Form::Pipe => X::Filter(bx(l), "string".into(), None),
        }
    }
    fn right_assoc(&self) -> bool {
        *self == Form::Bin(POW)
    }
}

/// Textbook precedence climbing over the DOCUMENTED levels: operands and forms alternate
/// (`is t` / `| f` take no right operand). Returns the tree the documentation prescribes.
fn doc_group(doc: &DocTable, operands: &[X], forms: &[Form]) -> X {
    fn climb(doc: &DocTable, operands: &[X], forms: &[Form], oi: &mut usize, fi: &mut usize, min: u8) -> X {
        let mut lhs = operands[*oi].clone();
        *oi += 1;
        while *fi < forms.len() {
            let f = forms[*fi];
            let lvl = doc.level[f.spelling()];
            if lvl < min {
                break;
            }
            *fi += 1;
            if f.has_rhs() {
                let next = if f.right_assoc() { lvl } else { lvl + 1 };
                let rhs = climb(doc, operands, forms, oi, fi, next);
                lhs = f.apply(lhs, Some(rhs));
            } else {
                lhs = f.apply(lhs, None);
            }
        }
        lhs
    }
    let (mut oi, mut fi) = (0, 0);
    climb(doc, operands, forms, &mut oi, &mut fi, 0)
}

/// `~` followed (at AST level) by a unary node is rejected by the engine whatever the parentheses
fn has_concat_unary(x: &X) -> bool {
    let mut bad = false;
    x.walk(&mut |n| {
        if let X::Bin(CONCAT, _, r) = n {
            if r.is_unary_node() {
                bad = true;
            }
        }
    });
    bad
}

// ------------------------------------------------------------------ the Lean reference printer

const BIN_RUST: [&str; 17] = ["Mul", "Div", "Mod", "Plus", "Minus", "FloorDiv", "Power", "LessThan", "GreaterThan", "LessThanOrEqual", "GreaterThanOrEqual", "Equal", "NotEqual", "And", "Or", "StrConcat", "In"];

fn hexs(s: &str) -> String {
    s.bytes().map(|b| format!("{b:02x}")).collect()
}

/// wire form of the surface tree `S` of lean/TeraModel/Spec/Precedence.lean (read by `parseS` in
/// Driver/C02.lean); `None` when the tree has no counterpart in `S`
fn s_wire(x: &X, rng: &mut Rng, out: &mut Vec<String>) -> Option<()> {
    // redundant parentheses now and then (never inside an identifier chain: handled by callers)
    if !x.is_chain() && rng.chance(1, 12) {
        out.push("paren".into());
    }
    fn args(kw: &[(String, X)], rng: &mut Rng, out: &mut Vec<String>) -> Option<()> {
        for (n, v) in kw {
            out.push(format!("arg:{}", hexs(n)));
            s_wire(v, rng, out)?;
        }
        out.push(if !kw.is_empty() && rng.chance(1, 5) { "argend".into() } else { "argnil".into() });
        Some(())
    }
    fn opt(p: &Option<Box<X>>, rng: &mut Rng, out: &mut Vec<String>) -> Option<()> {
        match p {
            None => {
                out.push("absent".into());
                Some(())
            }
            Some(p) => s_wire(p, rng, out),
        }
    }
    match x {
        X::Int(i) => out.push(format!("int:{i}")),
        X::Float(f) => out.push(format!("flt:{:016x}", f.parse::<f64>().ok()?.to_bits())),
        X::Str(t) => out.push(format!("str:{}", hexs(t))),
        X::Bool(b) => out.push(if *b { "b1".into() } else { "b0".into() }),
        X::NoneLit(k) => out.push(format!("none:{}", hexs(k))),
        X::Var(v) => out.push(format!("var:{}", hexs(v))),
        X::Attr(b, n, o) => {
            out.push(format!("attr{}:{}", if *o { 1 } else { 0 }, hexs(n)));
            s_wire(b, rng, out)?;
        }
        X::Index(b, i, o) => {
            if b.is_chain() {
                out.push(format!("sub{}", if *o { 1 } else { 0 }));
            } else if *o {
                return None;
            } else {
                out.push("idx".into());
            }
            s_wire(b, rng, out)?;
            s_wire(i, rng, out)?;
        }
        X::Slice(b, a, c, d, o) => {
            if b.is_chain() {
                out.push(format!("sslice{}", if *o { 1 } else { 0 }));
            } else if *o {
                return None;
            } else {
                out.push("slice".into());
            }
            s_wire(b, rng, out)?;
            opt(a, rng, out)?;
            opt(c, rng, out)?;
            opt(d, rng, out)?;
        }
        X::Call(n, kw) => {
            out.push(format!("call:{}", hexs(n)));
            args(kw, rng, out)?;
        }
        X::Filter(b, n, kw) => match kw {
            None => {
                out.push(format!("fil:{}", hexs(n)));
                s_wire(b, rng, out)?;
            }
            Some(kw) => {
                out.push(format!("filA:{}", hexs(n)));
                s_wire(b, rng, out)?;
                args(kw, rng, out)?;
            }
        },
        X::Test(b, n, kw, neg) => match kw {
            None => {
                out.push(format!("tst{}:{}", if *neg { 1 } else { 0 }, hexs(n)));
                s_wire(b, rng, out)?;
            }
            Some(kw) => {
                out.push(format!("tstA{}:{}", if *neg { 1 } else { 0 }, hexs(n)));
                s_wire(b, rng, out)?;
                args(kw, rng, out)?;
            }
        },
        X::Not(a) => {
            out.push("un:Not".into());
            s_wire(a, rng, out)?;
        }
        X::Neg(a) => {
            out.push("un:Minus".into());
            s_wire(a, rng, out)?;
        }
        X::Bin(op, a, b) => {
            out.push(format!("bin:{}", BIN_RUST[*op]));
            s_wire(a, rng, out)?;
            s_wire(b, rng, out)?;
        }
        X::NotIn(a, b) => {
            out.push("notin".into());
            s_wire(a, rng, out)?;
            s_wire(b, rng, out)?;
        }
        X::Tern(c, t, f) => {
            out.push("tern".into());
            s_wire(c, rng, out)?;
            s_wire(t, rng, out)?;
            s_wire(f, rng, out)?;
        }
        X::Array(xs) => {
            out.push("arr".into());
            for (sp, e) in xs {
                out.push(if *sp { "item1".into() } else { "item0".into() });
                s_wire(e, rng, out)?;
            }
            out.push(if !xs.is_empty() && rng.chance(1, 5) { "iend".into() } else { "inil".into() });
        }
        X::Map(es) => {
            out.push("map".into());
            for (k, v) in es {
                match k {
                    None => out.push("esp".into()),
                    Some(k) => {
                        out.push("ekv".into());
                        if k == "true" {
                            out.push("kb1".into());
                        } else if k == "false" {
                            out.push("kb0".into());
                        } else if let Ok(i) = k.parse::<i64>() {
                            out.push(format!("ki:{i}"));
                        } else if k.len() >= 2 && (k.starts_with('"') || k.starts_with('\'')) {
                            out.push(format!("ks:{}", hexs(&k[1..k.len() - 1])));
                        } else {
                            return None;
                        }
                    }
                }
                s_wire(v, rng, out)?;
            }
            out.push(if !es.is_empty() && rng.chance(1, 5) { "eend".into() } else { "enil".into() });
        }
        X::Comp(e, k, v, t, c) => {
            out.push(if k.is_some() { "comp1".into() } else { "comp0".into() });
            s_wire(e, rng, out)?;
            if let Some(k) = k {
                out.push(format!("n:{}", hexs(k)));
            }
            out.push(format!("n:{}", hexs(v)));
            s_wire(t, rng, out)?;
            opt(c, rng, out)?;
        }
    }
    Some(())
}

/// source text of one token in the wire form of Model/Tok.lean
fn tok_text(w: &str) -> Option<String> {
    let unhex = |h: &str| -> Option<String> {
        let bytes: Option<Vec<u8>> = (0..h.len() / 2).map(|i| u8::from_str_radix(h.get(2 * i..2 * i + 2)?, 16).ok()).collect();
        String::from_utf8(bytes?).ok()
    };
    Some(match w {
        "PLUS" => "+".into(),
        "MINUS" => "-".into(),
        "MUL" => "*".into(),
        "DIV" => "/".into(),
        "FLOORDIV" => "//".into(),
        "POWER" => "**".into(),
        "MOD" => "%".into(),
        "DOT" => ".".into(),
        "QUESTION_MARK_DOT" => "?.".into(),
        "QUESTION_MARK_LEFT_BRACKET" => "?[".into(),
        "COMMA" => ",".into(),
        "COLON" => ":".into(),
        "TILDE" => "~".into(),
        "ASSIGN" => "=".into(),
        "PIPE" => "|".into(),
        "EQ" => "==".into(),
        "NE" => "!=".into(),
        "GT" => ">".into(),
        "GTE" => ">=".into(),
        "LT" => "<".into(),
        "LTE" => "<=".into(),
        "LEFT_BRACKET" => "[".into(),
        "RIGHT_BRACKET" => "]".into(),
        "LEFT_PAREN" => "(".into(),
        "RIGHT_PAREN" => ")".into(),
        "LEFT_BRACE" => "{".into(),
        "RIGHT_BRACE" => "}".into(),
        "SPREAD" => "...".into(),
        "bool0" => "false".into(),
        "bool1" => "true".into(),
        _ => {
            if let Some(h) = w.strip_prefix("id:") {
                unhex(h)?
            } else if let Some(h) = w.strip_prefix("str:") {
                let t = unhex(h)?;
                let q = if !t.contains('\'') { '\'' } else if !t.contains('"') { '"' } else { '`' };
                format!("{q}{t}{q}")
            } else if let Some(d) = w.strip_prefix("int:") {
                d.to_string()
            } else if let Some(h) = w.strip_prefix("float:") {
                format!("{:?}", f64::from_bits(u64::from_str_radix(h, 16).ok()?))
            } else {
                return None;
            }
        }
    })
}

// ------------------------------------------------------------------ engine / model access

fn engine_ast(src: &str) -> String {
    match catch(std::panic::AssertUnwindSafe(|| tera::verif_hooks::ast_wire(src, Delimiters::default()))) {
        Err(p) => format!("panic {p}"),
        Ok(Ok(w)) => format!("ok {w}"),
        Ok(Err(_)) => "err".into(),
    }
}

const FOR_OPEN: &str = "{% for q in xs %}";
const FOR_CLOSE: &str = "{% endfor %}";

fn model_request(src: &str) -> String {
    let toks = catch(std::panic::AssertUnwindSafe(|| tera::verif_hooks::tokens_wire(src, Delimiters::default())));
    let op = if src.starts_with(FOR_OPEN) { "parsefor" } else { "parse 0" };
    match toks {
        Ok(t) => format!("{op} {}", t.join(" ")),
        Err(_) => format!("{op} ERR"),
    }
}

fn engine_render(tera: &Tera, ctx: &Context, src: &str) -> String {
    match catch(std::panic::AssertUnwindSafe(|| tera.render_str(src, ctx, false))) {
        Err(p) => format!("panic {p}"),
        Ok(Ok(s)) => format!("ok {s}"),
        Ok(Err(_)) => "err".into(),
    }
}

/// One case: a source, where it came from, and optionally the reference spelling it must agree with.
struct Case {
    stream: &'static str,
    src: String,
    /// fully parenthesised spelling of the tree the documentation prescribes for `src`
    reference: Option<String>,
    /// the other grouping (pairs only): used to measure whether the operands distinguish
    other: Option<String>,
    label: String,
}

fn shrink_src(src: &str, still_fails: &dyn Fn(&str) -> bool) -> String {
    // token-level delta debugging on the whitespace-separated spelling
    let in_for = src.starts_with(FOR_OPEN);
    let core = if in_for { src.trim_start_matches(FOR_OPEN).trim_end_matches(FOR_CLOSE) } else { src };
    let body = core.trim().trim_start_matches("{{").trim_end_matches("}}").trim().to_string();
    let mut toks: Vec<String> = body.split_whitespace().map(|s| s.to_string()).collect();
    let mk = |t: &[String]| if in_for { format!("{FOR_OPEN}{{{{ {} }}}}{FOR_CLOSE}", t.join(" ")) } else { format!("{{{{ {} }}}}", t.join(" ")) };
    if !still_fails(&mk(&toks)) {
        return src.to_string();
    }
    let mut chunk = toks.len() / 2;
    while chunk >= 1 {
        let mut i = 0;
        let mut progressed = false;
        while i + chunk <= toks.len() {
            let mut cand = toks.clone();
            cand.drain(i..i + chunk);
            if !cand.is_empty() && still_fails(&mk(&cand)) {
                toks = cand;
                progressed = true;
            } else {
                i += 1;
            }
        }
        if !progressed {
            chunk /= 2;
        }
    }
    mk(&toks)
}

fn main() {
    quiet_panics();
    let env = Env::from_env();
    let mut report = Report::new("C02");
    let exe = driver::driver_path(&env.verif_dir, "drv_c02");
    let tera = Tera::default();
    let ctx = context();
    let doc = match read_doc_table() {
        Ok(d) => d,
        Err(e) => {
            report.violation("model-mismatch", format!("documented precedence table not readable: {e}"), serde_json::json!({"stage": "doc-table", "error": e}));
            report.write(&out_path());
            return;
        }
    };

    if let Some(path) = replay_path() {
        let text = std::fs::read_to_string(&path).expect("replay file");
        let j: serde_json::Value = serde_json::from_str(&text).expect("replay json");
        // the check script stores the harness' replay object under "replay"
        let j = if j.get("src").is_some() { j } else { j["replay"].clone() };
        let src = j["src"].as_str().expect("replay file without `src`").to_string();
        println!("source:            {src}");
        println!("engine AST:        {}", engine_ast(&src));
        let m = driver::run_batch(&exe, &[model_request(&src)]).map(|v| v[0].clone()).unwrap_or_else(|e| e);
        println!("model AST:         {m}");
        println!("engine render:     {}", engine_render(&tera, &ctx, &src));
        if let Some(r) = j["reference"].as_str() {
            println!("documented spelling (fully parenthesised): {r}");
            println!("engine AST of it:  {}", engine_ast(r));
            println!("engine render:     {}", engine_render(&tera, &ctx, r));
        }
        return;
    }

    let mut rng = Rng::new(env.seed);
    let mut cases: Vec<Case> = Vec::new();
    let forms = all_forms();

    // ---- exhaustive operator pairs (and triples in thorough), no parentheses in the source
    let operand_sets: Vec<[X; 4]> = vec![
        [X::Int(7), X::Int(3), X::Int(2), X::Int(5)],
        [X::Var("a".into()), X::Var("xs".into()), X::Var("flag".into()), X::Var("s".into())],
        [X::Var("u".into()), X::Str("lo".into()), X::Array(vec![(false, X::Int(3)), (false, X::Str("lo".into()))]), X::Bool(false)],
        // container on the right, booleans inside: `not 1 not in [true]` etc. evaluate on both groupings
        [X::Int(1), X::Array(vec![(false, X::Bool(true)), (false, X::Int(0))]), X::Array(vec![(false, X::Bool(false))]), X::Bool(true)],
    ];
    let mut full = Printer { doc: &doc, mode: Mode::Full, rng: rng.fork() };
    let mut minimal = Printer { doc: &doc, mode: Mode::Minimal(0), rng: rng.fork() };
    let raw_of = |operands: &[X], fs: &[Form], p: &mut Printer| -> String {
        let mut toks = Vec::new();
        let mut oi = 0;
        p.emit_bare(&operands[oi], &mut toks);
        oi += 1;
        for f in fs {
            toks.extend(f.toks());
            if f.has_rhs() {
                p.emit_bare(&operands[oi], &mut toks);
                oi += 1;
            }
        }
        plain_join(&toks)
    };
    let full_of = |x: &X, p: &mut Printer| -> String {
        let mut toks = Vec::new();
        p.emit(x, 0, &mut toks);
        plain_join(&toks)
    };
    for set in &operand_sets {
        for f1 in &forms {
            for f2 in &forms {
                let fs = [*f1, *f2];
                let raw = raw_of(set, &fs, &mut minimal);
                let prescribed = doc_group(&doc, set, &fs);
                // both nestings as trees
                let n1 = {
                    let l = f1.apply(set[0].clone(), if f1.has_rhs() { Some(set[1].clone()) } else { None });
                    let k = if f1.has_rhs() { 2 } else { 1 };
                    f2.apply(l, if f2.has_rhs() { Some(set[k].clone()) } else { None })
                };
                let n2 = if f1.has_rhs() {
                    let r = f2.apply(set[1].clone(), if f2.has_rhs() { Some(set[2].clone()) } else { None });
                    Some(f1.apply(set[0].clone(), Some(r)))
                } else {
                    None
                };
                let other = if prescribed == n1 { n2.clone() } else { Some(n1.clone()) };
                cases.push(Case {
                    stream: "pair-raw",
                    src: raw,
                    reference: Some(full_of(&prescribed, &mut full)),
                    other: other.filter(|o| !has_concat_unary(o)).map(|o| full_of(&o, &mut full)),
                    label: format!("{} {}", f1.spelling(), f2.spelling()),
                });
                // both nestings through the documented-parenthesisation printer
                for n in [Some(n1), n2].into_iter().flatten() {
                    if has_concat_unary(&n) {
                        report.count("skipped.concat-unary-nesting");
                        continue;
                    }
                    cases.push(Case {
                        stream: "pair-nesting",
                        src: full_of(&n, &mut minimal),
                        reference: Some(full_of(&n, &mut full)),
                        other: None,
                        label: format!("{} {}", f1.spelling(), f2.spelling()),
                    });
                }
            }
        }
        // unary operator followed by an infix form, infix form followed by unary minus, ternary mixes
        for f in &forms {
            let rhs = if f.has_rhs() { Some(set[1].clone()) } else { None };
            let k = if f.has_rhs() { 2 } else { 1 };
            for (u, uname) in [("not", "not"), ("-", "- (unary)")] {
                let mut toks = vec![u.to_string()];
                minimal.emit_bare(&set[0], &mut toks);
                toks.extend(f.toks());
                if let Some(r) = &rhs {
                    minimal.emit_bare(r, &mut toks);
                }
                let wrap = |x: X| if u == "not" { X::Not(bx(x)) } else { X::Neg(bx(x)) };
                let prescribed = if doc.level[f.spelling()] > doc.level[uname] {
                    wrap(f.apply(set[0].clone(), rhs.clone()))
                } else {
                    f.apply(wrap(set[0].clone()), rhs.clone())
                };
                cases.push(Case { stream: "unary-infix", src: plain_join(&toks), reference: Some(full_of(&prescribed, &mut full)), other: None, label: format!("{u} {}", f.spelling()) });
            }
            if f.has_rhs() && *f != Form::Bin(CONCAT) {
                let mut toks = Vec::new();
                minimal.emit_bare(&set[0], &mut toks);
                toks.extend(f.toks());
                toks.push("-".into());
                minimal.emit_bare(&set[1], &mut toks);
                let prescribed = f.apply(set[0].clone(), Some(X::Neg(bx(set[1].clone()))));
                cases.push(Case { stream: "infix-unary", src: plain_join(&toks), reference: Some(full_of(&prescribed, &mut full)), other: None, label: format!("{} -", f.spelling()) });
            }
            // ternary lowest: `A f B if C else D`, `A if B f C else D`, `A if B else C f D`
            let app = |l: &X, r: &X| f.apply(l.clone(), if f.has_rhs() { Some(r.clone()) } else { None });
            let seqs: Vec<(Vec<Vec<String>>, X)> = {
                let e = |x: &X, p: &mut Printer| {
                    let mut t = Vec::new();
                    p.emit_bare(x, &mut t);
                    t
                };
                let (a, b, c, d) = (&set[0], &set[1], &set[2], &set[3]);
                let opnd = |l: &X, r: &X, p: &mut Printer| {
                    let mut t = e(l, p);
                    t.extend(f.toks());
                    if f.has_rhs() {
                        t.extend(e(r, p));
                    }
                    t
                };
                vec![
                    (vec![opnd(a, b, &mut minimal), vec!["if".into()], e(c, &mut minimal), vec!["else".into()], e(d, &mut minimal)], X::Tern(bx(c.clone()), bx(app(a, b)), bx(d.clone()))),
                    (vec![e(a, &mut minimal), vec!["if".into()], opnd(b, c, &mut minimal), vec!["else".into()], e(d, &mut minimal)], X::Tern(bx(app(b, c)), bx(a.clone()), bx(d.clone()))),
                    (vec![e(a, &mut minimal), vec!["if".into()], e(b, &mut minimal), vec!["else".into()], opnd(c, d, &mut minimal)], X::Tern(bx(b.clone()), bx(a.clone()), bx(app(c, d)))),
                ]
            };
            for (parts, prescribed) in seqs {
                let toks: Vec<String> = parts.into_iter().flatten().collect();
                cases.push(Case { stream: "ternary-infix", src: plain_join(&toks), reference: Some(full_of(&prescribed, &mut full)), other: None, label: format!("if {}", f.spelling()) });
            }
            let _ = k;
        }
        // nested ternaries are right nested
        {
            let (a, b, c, d) = (&set[0], &set[1], &set[2], &set[3]);
            let mut t = Vec::new();
            for (i, x) in [a, b, c, d, a].iter().enumerate() {
                minimal.emit_bare(x, &mut t);
                if i < 4 {
                    t.push(if i % 2 == 0 { "if".into() } else { "else".into() });
                }
            }
            let prescribed = X::Tern(bx(b.clone()), bx(a.clone()), bx(X::Tern(bx(d.clone()), bx(c.clone()), bx(a.clone()))));
            cases.push(Case { stream: "ternary-infix", src: plain_join(&t), reference: Some(full_of(&prescribed, &mut full)), other: None, label: "if if".into() });
        }
        if !env.quick() {
            for f1 in &forms {
                for f2 in &forms {
                    for f3 in &forms {
                        let fs = [*f1, *f2, *f3];
                        let raw = raw_of(set, &fs, &mut minimal);
                        let prescribed = doc_group(&doc, set, &fs);
                        cases.push(Case { stream: "triple-raw", src: raw, reference: Some(full_of(&prescribed, &mut full)), other: None, label: format!("{} {} {}", f1.spelling(), f2.spelling(), f3.spelling()) });
                    }
                }
            }
        }
    }
    let n_exhaustive = cases.len();

    // ---- random typed expressions, depth <= 6, printed minimal(+redundant) vs full
    let n_random = env.budget(6000, 1_500_000);
    let mut trees: Vec<X> = Vec::new();
    let mut tree_toks: Vec<Vec<String>> = Vec::new();
    for i in 0..n_random {
        let d = 1 + rng.below(6);
        let mut x = gen_x(Ty::Any, d, &mut rng);
        while !x.within_limits() {
            report.count("random.regenerated.over-array-or-bracket-limit");
            x = gen_x(Ty::Any, d, &mut rng);
        }
        let mut pr = Printer { doc: &doc, mode: Mode::Minimal(*rng.pick(&[0, 0, 10, 30])), rng: rng.fork() };
        let mut toks = Vec::new();
        pr.emit(&x, 0, &mut toks);
        let src = join(&toks, &mut rng, i % 3 == 0);
        cases.push(Case { stream: "random", src, reference: Some(full_of(&x, &mut full)), other: None, label: x.kind().into() });
        trees.push(x);
        tree_toks.push(toks);
    }

    // ---- whitespace: the parse must not depend on WHICH ASCII whitespace separates the tokens
    // inside a tag (space, tab, LF, CRLF, CR, FF, runs, none where legal).  Reference = the
    // single-space spelling of the same tokens (AST and render must be equal), and the documented
    // full parenthesisation for the CRLF spelling (an expression broken over lines in a CRLF file).
    let n_ws = env.budget(250, 20_000).min(trees.len());
    for (x, toks) in trees.iter().zip(tree_toks.iter()).take(n_ws) {
        for (name, v) in WS_VARIANTS {
            cases.push(Case { stream: "whitespace", src: ws_join(toks, v), reference: Some(plain_join(toks)), other: None, label: format!("separator: {name}") });
        }
        cases.push(Case { stream: "whitespace", src: ws_join(toks, Some("\r\n")), reference: Some(full_of(x, &mut full)), other: None, label: "crlf vs documented parenthesisation".into() });
        cases.push(Case { stream: "whitespace", src: ws_join(toks, Some("\r")), reference: Some(full_of(x, &mut full)), other: None, label: "cr vs documented parenthesisation".into() });
    }
    // every unparenthesised operator pair `A op1 B op2 C` again, broken over CRLF lines, against
    // the documented grouping
    let pair_ws: Vec<Case> = cases
        .iter()
        .filter(|c| c.stream == "pair-raw" && !c.src.contains(['\'', '"', '`']))
        .map(|c| {
            let inner = c.src.trim_start_matches("{{ ").trim_end_matches(" }}");
            let toks: Vec<String> = inner.split(' ').filter(|t| !t.is_empty()).map(|t| t.to_string()).collect();
            Case { stream: "whitespace", src: ws_join(&toks, Some("\r\n")), reference: c.reference.clone(), other: None, label: format!("crlf pair {}", c.label) }
        })
        .collect();
    cases.extend(pair_ws);
    for x in &trees {
        let mut kinds = HashSet::new();
        x.walk(&mut |n| {
            kinds.insert(n.kind());
            if let X::Bin(op, _, _) = n {
                kinds.insert(BIN_SYMS[*op]);
            }
        });
        for k in kinds {
            report.count(&format!("random.construct.{k}"));
        }
        report.count(&format!("random.depth.{}", x.depth().min(12)));
    }

    // ---- the Lean reference printer against the real engine: the documented spelling that
    // `S.render` (Spec/Precedence.lean) gives a tree must be parsed by the engine to the AST
    // `S.erase` assigns to it (the parse/print theorems are about exactly these spellings)
    let mut spec_reqs: Vec<String> = Vec::new();
    for x in trees.iter().take(env.budget(3000, 200_000)) {
        let mut w = Vec::new();
        if s_wire(x, &mut rng, &mut w).is_some() {
            spec_reqs.push(format!("spec {}", w.join(" ")));
        } else {
            report.count("spec-printer.no-counterpart");
        }
    }

    // ---- malformed / adversarial stream: token mutations of valid spellings, nesting limits
    let n_mut = env.budget(4000, 800_000);
    let junk = ["+", "-", "not", "in", "is", "if", "else", "(", ")", "[", "]", "?[", ".", "?.", ",", ":", "|", "~", "**", "*", "and", "or", "...", "{", "}", "=", "!", "<", "/", ">", "for", "a", "1", "'s'", "none", "1.", "99999999999999999999"];
    for _ in 0..n_mut {
        let x = gen_x(Ty::Any, 1 + rng.below(4), &mut rng);
        let mut pr = Printer { doc: &doc, mode: Mode::Minimal(5), rng: rng.fork() };
        let mut toks = Vec::new();
        pr.emit(&x, 0, &mut toks);
        for _ in 0..1 + rng.below(2) {
            if toks.is_empty() {
                break;
            }
            let i = rng.below(toks.len());
            match rng.below(5) {
                0 => {
                    toks.remove(i);
                }
                1 => {
                    let t = toks[i].clone();
                    toks.insert(i, t);
                }
                2 => toks.insert(i, (*rng.pick(&junk)).to_string()),
                3 => toks[i] = (*rng.pick(&junk)).to_string(),
                _ => {
                    let j = rng.below(toks.len());
                    toks.swap(i, j);
                }
            }
        }
        cases.push(Case { stream: "mutated", src: plain_join(&toks), reference: None, other: None, label: "mutation".into() });
    }
    // limits: parentheses, subscripts, arrays, unary chains
    for n in 1usize..=8 {
        cases.push(Case { stream: "limits", src: format!("{{{{ {}1{} }}}}", "[".repeat(n), "]".repeat(n)), reference: None, other: None, label: format!("array dims {n}") });
        let mut s = String::from("a");
        let mut t = String::from("0");
        for _ in 0..n {
            s = format!("a[{s}]");
            t = format!("'abc'[{t}:]");
        }
        cases.push(Case { stream: "limits", src: format!("{{{{ {s} }}}}"), reference: None, other: None, label: format!("brackets {n}") });
        cases.push(Case { stream: "limits", src: format!("{{{{ {t} }}}}"), reference: None, other: None, label: format!("slice brackets {n}") });
        cases.push(Case { stream: "limits", src: format!("{{{{ [{}x for x in xs{}] }}}}", "[".repeat(n), "]".repeat(n)), reference: None, other: None, label: "comprehension dims".into() });
        cases.push(Case { stream: "limits", src: format!("{{{{ {}[x for x in xs]{} }}}}", "[".repeat(n), "]".repeat(n)), reference: None, other: None, label: "comprehension inside dims".into() });
    }
    for n in [1usize, 2, 20, 36, 37, 38, 39, 40, 41, 42, 60] {
        cases.push(Case { stream: "limits", src: format!("{{{{ {}a{} }}}}", "(".repeat(n), ")".repeat(n)), reference: None, other: None, label: format!("parens {n}") });
        cases.push(Case { stream: "limits", src: format!("{{{{ {}1{} }}}}", "[".repeat(n.min(6)), "]".repeat(n.min(6))), reference: None, other: None, label: format!("array dims {}", n.min(6)) });
        let mut s = String::from("a");
        for _ in 0..n.min(7) {
            s = format!("a[{s}]");
        }
        cases.push(Case { stream: "limits", src: format!("{{{{ {s} }}}}"), reference: None, other: None, label: format!("brackets {}", n.min(7)) });
        cases.push(Case { stream: "limits", src: format!("{{{{ {}a }}}}", "not (".repeat(n.min(21)).to_string() + &")".repeat(0)) + &")".repeat(0), reference: None, other: None, label: "unclosed".into() });
        cases.push(Case { stream: "limits", src: format!("{{{{ 1 {} }}}}", "+ (2 ".repeat(n) + &")".repeat(n)), reference: None, other: None, label: format!("right nest {n}") });
        cases.push(Case { stream: "limits", src: format!("{{{{ 2 {} }}}}", "** 2 ".repeat(n)), reference: None, other: None, label: format!("pow chain {n}") });
        cases.push(Case { stream: "limits", src: format!("{{{{ [{}x for x in xs{}] }}}}", "[".repeat(n.min(5)), "]".repeat(n.min(5))), reference: None, other: None, label: "comprehension dims".into() });
    }
    for s in [
        "{{ - - 1 }}", "{{ not not a }}", "{{ - not a }}", "{{ not - a }}", "{{ -(-1) }}", "{{ not (not a) }}", "{{ a ~ -b }}", "{{ a ~ (-b) }}",
        "{{ a ~ not b }}", "{{ a ~ (b not in c) }}", "{{ a ~ (b is not defined) }}", "{{ a ~ b not in c }}", "{{ a ~ -b | abs }}", "{{ a ~ (-b) | abs }}",
        "{{ a not b }}", "{{ a not in }}", "{{ a is not }}", "{{ a is }}", "{{ a | }}", "{{ a.0 }}", "{{ a.b() }}", "{{ f().a }}", "{{ f()[0] }}", "{{ (a).b }}",
        "{{ (a)[0] }}", "{{ (a)?[0] }}", "{{ a?[0]?.b }}", "{{ 1[0] }}", "{{ 'abc'[1:] }}", "{{ a[:] }}", "{{ a[::] }}", "{{ a[1::] }}", "{{ a[::2] }}", "{{ a[1:2:3] }}",
        "{{ a[1:2:] }}", "{{ a[] }}", "{{ a[1 2] }}", "{{ [1, 2,, 3] }}", "{{ [,] }}", "{{ [] }}", "{{ {} }}", "{{ {,} }}", "{{ {'a': 1, 'a': 2} }}", "{{ {1: 1, true: 2, 'x': 3} }}",
        "{{ {a: 1} }}", "{{ {'a': 1 } }}", "{{ {'a': {'b': 1} } }}", "{{ {'a': {'b': 1}} }}", "{{ {...m, 'a': 1} }}", "{{ [...xs, 1] }}", "{{ [1, [2, [3]]] }}", "{{ [[1], [2, a]] }}",
        "{{ f(a=1, a=2) }}", "{{ f(a=1,) }}", "{{ f(,) }}", "{{ f(a) }}", "{{ f(a=1 b=2) }}", "{{ a | f(x=1, y=2) | g }}", "{{ a is t(x=1) }}", "{{ a is t [0] }}", "{{ a | f [0] }}",
        "{{ a is not t [0] }}", "{{ a if b }}", "{{ a if b else }}", "{{ a if b else c if d }}", "{{ (a if b else c) if d else e }}", "{{ a if b if c else d else e }}", "{{ [x for x in xs for y in ys] }}",
        "{{ [x for true in xs] }}", "{{ [x for k, loop in xs] }}", "{{ [x if x else 0 for x in xs if x] }}", "{{ [x for x in a if b else c] }}", "{{ [x for x in (a if b else c)] }}",
        "{{ <input label=\"Name\" n={a -1} {...m}/> }}", "{{ <input> }}", "{{ <a.b.c x/> }}", "{{ < 1 }}", "{{ a < b }}", "{{ <input x=1/> }}", "{{ none }}", "{{ None | default(value=1) }}",
        "{{ nothing }}", "{{ not }}", "{{ in }}", "{{ if }}", "{{ else }}", "{{ a else b }}", "{{ a and }}", "{{ and a }}", "{{ }}", "{{ 1 2 }}", "{{ a b }}", "{{ loop.index }}", "{{ loop.foo }}",
        "{{ 9223372036854775807 }}", "{{ 9223372036854775808 }}", "{{ -9223372036854775808 }}", "{{ 1.5.2 }}", "{{ 1..2 }}", "{{ a ! b }}", "{{ a != b }}", "{{ a == = b }}", "{{ 'unterminated }}",
        "{{ a ~ \"x\" ~ `y` }}", "{{ a is defined is defined }}", "{{ a not in b not in c }}", "{{ a in b in c }}", "{{ a is not defined and b }}", "{{ not a is defined }}", "{{ not a not in b }}",
    ] {
        cases.push(Case { stream: "handwritten", src: s.to_string(), reference: None, other: None, label: "handwritten".into() });
    }
    // exhaustive small shapes of the list-like forms the parse/print theorems do not cover:
    // argument lists, array literals, map literals, comprehensions, slices, component calls
    {
        let vals = ["1", "a", "a + 1", "'s'", "[1]", "x if y else z", "-1", "none"];
        let mut shapes: Vec<String> = Vec::new();
        // argument lists: 0..3 arguments, every order of names from {a, b, a}, trailing comma, missing comma
        let names = ["a", "b", "c", "a"];
        for n in 0..=3usize {
            for perm in 0..(4usize.pow(n as u32)) {
                let mut p = perm;
                let mut parts = Vec::new();
                for i in 0..n {
                    parts.push(format!("{}={}", names[p % 4], vals[(perm + i) % vals.len()]));
                    p /= 4;
                }
                for (sep, tail) in [(", ", ""), (", ", ","), (" ", "")] {
                    let args = parts.join(sep);
                    shapes.push(format!("f({args}{tail})"));
                    shapes.push(format!("x | f({args}{tail})"));
                    shapes.push(format!("x is f({args}{tail})"));
                    shapes.push(format!("x is not f({args}{tail}) | g"));
                }
            }
        }
        // arrays: 0..3 entries from {const, var, spread, nested const array, nested var array}
        let entries = ["1", "a", "...xs", "[2]", "[b]", "'s'", "-1"];
        for n in 0..=3usize {
            for perm in 0..(entries.len().pow(n as u32)) {
                let mut p = perm;
                let mut parts = Vec::new();
                for _ in 0..n {
                    parts.push(entries[p % entries.len()]);
                    p /= entries.len();
                }
                let body = parts.join(", ");
                shapes.push(format!("[{body}]"));
                if n > 0 && perm % 3 == 0 {
                    shapes.push(format!("[{body},]"));
                    shapes.push(format!("[{body}][0]"));
                }
            }
        }
        // maps: 0..3 entries, key kinds x value kinds, duplicate keys, spreads
        let mentries = ["'k': 1", "\"k\": a", "1: 'x'", "true: [1]", "'k': 2", "...m", "k: 1", "1.5: 1", "'j': {'z': 1}", "'e': {}"];
        for n in 0..=3usize {
            for perm in 0..(mentries.len().pow(n as u32)) {
                let mut p = perm;
                let mut parts = Vec::new();
                for _ in 0..n {
                    parts.push(mentries[p % mentries.len()]);
                    p /= mentries.len();
                }
                let body = parts.join(", ");
                shapes.push(format!("{{{body} }}"));
                if n > 0 && perm % 7 == 0 {
                    shapes.push(format!("{{{body}, }}"));
                    shapes.push(format!("{{{body} }}['k']"));
                }
            }
        }
        // comprehensions and slices
        for e in ["x", "x * 2", "x if x else 0", "[x]", "x | abs"] {
            for vars in ["x", "k, x", "x,", "true", "k, loop"] {
                for t in ["xs", "a + b", "f(a=1)", "xs if c else ys", "(xs if c else ys)", "[1, 2]"] {
                    for c in ["", " if x", " if x > 1 and y", " if x if y else z", " for y in ys"] {
                        shapes.push(format!("[{e} for {vars} in {t}{c}]"));
                    }
                }
            }
        }
        let parts = ["", "1", "a", "-1", "a + 1"];
        for a in parts {
            for b in parts {
                for c in parts {
                    shapes.push(format!("xs[{a}:{b}:{c}]"));
                    shapes.push(format!("xs?[{a}:{b}]"));
                    shapes.push(format!("'abc'[{a}:{b}:{c}]"));
                }
                shapes.push(format!("xs[{a}:{b}]"));
            }
            shapes.push(format!("xs[{a}]"));
        }
        // inline component calls
        for attrs in ["", "a", "a=\"s\"", "a={x + 1}", "a b=\"c\" {...m}", "{...m} {...n}", "a=1", "a={x", "{m}", "a=\"s\" a=\"t\""] {
            for close in ["/>", ">", "/", " / >"] {
                shapes.push(format!("<comp {attrs}{close}"));
                shapes.push(format!("<ui.comp {attrs}{close} | safe"));
            }
        }
        report.count_n("shapes.enumerated", shapes.len() as u64);
        for sh in shapes {
            cases.push(Case { stream: "shapes", src: format!("{{{{ {sh} }}}}"), reference: None, other: None, label: "list-like shapes".into() });
        }
    }
    // the same expressions inside a for loop (`loop.*` rewriting, one more nesting level)
    {
        let mut wrapped: Vec<Case> = Vec::new();
        for c in cases.iter().filter(|c| matches!(c.stream, "limits" | "handwritten")) {
            wrapped.push(Case { stream: "in-loop", src: format!("{FOR_OPEN}{}{FOR_CLOSE}", c.src), reference: None, other: None, label: c.label.clone() });
        }
        let n = env.budget(1500, 300_000);
        for c in cases.iter().filter(|c| c.stream == "random").take(n) {
            wrapped.push(Case { stream: "in-loop", src: format!("{FOR_OPEN}{}{FOR_CLOSE}", c.src), reference: c.reference.as_ref().map(|r| format!("{FOR_OPEN}{r}{FOR_CLOSE}")), other: None, label: c.label.clone() });
        }
        for s in [
            "{{ loop.index }}", "{{ loop.index0 + loop.length }}", "{{ loop.first.x }}", "{{ loop.foo }}", "{{ loop }}", "{{ loop.index.first }}", "{{ loop?.index }}",
            "{{ loop?.last?.first }}", "{{ loop[0] }}", "{{ loop.last[0] }}", "{{ loop[0].last }}", "{{ a.loop.index }}", "{{ loop() }}", "{{ loop(a=1).index }}", "{{ loop.index is odd }}",
            "{{ -loop.index ** 2 }}", "{{ loop.first and not loop.last }}", "{{ [loop.index for loop_ in xs] }}", "{{ loop.length | abs }}", "{{ q ~ loop.index }}",
        ] {
            wrapped.push(Case { stream: "in-loop", src: format!("{FOR_OPEN}{s}{FOR_CLOSE}"), reference: None, other: None, label: "loop fields".into() });
            cases.push(Case { stream: "handwritten", src: s.to_string(), reference: None, other: None, label: "loop fields outside a loop".into() });
        }
        cases.extend(wrapped);
    }
    // the repository's own expression inputs, one case per `{{ }}` line
    for f in ["expressions.txt", "idents.txt", "indexing.txt", "list_comprehension.txt", "map_spread.txt", "ternary.txt"] {
        if let Ok(text) = std::fs::read_to_string(format!("/repo/tera/src/snapshot_tests/parser_inputs/success/expr/{f}")) {
            for line in text.lines() {
                let l = line.trim();
                if l.starts_with("{{") && l.ends_with("}}") && l.matches("{{").count() == 1 {
                    cases.push(Case { stream: "repo-inputs", src: l.to_string(), reference: None, other: None, label: f.to_string() });
                }
            }
        }
    }

    // ---- run: engine ASTs, model ASTs
    let threads = std::thread::available_parallelism().map(|n| n.get()).unwrap_or(4).min(16);
    let eng: Vec<(String, Option<String>)> = std::thread::scope(|s| {
        let per = cases.len().div_ceil(threads).max(1);
        let hs: Vec<_> = cases
            .chunks(per)
            .map(|cs| s.spawn(move || cs.iter().map(|c| (engine_ast(&c.src), c.reference.as_ref().map(|r| engine_ast(r)))).collect::<Vec<_>>()))
            .collect();
        hs.into_iter().flat_map(|h| h.join().unwrap()).collect()
    });
    let reqs: Vec<String> = cases.iter().map(|c| model_request(&c.src)).collect();
    let model = match driver::run_batch_parallel(&exe, &reqs, threads) {
        Ok(m) => m,
        Err(e) => {
            report.notes.push(format!("model driver unavailable: {e}"));
            report.violation("model-mismatch", format!("model driver could not be run: {e}"), serde_json::json!({"stage": "driver", "error": e}));
            Vec::new()
        }
    };

    // the reference printer stage
    let mut spec_fail: Vec<(String, String)> = Vec::new();
    match driver::run_batch_parallel(&exe, &spec_reqs, threads) {
        Err(e) => report.notes.push(format!("spec printer stage not run: {e}")),
        Ok(answers) => {
            for (req, ans) in spec_reqs.iter().zip(answers.iter()) {
                let parts: Vec<&str> = ans.split(" | ").collect();
                if parts.len() != 3 {
                    spec_fail.push((req.clone(), format!("unreadable answer `{ans}`")));
                    continue;
                }
                let head: Vec<&str> = parts[0].split(' ').collect();
                let nums: Vec<usize> = head.iter().skip(1).filter_map(|n| n.parse().ok()).collect();
                if head.first() != Some(&"1") {
                    report.count("spec-printer.not-valid-tree");
                    continue;
                }
                if nums.len() != 3 || nums[0] + 1 > 40 || nums[1] > 4 || nums[2] > 2 {
                    report.count("spec-printer.over-nesting-limit");
                    continue;
                }
                let text: Option<Vec<String>> = parts[1].split(' ').filter(|t| !t.is_empty()).map(tok_text).collect();
                let Some(text) = text else {
                    spec_fail.push((req.clone(), format!("token without spelling in `{}`", parts[1])));
                    continue;
                };
                let src = plain_join(&text);
                let e = engine_ast(&src);
                report.evaluations += 1;
                report.model_comparisons += 1;
                report.count(&format!("spec-printer.parse.{}", e.split(' ').next().unwrap_or("")));
                if e != format!("ok Ns1 Expr {}", parts[2]) {
                    report.model_disagreements += 1;
                    spec_fail.push((src.clone(), format!("Lean reference printer spells `{src}` for the AST `{}` but the engine parses it to `{e}`", parts[2])));
                }
            }
        }
    }

    let replay_of = |c: &Case, extra: serde_json::Value| {
        serde_json::json!({
            "src": c.src, "reference": c.reference, "stream": c.stream, "label": c.label, "detail": extra,
            "rerun": "harness/target/release/c02 --replay <this file>",
        })
    };

    let mut distinct: HashSet<&str> = HashSet::new();
    let mut oracle_fail: Vec<(usize, String)> = Vec::new();
    let mut mismatches: Vec<usize> = Vec::new();
    let mut random_ok = 0u64;
    let mut random_total = 0u64;
    for (i, c) in cases.iter().enumerate() {
        report.evaluations += 1;
        let (e_src, e_ref) = &eng[i];
        let class = e_src.split(' ').next().unwrap_or("");
        report.count(&format!("{}.parse.{}", c.stream, class));
        if c.stream == "random" {
            random_total += 1;
            if class == "ok" {
                random_ok += 1;
            }
        }
        if class == "ok" && distinct.insert(c.src.as_str()) {
            report.distinct_nontrivial += 1;
        }
        let ntok = c.src.split_whitespace().count();
        report.count(&format!("size.tokens.{}", match ntok { 0..=6 => "le6", 7..=12 => "7-12", 13..=30 => "13-30", 31..=80 => "31-80", _ => "gt80" }));
        if !model.is_empty() {
            report.model_comparisons += 1;
            if &model[i] != e_src {
                report.model_disagreements += 1;
                mismatches.push(i);
            }
        }
        // direct oracle, AST level: documented spelling == fully parenthesised documented tree
        if let Some(r) = e_ref {
            report.oracle_checks += 1;
            if !r.starts_with("ok ") {
                // the reference spelling itself must be accepted; otherwise the generator is wrong
                oracle_fail.push((i, format!("reference spelling rejected by the engine: {}", c.reference.as_ref().unwrap())));
            } else if r != e_src && c.stream == "whitespace" {
                oracle_fail.push((i, format!("the parse depends on the whitespace between tokens inside a tag ({}): {:?} parses to `{}` but {:?} parses to `{}`", c.label, c.src, e_src, c.reference.as_ref().unwrap(), r)));
            } else if r != e_src {
                oracle_fail.push((i, format!("`{}` groups differently from the documented `{}`", c.src, c.reference.as_ref().unwrap())));
            }
        }
    }
    if random_total > 0 {
        report.count_n("random.accepted_permille", random_ok * 1000 / random_total);
    }

    // direct oracle, render level (whole pipeline): same output / both fail
    let render_idx: Vec<usize> = cases.iter().enumerate().filter(|(_, c)| c.reference.is_some()).map(|(i, _)| i).collect();
    let rendered: Vec<(usize, String, String, Option<String>)> = std::thread::scope(|s| {
        let per = render_idx.len().div_ceil(threads).max(1);
        let (tera, ctx, cases) = (&tera, &ctx, &cases);
        let hs: Vec<_> = render_idx
            .chunks(per)
            .map(|is| {
                s.spawn(move || {
                    is.iter()
                        .map(|&i| {
                            let c = &cases[i];
                            (i, engine_render(tera, ctx, &c.src), engine_render(tera, ctx, c.reference.as_ref().unwrap()), c.other.as_ref().map(|o| engine_render(tera, ctx, o)))
                        })
                        .collect::<Vec<_>>()
                })
            })
            .collect();
        hs.into_iter().flat_map(|h| h.join().unwrap()).collect()
    });
    let mut distinguishing_pairs: HashSet<String> = HashSet::new();
    for (i, a, b, o) in &rendered {
        let c = &cases[*i];
        report.oracle_checks += 1;
        report.count(&format!("{}.render.{}", c.stream, a.split(' ').next().unwrap_or("")));
        if a != b && c.stream == "whitespace" {
            oracle_fail.push((*i, format!("the result depends on the whitespace between tokens inside a tag ({}): {:?} renders {a:?} but {:?} renders {b:?}", c.label, c.src, c.reference.as_ref().unwrap())));
        } else if a != b {
            oracle_fail.push((*i, format!("`{}` renders {a:?} but the documented `{}` renders {b:?}", c.src, c.reference.as_ref().unwrap())));
        }
        if let Some(o) = o {
            if o != b && b.starts_with("ok") {
                distinguishing_pairs.insert(c.label.clone());
            }
        }
    }
    report.count_n("pair-raw.pairs_with_distinguishing_operands", distinguishing_pairs.len() as u64);
    report.oracle_failures = oracle_fail.len() as u64;

    // ---- the same inside `{% %}` tags (engine only: the model of this check parses `{{ expr }}`):
    // `{% if X %}`, `{% set v = X %}`, `{% for q in X %}` with every whitespace spelling between
    // the tokens of the tag must give the AST and the output of the single-space spelling
    let mut tag_fail: Vec<(Case, String)> = Vec::new();
    {
        let n_tag = env.budget(120, 5_000).min(trees.len());
        let mut tag_cases: Vec<Case> = Vec::new();
        let tag = |head: &[&str], toks: &[String], v: Option<&str>| -> String {
            let mut all: Vec<String> = head.iter().map(|h| h.to_string()).collect();
            all.extend(toks.iter().cloned());
            format!("{{%{}%}}", ws_inner(&all, v))
        };
        let bare = |words: &[&str], v: Option<&str>| -> String {
            let all: Vec<String> = words.iter().map(|h| h.to_string()).collect();
            format!("{{%{}%}}", ws_inner(&all, v))
        };
        for toks in tree_toks.iter().take(n_tag) {
            for (name, v) in WS_VARIANTS {
                let sp = Some(" ");
                let forms: [(String, String); 3] = [
                    (format!("{}y{}n{}", tag(&["if"], toks, v), bare(&["else"], v), bare(&["endif"], v)),
                     format!("{}y{}n{}", tag(&["if"], toks, sp), bare(&["else"], sp), bare(&["endif"], sp))),
                    (format!("{}{}", tag(&["set", "v", "="], toks, v), ws_join(&["v".to_string()], v)),
                     format!("{}{}", tag(&["set", "v", "="], toks, sp), ws_join(&["v".to_string()], sp))),
                    (format!("{}{}{}", tag(&["for", "q", "in"], toks, v), ws_join(&["q".to_string()], v), bare(&["endfor"], v)),
                     format!("{}{}{}", tag(&["for", "q", "in"], toks, sp), ws_join(&["q".to_string()], sp), bare(&["endfor"], sp))),
                ];
                for (src, reference) in forms {
                    tag_cases.push(Case { stream: "whitespace-tag", src, reference: Some(reference), other: None, label: format!("separator: {name}") });
                }
            }
        }
        let found: Vec<(usize, String)> = std::thread::scope(|s| {
            let per = tag_cases.len().div_ceil(threads).max(1);
            let (tera, ctx) = (&tera, &ctx);
            let hs: Vec<_> = tag_cases
                .chunks(per)
                .enumerate()
                .map(|(ci, cs)| {
                    s.spawn(move || {
                        let mut out = Vec::new();
                        for (k, c) in cs.iter().enumerate() {
                            let r = c.reference.as_ref().unwrap();
                            let (a, b) = (engine_ast(&c.src), engine_ast(r));
                            if a != b {
                                out.push((ci * per + k, format!("the parse depends on the whitespace between tokens inside a tag ({}): {:?} parses to `{a}` but {r:?} parses to `{b}`", c.label, c.src)));
                                continue;
                            }
                            let (ra, rb) = (engine_render(tera, ctx, &c.src), engine_render(tera, ctx, r));
                            if ra != rb {
                                out.push((ci * per + k, format!("the result depends on the whitespace between tokens inside a tag ({}): {:?} renders {ra:?} but {r:?} renders {rb:?}", c.label, c.src)));
                            }
                        }
                        out
                    })
                })
                .collect();
            hs.into_iter().flat_map(|h| h.join().unwrap()).collect()
        });
        report.evaluations += tag_cases.len() as u64;
        report.oracle_checks += 2 * tag_cases.len() as u64;
        report.count_n("whitespace-tag.cases", tag_cases.len() as u64);
        report.oracle_failures += found.len() as u64;
        let mut found = found;
        found.sort_by_key(|(i, _)| tag_cases[*i].src.len());
        let keep: Vec<(usize, String)> = found.into_iter().take(5).collect();
        let mut tag_cases: Vec<Option<Case>> = tag_cases.into_iter().map(Some).collect();
        for (i, d) in keep {
            if let Some(c) = tag_cases[i].take() {
                tag_fail.push((c, d));
            }
        }
    }

    // ---- model and implementation disagree but no oracle failure so far: targeted burst, the
    // direct oracle alone (engine only) on 10x the random budget plus every case of the streams
    // the disagreeing cases came from, printed again with fresh parenthesis / spelling choices
    let mut burst_fail: Vec<(Case, String)> = Vec::new();
    if oracle_fail.is_empty() && !mismatches.is_empty() {
        let mut brng = Rng::new(env.seed ^ 0x5eed_b0b5);
        let mut extra: Vec<Case> = Vec::new();
        for _ in 0..n_random * 10 {
            let d = 1 + brng.below(6);
            let x = gen_x(Ty::Any, d, &mut brng);
            if !x.within_limits() {
                continue;
            }
            let mut pr = Printer { doc: &doc, mode: Mode::Minimal(*brng.pick(&[0, 0, 10, 30])), rng: brng.fork() };
            let mut toks = Vec::new();
            pr.emit(&x, 0, &mut toks);
            let src = join(&toks, &mut brng, false);
            extra.push(Case { stream: "burst", src, reference: Some(full_of(&x, &mut full)), other: None, label: x.kind().into() });
        }
        let found: Vec<(usize, String)> = std::thread::scope(|s| {
            let per = extra.len().div_ceil(threads).max(1);
            let (tera, ctx) = (&tera, &ctx);
            let hs: Vec<_> = extra
                .chunks(per)
                .enumerate()
                .map(|(ci, cs)| {
                    s.spawn(move || {
                        let mut out = Vec::new();
                        for (k, c) in cs.iter().enumerate() {
                            let r = c.reference.as_ref().unwrap();
                            let (a, b) = (engine_ast(&c.src), engine_ast(r));
                            if a != b {
                                out.push((ci * per + k, format!("`{}` groups differently from the documented `{r}`", c.src)));
                                continue;
                            }
                            let (ra, rb) = (engine_render(tera, ctx, &c.src), engine_render(tera, ctx, r));
                            if ra != rb {
                                out.push((ci * per + k, format!("`{}` renders {ra:?} but the documented `{r}` renders {rb:?}", c.src)));
                            }
                        }
                        out
                    })
                })
                .collect();
            hs.into_iter().flat_map(|h| h.join().unwrap()).collect()
        });
        report.oracle_checks += 2 * extra.len() as u64;
        report.count_n("burst.cases", extra.len() as u64);
        report.oracle_failures += found.len() as u64;
        let mut found = found;
        found.sort_by_key(|(i, _)| extra[*i].src.len());
        let keep: Vec<(usize, String)> = found.into_iter().take(5).collect();
        let mut extra: Vec<Option<Case>> = extra.into_iter().map(Some).collect();
        for (i, d) in keep {
            if let Some(c) = extra[i].take() {
                burst_fail.push((c, d));
            }
        }
    }
    for (c, d) in &burst_fail {
        report.violation("property", d.clone(), replay_of(c, serde_json::json!({"oracle": d, "found_by": "targeted burst after a model disagreement"})));
    }
    for (c, d) in &tag_fail {
        report.violation("property", d.clone(), replay_of(c, serde_json::json!({"oracle": d, "found_by": "whitespace spellings inside {% %} tags"})));
    }

    // ---- violations
    oracle_fail.sort_by_key(|(i, _)| cases[*i].src.len());
    for (i, d) in oracle_fail.iter().take(5) {
        let c = &cases[*i];
        report.violation("property", d.clone(), replay_of(c, serde_json::json!({"oracle": d, "engine_ast": eng[*i].0, "engine_ast_reference": eng[*i].1, "model": model.get(*i)})));
    }
    if oracle_fail.is_empty() && burst_fail.is_empty() && !mismatches.is_empty() {
        mismatches.sort_by_key(|i| cases[*i].src.len());
        for i in mismatches.iter().take(5) {
            let c = &cases[*i];
            let exe2 = exe.clone();
            let fails = move |s: &str| {
                let e = engine_ast(s);
                match driver::run_batch(&exe2, &[model_request(s)]) {
                    Ok(m) => m[0] != e,
                    Err(_) => false,
                }
            };
            let small = shrink_src(&c.src, &fails);
            let e = engine_ast(&small);
            let m = driver::run_batch(&exe, &[model_request(&small)]).map(|v| v[0].clone()).unwrap_or_default();
            report.violation(
                "model-mismatch",
                format!("model `{m}` vs implementation `{e}` on `{small}`"),
                serde_json::json!({"src": small, "original": c.src, "stream": c.stream, "stage": "correspondence:tokens->AST", "model": m, "implementation": e,
                    "rerun": "harness/target/release/c02 --replay <this file>"}),
            );
        }
    }

    if oracle_fail.is_empty() && burst_fail.is_empty() {
        spec_fail.sort_by_key(|(s, _)| s.len());
        for (src, d) in spec_fail.iter().take(3) {
            report.violation("model-mismatch", d.clone(), serde_json::json!({"src": src, "stage": "correspondence:spec-printer->engine", "detail": d,
                "rerun": "harness/target/release/c02 --replay <this file>"}));
        }
    }
    for i in [0usize, n_exhaustive / 2, n_exhaustive + 1, n_exhaustive + n_random / 2, cases.len() - 1] {
        if let Some(c) = cases.get(i) {
            report.sample(serde_json::json!({"stream": c.stream, "src": c.src, "reference": c.reference, "engine_ast": eng[i].0, "model": model.get(i)}));
        }
    }
    report.exhaustive = true;
    report.notes.push(format!(
        "exhaustive part: {} operand sets x 21x21 infix forms as unparenthesised `A op1 B op2 C` against the documented grouping, both nestings through the documented-parenthesisation printer, unary/ternary mixes{}; {} exhaustive cases",
        operand_sets.len(),
        if env.quick() { "" } else { ", 21^3 triples" },
        n_exhaustive
    ));
    report.rule = "a case is a source `{{ expr }}`; non-trivial = the real parser accepts it (the Pratt loop ran to completion); distinct by source text. Streams: pair-raw / triple-raw (no parentheses, documented grouping as oracle), pair-nesting (both nestings through the printer), unary-infix, infix-unary, ternary-infix, random (typed trees depth<=6, minimal+redundant parentheses vs fully parenthesised), mutated / limits / handwritten (malformed and boundary inputs: both sides must reject or agree), shapes (exhaustive small argument lists / arrays / maps / comprehensions / slices / component calls), in-loop (the same inside `{% for %}`), whitespace (the same token sequence with every ASCII whitespace spelling between the tokens — tab, LF, CRLF, CR, FF, runs, none where legal — against its single-space spelling and, for CRLF / CR, against the documented parenthesisation; whitespace-tag: the same inside `{% if %}` / `{% set %}` / `{% for %}` tags, engine only), repo-inputs; spec-printer: the documented spelling the LEAN reference printer `S.render` gives a random tree, parsed by the real engine, must be the AST `S.erase` assigns to it".into();
    report.write(&out_path());
}
