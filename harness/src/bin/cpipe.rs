//! cpipe — the WHOLE-ENGINE Lean model (`lean/TeraModel/Model/Pipeline.lean`, driver `drv_pipeline`:
//! lexer → whitespace filter → parser → compiler → optimiser → finalize → VM, composed from the
//! stage models) against the real `Tera::add_raw_templates` + `render` / `render_block`
//! (C06 ∧ C07 end to end).
//!
//! The model gets SOURCE TEXTS, delimiters, autoescape suffixes, fallback prefixes and contexts —
//! nothing the real engine computed — and must give
//!  * the same add-time outcome (`Ok`, or the error class: syntax / missing parent / circular extend /
//!    circular include / message),
//!  * for accepted sets the same ENVIRONMENT (`verif_hooks::vm_env_wire`: every stored chunk
//!    instruction by instruction, parents, block lineages as chunks, component tables, autoescape
//!    flags; spans compared by presence and count),
//!  * the same render outcome (exact text, or the error class) for every (entry, context).
//! When anything differs the harness asks both sides for their stage outputs (tokens after the
//! filter, AST, raw chunks, environment, render) and reports the FIRST stage that differs.
//! Cases that reach a built-in the model does not define are skipped and counted.
//!
//! Template sets: the two existing generators (`bcgen`; the program generator of `evalh.rs` in the
//! copy `cvm_support/evgen.rs`), the hand-written sets of cvm, the repo's `rendering_inputs` and
//! `build_errors`, registry sets built from `tplgen::TplS` summaries (missing parents, extend and
//! include cycles, unknown references, duplicate components, fallback prefixes), custom delimiter
//! sets, and a malformed stream (truncations / deletions / duplications of all of these).
//!
//! Direct oracle, independent of the model: registering never panics, rendering never panics, a
//! successful render leaves the three VM stacks empty.
//! Every engine call runs in a child process with a watchdog; a case that does not come back is
//! re-run alone with a 150 s cap before anything is reported.
use std::collections::BTreeMap;
use std::time::{Duration, Instant};
use tera::verif_hooks as hooks;
use tera::{Context, Tera};
use tera_verif_harness::bcgen;
use tera_verif_harness::childrun::{child_main, cleanup, run_batch, run_batches, Batch};
use tera_verif_harness::lexwire::D;
use tera_verif_harness::report::{out_path, replay_path, Report};
use tera_verif_harness::rng::Rng;
use tera_verif_harness::tplgen::{BlockS, CompS, TplS};
use tera_verif_harness::wire::{decode, encode, hex, unhex};
use tera_verif_harness::{catch, driver, quiet_panics, Env};

#[path = "cvm_support/evgen.rs"]
#[allow(dead_code)]
mod evgen;

const CHILD_FLAG: &str = "--child-pipe";
/// the property the check script runs this binary for: `C06` (registering never panics / hangs),
/// `C08` (literal text verbatim: the same end-to-end comparison, exact output text) or `C07`
/// (rendering never panics); taken from the `--out` file name `<pid>.cpipe.<tier>.result.json`
fn property() -> &'static str {
    let out = out_path();
    let base = std::path::Path::new(&out).file_name().map(|s| s.to_string_lossy().to_string()).unwrap_or_default();
    if base.starts_with("C06.") {
        "C06"
    } else if base.starts_with("C08.") {
        "C08"
    } else {
        "C07"
    }
}
const DEFAULT_SUFFIXES: [&str; 3] = [".html", ".htm", ".xml"];

// ------------------------------------------------------------------------------ cases

#[derive(Clone, Debug)]
struct Run {
    ctx: Vec<(String, String)>,
    global: Vec<(String, String)>,
    kind: String,
}

#[derive(Clone, Debug)]
struct Set {
    stream: String,
    templates: Vec<(String, String)>,
    delims: D,
    /// autoescape suffixes (`autoescape_on`)
    suffixes: Vec<String>,
    /// `set_fallback_prefixes`
    prefixes: Vec<String>,
    /// (template, block): `render` / `render_block`
    entries: Vec<(String, Option<String>)>,
    runs: Vec<Run>,
}

fn pairs_json(v: &[(String, String)]) -> serde_json::Value {
    serde_json::Value::Array(v.iter().map(|(a, b)| serde_json::json!([a, b])).collect())
}

fn pairs_of(j: &serde_json::Value) -> Vec<(String, String)> {
    j.as_array()
        .map(|a| a.iter().map(|p| (p[0].as_str().unwrap_or("").to_string(), p[1].as_str().unwrap_or("").to_string())).collect())
        .unwrap_or_default()
}

fn strs_of(j: &serde_json::Value) -> Vec<String> {
    j.as_array().map(|a| a.iter().map(|s| s.as_str().unwrap_or("").to_string()).collect()).unwrap_or_default()
}

impl Set {
    fn to_json(&self) -> serde_json::Value {
        serde_json::json!({
            "stream": self.stream,
            "templates": pairs_json(&self.templates),
            "delims": self.delims.to_json(),
            "suffixes": self.suffixes,
            "prefixes": self.prefixes,
            "entries": self.entries.iter().map(|(n, b)| serde_json::json!([n, b])).collect::<Vec<_>>(),
            "runs": self.runs.iter().map(|r| serde_json::json!({"ctx": pairs_json(&r.ctx), "global": pairs_json(&r.global), "kind": r.kind})).collect::<Vec<_>>(),
        })
    }
    fn from_json(j: &serde_json::Value) -> Set {
        Set {
            stream: j["stream"].as_str().unwrap_or("").to_string(),
            templates: pairs_of(&j["templates"]),
            delims: D::from_json(&j["delims"]).unwrap_or_default(),
            suffixes: strs_of(&j["suffixes"]),
            prefixes: strs_of(&j["prefixes"]),
            entries: j["entries"]
                .as_array()
                .map(|a| a.iter().map(|e| (e[0].as_str().unwrap_or("").to_string(), e[1].as_str().map(|s| s.to_string()))).collect())
                .unwrap_or_default(),
            runs: j["runs"]
                .as_array()
                .map(|a| a.iter().map(|r| Run { ctx: pairs_of(&r["ctx"]), global: pairs_of(&r["global"]), kind: r["kind"].as_str().unwrap_or("").to_string() }).collect())
                .unwrap_or_default(),
        }
    }
}

fn on_off(ae: &str) -> Vec<String> {
    if ae == "on" { vec!["".to_string()] } else { vec![] }
}

fn default_suffixes() -> Vec<String> {
    DEFAULT_SUFFIXES.iter().map(|s| s.to_string()).collect()
}

/// values of unexpected kinds / extremes (wire syntax)
const ADV: [&str; 26] = [
    "U",
    "N",
    "B0",
    "B1",
    "i64:0",
    "i64:-1",
    "u64:18446744073709551615",
    "i128:-170141183460469231731687303715884105728",
    "u128:340282366920938463463374607431768211455",
    "f:7ff8000000000000",
    "f:7ff0000000000000",
    "f:3ff8000000000000",
    "f:8000000000000000",
    "s:",
    "s:e697a5f09fa680c3a9",
    "S:3c623e2627",
    "s:3c2f7363726970743e2226",
    "y:ff61c3",
    "A0",
    "A3 i64:1 s:78 N",
    "M0",
    "M1 s:62 U",
    "M2 s:62 S:3c3e s:63 s:3c3e",
    "M2 i64:1 s:78 B1 s:79",
    "M3 i64:-1 N s:6c6162656c s:6c u128:7 A0",
    "M2 s:62 M2 s:62 u128:340282366920938463463374607431768211455 s:63 M1 s:62 N s:63 A2 i64:-1 s:c3a9",
];

fn adv_value(rng: &mut Rng) -> String {
    if rng.chance(1, 5) {
        format!("M2 s:62 {} s:63 {}", rng.pick(&ADV), rng.pick(&ADV))
    } else {
        rng.pick(&ADV).to_string()
    }
}

fn bcgen_sets(rng: &mut Rng, reps: usize, n_general: usize, n_ctx: usize, n_adv: usize) -> Vec<Set> {
    let cases = bcgen::generate_cases(rng, reps, n_general);
    let mut out = Vec::new();
    for (ci, c) in cases.into_iter().enumerate() {
        let mut entries = Vec::new();
        for m in c.modes() {
            match m {
                bcgen::Mode::Render => entries.push((c.name(), None)),
                bcgen::Mode::Block(b) => entries.push((c.name(), Some(b))),
                bcgen::Mode::Component(_) => {}
            }
        }
        let mut runs = Vec::new();
        for cx in bcgen::contexts_for(rng, n_ctx) {
            let mut ctx = Vec::new();
            for (i, name) in bcgen::ROOTS.iter().enumerate() {
                let w = bcgen::LATTICE[cx[i]];
                if w != "-" {
                    ctx.push((name.to_string(), w.to_string()));
                }
            }
            runs.push(Run { ctx, global: vec![], kind: "generator".into() });
        }
        for _ in 0..n_adv {
            let mut ctx = Vec::new();
            for name in bcgen::ROOTS.iter() {
                if rng.chance(1, 8) {
                    continue;
                }
                let v = if rng.chance(1, 3) { bcgen::LATTICE[bcgen::RICH].to_string() } else { adv_value(rng) };
                ctx.push((name.to_string(), v));
            }
            let global = if rng.chance(1, 4) { vec![(rng.pick(&bcgen::ROOTS).to_string(), adv_value(rng))] } else { vec![] };
            runs.push(Run { ctx, global, kind: "adversarial".into() });
        }
        // the case's own extension decides (default suffixes), or forced on / off
        let suffixes = match ci % 3 {
            0 => default_suffixes(),
            1 => on_off("on"),
            _ => on_off("off"),
        };
        out.push(Set { stream: format!("bcgen.{}.{:?}", c.stream, c.place), templates: c.templates(), delims: D::default(), suffixes, prefixes: vec![], entries, runs });
    }
    out
}

fn evgen_sets(rng: &mut Rng, n: usize, n_adv: usize, hist: &mut BTreeMap<String, u64>) -> Vec<Set> {
    let mut out = Vec::new();
    for i in 0..n {
        let adversarial = i % 3 == 2;
        let case = evgen::gen_program(rng, adversarial, i % 2 == 0, false, hist);
        let enc = |v: &[(String, tera::Value)]| -> Vec<(String, String)> {
            let mut m: BTreeMap<String, String> = BTreeMap::new();
            for (k, x) in v {
                m.insert(k.clone(), encode(x));
            }
            m.into_iter().collect()
        };
        let base = Run { ctx: enc(&case.ctx), global: enc(&case.global), kind: "generator".into() };
        let mut runs = vec![base.clone()];
        for _ in 0..n_adv {
            let mut r = base.clone();
            r.kind = "adversarial".into();
            let k = 1 + rng.below(4);
            for _ in 0..k {
                if r.ctx.is_empty() {
                    break;
                }
                let j = rng.below(r.ctx.len());
                if rng.chance(1, 6) {
                    r.ctx.remove(j);
                } else {
                    r.ctx[j].1 = adv_value(rng);
                }
            }
            runs.push(r);
        }
        runs.push(Run { ctx: vec![], global: vec![], kind: "empty".into() });
        let templates = case.sources();
        let main = templates[0].0.clone();
        let suffixes = match i % 3 {
            0 => default_suffixes(),
            1 => on_off("on"),
            _ => on_off("off"),
        };
        out.push(Set { stream: format!("evgen.{}", case.stream), templates, delims: D::default(), suffixes, prefixes: vec![], entries: vec![(main, None)], runs });
    }
    out
}

fn t(v: &[(&str, &str)]) -> Vec<(String, String)> {
    v.iter().map(|(a, b)| (a.to_string(), b.to_string())).collect()
}

fn e(n: &str, b: Option<&str>) -> (String, Option<String>) {
    (n.to_string(), b.map(|s| s.to_string()))
}

fn abc_runs(rng: &mut Rng, n_adv: usize) -> Vec<Run> {
    let rich = bcgen::LATTICE[bcgen::RICH].to_string();
    let rich_safe = bcgen::LATTICE[bcgen::RICH_SAFE].to_string();
    let mk = |a: &str, b: &str, c: &str, g: &[(&str, &str)]| Run {
        ctx: [("a", a), ("b", b), ("c", c)].iter().filter(|(_, w)| *w != "-").map(|(k, w)| (k.to_string(), w.to_string())).collect(),
        global: g.iter().map(|(k, w)| (k.to_string(), w.to_string())).collect(),
        kind: "generator".into(),
    };
    let mut runs = vec![
        Run { ctx: vec![], global: vec![], kind: "empty".into() },
        mk(&rich, &rich, &rich, &[]),
        mk(&rich_safe, &rich, "A3 i64:1 i64:0 i64:3", &[("c", "i64:9")]),
        mk("M2 s:62 s:3c613e s:6e i64:4", "M1 s:62 i64:2", "A3 i64:1 i64:0 i64:3", &[("c", "i64:9")]),
        mk("i64:2", "i64:3", "A2 i64:5 i64:6", &[]),
        mk("s:6c62", "i64:1", "s:616c6262", &[]),
        mk("M2 s:6c6162656c s:3c6c3e s:6e i64:7", "u64:5", "-", &[("c", "M1 s:62 s:67")]),
        mk("f:3ff8000000000000", "i64:2", "A2 f:3ff8000000000000 i64:1", &[]),
    ];
    for _ in 0..n_adv {
        let mut ctx = Vec::new();
        for name in ["a", "b", "c"] {
            if !rng.chance(1, 8) {
                ctx.push((name.to_string(), adv_value(rng)));
            }
        }
        runs.push(Run { ctx, global: vec![], kind: "adversarial".into() });
    }
    runs
}

/// the hand-written sets of cvm (inheritance chains with `super()`, `render_block`, components,
/// includes in captures, `__tera_context`, one template per expression form) plus literals the
/// LEXER has to get right (floats, big integers, escapes, raw blocks, comments, `-` markers)
fn fixed_sets(rng: &mut Rng, n_adv: usize) -> Vec<Set> {
    let mut protos: Vec<(Vec<(String, String)>, Vec<(String, Option<String>)>)> = Vec::new();
    protos.push((
        t(&[
            ("gp", "G[{% block k %}g:{{ a.b }}{% block inner %}gi{{ b }}{% endblock inner %}{% endblock k %}]{% block z %}Z{{ c }}{% endblock %}"),
            ("p", "{% extends \"gp\" %}{% block k %}p:{{ super() }}|{{ a }}{% endblock k %}"),
            ("c", "{% extends \"p\" %}{% block k %}c<{{ super() }}>{% set w = 1 %}{% endblock k %}{% block inner %}ci{{ super() }}{% endblock inner %}"),
        ]),
        vec![e("c", None), e("c", Some("k")), e("c", Some("inner")), e("c", Some("z")), e("c", Some("nope")), e("p", None), e("p", Some("k")), e("gp", Some("inner"))],
    ));
    protos.push((
        t(&[
            ("base.html", "{% filter upper %}x{% block k %}b{{ a }}{% endblock %}y{% endfilter %}{% set s %}[{% block j %}j{{ b.b }}{% endblock %}]{% endset %}{{ s }}"),
            ("kid.txt", "{% extends \"base.html\" %}{% block j %}J{{ super() }}{{ c }}{% endblock %}"),
        ]),
        vec![e("kid.txt", None), e("kid.txt", Some("k")), e("kid.txt", Some("j")), e("base.html", None), e("base.html", Some("j"))],
    ));
    protos.push((
        t(&[
            ("lib", "{% component btn(label: string = \"ok\", n = 1, ...rest) %}<{{ label }}:{{ n }}:{{ rest }}>{% endcomponent btn %}{% component wrap(x) %}({{ x }}|{{ body }}){% endcomponent wrap %}{% component rec(n: integer) %}{{ n }}{% if n > 0 %}{{ <rec n={n - 1}/> }}{% endif %}{% endcomponent rec %}"),
            ("use.html", "{{ <btn/> }}{{ <btn label={a} n={b} extra={c}/> }}{% <wrap x={a}> %}B{{ b }}{% </wrap> %}{{ <rec n={3}/> }}"),
            ("deep", "{{ <rec n={25}/> }}"),
            ("bad", "{{ <wrap/> }}"),
            ("spread", "{{ <btn {...a} n={2}/> }}"),
        ]),
        vec![e("use.html", None), e("deep", None), e("bad", None), e("spread", None)],
    ));
    protos.push((
        t(&[
            ("inc", "i{{ a }}{{ x }}{% set a = 5 %}{{ a }}{{ __tera_context }}"),
            ("main.xml", "{% for x in [1, 2] %}{% set_global g = x %}{% filter upper %}{% include \"inc\" %}{% endfilter %}{% endfor %}{{ g }}{{ a }}{{ __tera_context }}"),
        ]),
        vec![e("main.xml", None), e("inc", None)],
    ));
    protos.push((
        t(&[
            ("loopset", "{% for x in c %}[{{ w | default(value=\"-\") }}{% set w = x %}{{ w }}{% set_global g = x %}{% for y in c %}{{ w }}{{ v | default(value=\"_\") }}{% set v = y %}{% if y %}{% continue %}{% endif %}{% set w = 0 %}{% endfor %}{{ w }}]{% else %}E{% endfor %}{{ g | default(value=\"G\") }}{{ w | default(value=\"W\") }}"),
            ("kv.htm", "{% for k, v in b %}{{ loop.index }}{{ loop.first }}{{ loop.last }}{{ loop.length }}{{ k }}={{ v }}{% if loop.index0 == 1 %}{% break %}{% endif %}{% endfor %}{% for ch in a %}{{ ch }}{{ loop.index0 }},{% endfor %}"),
        ]),
        vec![e("loopset", None), e("kv.htm", None)],
    ));
    // what the lexer and the whitespace filter decide
    protos.push((
        t(&[
            ("lex1.html", "{{ 1.5 }}|{{ 0.1 + 0.2 }}|{{ 3. }}|{{ 123456789012345678.25 }}|{{ 0.000001 }}|{{ 9223372036854775807 }}|{{ 1e }}"),
            ("lex2.html", "{{ 1.5 }}|{{ 0.1 }}|{{ 2.50 }}|{{ 1797693134862315700000000000000000000000000000000000000000000000000000000000000000000000000000000000000000000000000000000000000000000000000000000000000000000000000000000000000000000000000000000000000000000000000000000000000000000000000000000000000000000000000000000000000000000000000000000000000000000000000.0 }}|{{ 0.00000000000000000000000000000000000000000000000000000000000000000000000000000000000000000000000000000000000000000000000000000000000000000000000000000000000000000000000000000000000000000000000000000000000000000000000000000000000000000000000000000000000000000000000000000000000000000000000000000000000000000000000000000000000000001 }}"),
            ("lex3.html", "a \n {{- \"q\\\"x\\n\\t\\\\\" -}} \n b{# c -#}  \n c {%- raw -%}  {{ r }} {% x %}  {%- endraw -%}  d{% raw %}{% endraw %}e"),
            ("lex4.html", "{{ 'it''s' }}{{ \"é日🦀\" ~ 'x' }}é日🦀{{ a }}\u{2003}{{- b -}}\u{2003}z{{ true and True or false }}{{ none }}{{ None }}"),
            ("lex5.html", "{{ a.b?.c?[0] // 2 ** 3 % 5 != 1 <= 2 >= 3 }}{{ [1, ...c] }}{{ {\"k\": 1, ...b} }}{{ not a is defined }}{{ a | default(value=1) | str ~ \"x\" }}"),
        ]),
        vec![e("lex1.html", None), e("lex2.html", None), e("lex3.html", None), e("lex4.html", None), e("lex5.html", None)],
    ));
    // add-time rules: where `break` / `continue` / `block` / `extends` may stand, component
    // signatures, one template per case (each must be refused or accepted on both sides)
    {
        let cases = [
            "{% for x in c %}{% filter upper %}{% break %}{% endfilter %}{% endfor %}",
            "{% for x in c %}{% set w %}{% continue %}{% endset %}{% endfor %}",
            "{% for i in [1, 2, 3] %}{% filter upper %}a{% if i == 2 %}{% break %}{% endif %}b{% endfilter %}{% endfor %}z",
            "{% for i in [1, 2, 3] %}{% set w %}a{% if i == 2 %}{% continue %}{% else %}c{% endif %}b{% endset %}{{ w }}{% endfor %}z",
            "{% for i in [1, 2] %}{% <w> %}{% if i %}{% for j in [1] %}{% break %}{% endfor %}{% break %}{% endif %}{% </w> %}{% endfor %}{% component w() %}{{ body }}{% endcomponent %}",
            "{% for i in [1, 2] %}{% filter upper %}{% for j in [3, 4] %}{% if j == 4 %}{% break %}{% endif %}{{ j }}{% endfor %}{% endfilter %}{% endfor %}",
            "{% for x in c %}{% if x %}{% break %}{% else %}{% continue %}{% endif %}{{ x }}{% endfor %}",
            "{% for x in c %}{{ x }}{% else %}{% break %}{% endfor %}",
            "{% break %}",
            "{% if a %}{% continue %}{% endif %}",
            "{% for x in c %}{% block k %}{{ x }}{% endblock %}{% endfor %}",
            "{% if a %}{% block k %}x{% endblock %}{% endif %}",
            "{% filter upper %}{% block k %}x{% endblock %}{% endfilter %}",
            "{% block k %}{% block k %}x{% endblock %}{% endblock %}",
            "x{% extends \"p\" %}",
            "{% component c(x: nosuchtype) %}{{ x }}{% endcomponent %}",
            "{% component c(x: string = 1, y: integer = \"s\", z = [1, 2], m = {\"k\": 1}) %}{{ x }}{{ y }}{{ z }}{{ m }}{% endcomponent %}{{ <c/> }}",
            "{% component c(x, x) %}{% endcomponent %}",
            "{% component c(body) %}{% endcomponent %}",
            "{% component c(a, ...rest) %}{{ rest }}{% endcomponent c %}{{ <c a={1} b={2} {...b}/> }}",
            "{% component c() %}{% block k %}{% endblock %}{% endcomponent %}",
            "{% component c() %}{% break %}{% endcomponent %}",
            "{% for x in c %}{% <w> %}{% break %}{% </w> %}{% endfor %}{% component w() %}{{ body }}{% endcomponent %}",
            "{{ a\u{2003}}}|{{\u{a0}b }}|{%\u{2003}if a %}x{% endif %}",
            "{{ range(start=9223372036854775800, end=9223372036854775807, step_by=5) }}{{ range(end=3, step_by=0) }}",
            "{{ range(start=0, end=10, step_by=4611686018427387904) | length }}",
            "{% set_global g = 1 %}{% for x in [1, 2] %}{% set_global g = g + x %}{% endfor %}{{ g }}{% include \"nowhere\" %}",
            "{{ a | nosuchfilter }}",
            "{{ a is nosuchtest }}",
            "{{ nosuchfn() }}",
            "{{ <nosuchcomponent/> }}",
            "{% component c() %}{{ 1 | nosuchfilter }}{% endcomponent %}",
        ];
        for (i, src) in cases.iter().enumerate() {
            protos.push((vec![(format!("r{i}.html"), src.to_string())], vec![(format!("r{i}.html"), None)]));
        }
    }
    {
        let exprs = [
            "{\"k\": a, ...b, \"z\": 1}", "[1, ...c, a]", "[x * 2 for x in c if x]", "[k ~ v for k, v in b]",
            "a[b]", "a[1:]", "a[::-1]", "c[a:b:1]", "c[a]", "a in c", "a < b", "a >= b", "a == b", "a != c", "a ** b", "-a", "a // b", "a % b",
            "a / b", "a * b", "a + b", "a - b", "a ~ b ~ c", "not a", "a and b or c", "a if b else c", "a?.b", "a?.b?.c", "a?[b]", "c?[1:]",
            "a | default(value=b)", "c | length", "c | first", "c | join(sep=a)", "a | str", "a | safe", "b | int", "a | abs", "c | reverse",
            "a is defined", "a is string", "b is odd", "a is containing(pat=b)", "range(end=b)", "range(start=a, end=b, step_by=a)", "b | keys", "b | values",
            "a | get(key=\"b\", default=c)", "a | replace(from=\"l\", to=b)", "a | truncate(length=b)", "a | split(pat=\"l\")", "a | round", "a | nth(n=b)",
            "c | pairs", "a | trim", "a | capitalize", "a | title", "a | wordcount", "a | indent(width=b)", "b | pluralize", "a | escape_html", "a | float", "c | last",
            "a is divisible_by(divisor=b)", "a is starting_with(pat=\"l\")", "a is number", "a is iterable", "a is none",
            "1.25 * a", "0.5 + b", "a < 2.5", "[1.5, 2.25] | last", "10000000000000000000 + a",
        ];
        for (i, ex) in exprs.iter().enumerate() {
            let tpls = vec![
                (format!("e{i}.html"), format!("[{{{{ {ex} }}}}]")),
                (format!("s{i}"), format!("{{% set w = {ex} %}}{{% if w %}}T{{% else %}}F{{% endif %}}{{% for q in [{ex}] %}}{{{{ loop.index }}}}{{{{ q is defined }}}}{{% endfor %}}")),
            ];
            protos.push((tpls, vec![(format!("e{i}.html"), None), (format!("s{i}"), None)]));
        }
    }
    let mut out = Vec::new();
    for (templates, entries) in protos {
        let runs = abc_runs(rng, n_adv);
        out.push(Set { stream: "fixed".into(), templates, delims: D::default(), suffixes: default_suffixes(), prefixes: vec![], entries, runs });
    }
    out
}

/// custom delimiters: ASCII pairs, doubled characters, two-byte scalars
fn delimiter_sets(rng: &mut Rng, n_adv: usize) -> Vec<Set> {
    let ds = [
        D::new("<%", "%>", "<<", ">>", "<#", "#>"),
        D::new("[[", "]]", "((", "))", "[#", "#]"),
        D::new("{%", "%}", "«", "»", "{#", "#}"),
        D::new("@@", "@@", "$$", "$$", "##", "##"),
        D::new("<%", "%>", "${", "}$", "<!", "!>"),
    ];
    let body = "a BS if a.b BE x VS a.b | upper VE y BS else BE VS- b VE BS endif BE CS note -CE  z BS- raw BE VS r VE BS endraw -BE  w BS for v in c BE VS v * 1.5 VE, BS endfor BE{{ a }}{% b %}<< c >>";
    let mut out = Vec::new();
    for d in ds {
        if !d.accepted() {
            continue;
        }
        let src = body
            .replace("BS", &d.bs)
            .replace("BE", &d.be)
            .replace("VS", &d.vs)
            .replace("VE", &d.ve)
            .replace("CS", &d.cs)
            .replace("CE", &d.ce);
        out.push(Set {
            stream: "delims".into(),
            templates: vec![("d.html".into(), src)],
            delims: d,
            suffixes: default_suffixes(),
            prefixes: vec![],
            entries: vec![e("d.html", None)],
            runs: abc_runs(rng, n_adv),
        });
    }
    out
}

/// registry shapes from `tplgen` summaries: random graphs with missing parents, extend / include
/// cycles, unknown references, duplicate components, orphan blocks, fallback prefixes
fn registry_sets(rng: &mut Rng, n: usize) -> Vec<Set> {
    let mut out = Vec::new();
    for i in 0..n {
        let k = 1 + rng.below(5);
        let use_prefix = rng.chance(1, 3);
        let prefixes: Vec<String> = if use_prefix { vec!["themes/a/".into(), "themes/b/".into()] } else { vec![] };
        let base_names: Vec<String> = (0..k).map(|j| format!("t{j}{}", if j % 2 == 0 { ".html" } else { "" })).collect();
        let names: Vec<String> = base_names
            .iter()
            .map(|b| if use_prefix && rng.chance(1, 2) { format!("{}{}", rng.pick(&["themes/a/", "themes/b/"]), b) } else { b.clone() })
            .collect();
        // what other templates write when they refer to a template: the base name (resolved by
        // prefix) or the full name; sometimes a name that does not exist
        let refer = |rng: &mut Rng| -> String {
            if rng.chance(1, 12) {
                "nowhere".to_string()
            } else {
                let j = rng.below(k);
                if rng.chance(1, 2) { base_names[j].clone() } else { names[j].clone() }
            }
        };
        let block_names = ["k", "j", "m"];
        // one set in three is a straight inheritance chain t0 → t1 → … in which most templates
        // define the same blocks (what the lineage walk and `super()` levels are about)
        let chain = i % 3 == 0;
        let mut tpls = Vec::new();
        for (j, name) in names.iter().enumerate() {
            let mut tp = TplS::new(name);
            tp.tag = format!("T{j}");
            if chain {
                if j + 1 < k {
                    tp.parent = Some(if rng.chance(1, 2) { base_names[j + 1].clone() } else { names[j + 1].clone() });
                }
            } else if rng.chance(2, 5) {
                tp.parent = Some(refer(rng));
            }
            let nb = if chain { 1 + rng.below(2) } else { rng.below(3) };
            for b in 0..nb {
                let nested = if b > 0 && rng.chance(1, 3) { Some(block_names[b - 1].to_string()) } else { None };
                tp.blocks.push(BlockS {
                    name: block_names[b].to_string(),
                    calls_super: rng.chance(1, 2),
                    nested_in: nested,
                    includes: if rng.chance(1, 4) { vec![refer(rng)] } else { vec![] },
                    in_filter: rng.chance(1, 5),
                    super_twice: false,
                    call_before_super: rng.chance(1, 6),
                    empty: false,
                    ..Default::default()
                });
            }
            if rng.chance(1, 3) {
                tp.top_includes.push(refer(rng));
            }
            if rng.chance(1, 3) {
                let cname = format!("c{}", rng.below(3));
                tp.comps.push(CompS { name: cname, includes: if rng.chance(1, 4) { vec![refer(rng)] } else { vec![] } });
            }
            if rng.chance(1, 3) {
                tp.comp_calls.push(format!("c{}", rng.below(4)));
            }
            if rng.chance(1, 15) {
                tp.bad_ref = Some(rng.pick(&["filter", "test", "function"]).to_string());
            }
            if rng.chance(1, 25) {
                tp.syntax_error = true;
            }
            tp.probe = rng.chance(1, 2);
            tpls.push(tp);
        }
        if chain {
            // an include of a template of the chain from inside a block is the KNOWN finding F5b
            // (render recursion through an inherited block): includes of a chain set go to a leaf
            for tp in tpls.iter_mut() {
                for b in tp.blocks.iter_mut() {
                    if !b.includes.is_empty() {
                        b.includes = vec!["leaf".to_string()];
                    }
                }
                if !tp.top_includes.is_empty() {
                    tp.top_includes = vec!["leaf".to_string()];
                }
                for c in tp.comps.iter_mut() {
                    if !c.includes.is_empty() {
                        c.includes = vec!["leaf".to_string()];
                    }
                }
            }
            let mut leaf = TplS::new("leaf");
            leaf.tag = "L".into();
            tpls.push(leaf);
        }
        let mut templates: Vec<(String, String)> = tpls.iter().map(|tp| (tp.name.clone(), tp.source())).collect();
        {
            // extends and include edges together form a cycle although neither kind does alone:
            // the set is accepted and its render recurses without bound — the KNOWN finding F5b,
            // exercised once below; do not spend the budget (and the culprit allowance) on it
            let probe = Set { stream: String::new(), templates: templates.clone(), delims: D::default(), suffixes: vec![], prefixes: prefixes.clone(), entries: vec![], runs: vec![] };
            if extends_include_cycle(&probe) && !graph_cycle(&probe, &["extends"]) && !graph_cycle(&probe, &["include"]) {
                for tp in tpls.iter_mut() {
                    tp.top_includes.clear();
                    for b in tp.blocks.iter_mut() {
                        b.includes.clear();
                    }
                    for c in tp.comps.iter_mut() {
                        c.includes.clear();
                    }
                }
                templates = tpls.iter().map(|tp| (tp.name.clone(), tp.source())).collect();
            }
        }
        let mut entries: Vec<(String, Option<String>)> = names.iter().map(|n| (n.clone(), None)).collect();
        for n in names.iter().take(2) {
            entries.push((n.clone(), Some("k".into())));
        }
        let runs = vec![
            Run { ctx: vec![("hv".into(), "s:3c623e2627".into())], global: vec![], kind: "generator".into() },
            Run { ctx: vec![], global: vec![], kind: "empty".into() },
        ];
        out.push(Set { stream: format!("registry.{}", if chain { "chain" } else if use_prefix { "prefixes" } else { "plain" }), templates, delims: D::default(), suffixes: if i % 2 == 0 { default_suffixes() } else { on_off("on") }, prefixes, entries, runs });
    }
    out
}

/// the F5b shape (known finding): following `extends` and `include` edges together leads back to a
/// template — an accepted set whose render can recurse without bound (`finalize_templates` only
/// refuses cycles of includes alone and cycles of extends alone)
fn extends_include_cycle(set: &Set) -> bool {
    graph_cycle(set, &["extends", "include"])
}

/// a cycle in the graph of the given tag kinds (`extends` / `include`) over the templates of the set
fn graph_cycle(set: &Set, kinds: &[&str]) -> bool {
    let names: Vec<&str> = set.templates.iter().map(|(n, _)| n.as_str()).collect();
    let resolve = |target: &str| -> Option<usize> {
        names.iter().position(|n| *n == target).or_else(|| set.prefixes.iter().find_map(|p| names.iter().position(|n| *n == format!("{p}{target}"))))
    };
    let mut edges: Vec<Vec<usize>> = vec![Vec::new(); names.len()];
    for (i, (_, src)) in set.templates.iter().enumerate() {
        for kw in kinds.iter().copied() {
            let mut rest = src.as_str();
            while let Some(pos) = rest.find(kw) {
                rest = &rest[pos + kw.len()..];
                let t = rest.trim_start();
                if let Some(q) = t.strip_prefix('"') {
                    if let Some(end) = q.find('"') {
                        if let Some(j) = resolve(&q[..end]) {
                            edges[i].push(j);
                        }
                    }
                }
            }
        }
    }
    // a cycle in the combined graph
    fn dfs(v: usize, edges: &[Vec<usize>], state: &mut [u8]) -> bool {
        state[v] = 1;
        for &w in &edges[v] {
            if state[w] == 1 || (state[w] == 0 && dfs(w, edges, state)) {
                return true;
            }
        }
        state[v] = 2;
        false
    }
    let mut state = vec![0u8; names.len()];
    (0..names.len()).any(|v| state[v] == 0 && dfs(v, &edges, &mut state))
}

fn walk(dir: &std::path::Path, out: &mut Vec<std::path::PathBuf>) {
    let Ok(rd) = std::fs::read_dir(dir) else { return };
    let mut v: Vec<_> = rd.filter_map(|e| e.ok()).map(|e| e.path()).collect();
    v.sort();
    for p in v {
        if p.is_dir() {
            walk(&p, out);
        } else {
            out.push(p);
        }
    }
}

/// the context of tera/src/snapshot_tests/rendering.rs `get_context()` (same data, built from JSON)
fn repo_context() -> Vec<(String, String)> {
    let j = serde_json::json!({
        "name": "Bob",
        "description": "<p>I should be escaped by default</p>",
        "some_html": "<p>Some HTML chars & more</p>",
        "age": 18,
        "some_bool": true,
        "one": 1,
        "product": {"name": "Moto G"},
        "vectors": [[0, 3, 6], [1, 4, 7]],
        "numbers": [1, 2, 3],
        "empty": [],
        "objects": [{"label": "Child", "parent": {"label": "Parent", "parent": null, "numbers": [1, 2, 3]}, "numbers": [1, 2, 3]}],
        "data": {"names": ["Tchoupi", "Pilou", "Fanny"], "weights": [50.6, 70.1]},
        "reviews": [{"title": "My review", "paragraphs": ["A", "B", "C"]}, {"title": "My review", "paragraphs": ["A", "B", "C"]}],
        "to": "&",
        "malicious": "<html>",
        "year_data": [{"id": 1, "year": 2015}, {"id": 2, "year": 2015}, {"id": 3, "year": 2016}, {"id": 4, "year": 2017}, {"id": 5, "year": 2018}, {"id": 6, "year": null}, {"id": 7, "year": 2018}],
    });
    let mut out: Vec<(String, String)> = j.as_object().unwrap().iter().map(|(k, v)| (k.clone(), encode(&tera::Value::from_serializable(v)))).collect();
    out.push(("bytes".into(), format!("y:{}", hex(b"hello"))));
    out
}

/// `$$ name` multi-template format of the repo's snapshot inputs
fn split_multi(body: &str) -> Vec<(String, String)> {
    let parts: Vec<_> = body.split("$$ ").skip(1).collect();
    let mut tpls = Vec::new();
    for part in parts {
        let mut chars = part.chars();
        let filename: String = chars.by_ref().take_while(|&c| c != '\n').collect();
        let content = chars.collect::<String>().trim().to_string();
        tpls.push((filename, content));
    }
    tpls
}

fn repo_sets(report: &mut Report) -> Vec<Set> {
    let repo = std::path::PathBuf::from(std::env::var("REPO_DIR").unwrap_or_else(|_| "/repo".into()));
    let mut files = Vec::new();
    for d in ["rendering_inputs", "build_errors"] {
        walk(&repo.join("tera/src/snapshot_tests").join(d), &mut files);
    }
    let ctx = repo_context();
    let mut out = Vec::new();
    for p in files {
        if p.extension().and_then(|e| e.to_str()).map(|e| e == "snap").unwrap_or(false) {
            continue;
        }
        let Ok(text) = std::fs::read_to_string(&p) else {
            report.count("repo.unreadable");
            continue;
        };
        let text = text.replace("\r\n", "\n");
        let fname = p.file_name().map(|s| s.to_string_lossy().to_string()).unwrap_or_default();
        let (templates, suffixes) = if text.contains("$$ ") {
            (split_multi(&text), vec![".html".to_string()])
        } else {
            (vec![(fname.clone(), text)], vec![".txt".to_string()])
        };
        if templates.is_empty() {
            continue;
        }
        let last = templates.last().unwrap().0.clone();
        out.push(Set {
            stream: "repo".into(),
            templates,
            delims: D::default(),
            suffixes,
            prefixes: vec![],
            entries: vec![(last, None)],
            runs: vec![Run { ctx: ctx.clone(), global: vec![], kind: "generator".into() }, Run { ctx: vec![], global: vec![], kind: "empty".into() }],
        });
    }
    out
}

/// Unicode case mapping: EVERY code point of the domain of the model's `upperCharU` / `lowerCharU`
/// (Model/PipelineBuiltins.lean: ASCII, Latin-1, General Punctuation, Currency Symbols, CJK Symbols
/// .. Katakana, CJK Unified Ideographs, Specials, U+1F300..U+1FAFF) through `upper` and `lower`, 32 code
/// points per text — the trusted std table of the model against the real `str::to_uppercase` /
/// `str::to_lowercase`
fn case_sets() -> Vec<Set> {
    let ranges: [(u32, u32); 7] = [(0x00, 0xFF), (0x2000, 0x206F), (0x20A0, 0x20CF), (0x3000, 0x30FF), (0x4E00, 0x9FFF), (0xFFF0, 0xFFFF), (0x1F300, 0x1FAFF)];
    let mut runs = Vec::new();
    for (lo, hi) in ranges {
        let cps: Vec<char> = (lo..=hi).filter_map(char::from_u32).collect();
        for chunk in cps.chunks(32) {
            let text: String = chunk.iter().collect();
            runs.push(Run { ctx: vec![("s".to_string(), format!("s:{}", hex(text.as_bytes())))], global: vec![], kind: "case".into() });
        }
    }
    // 40 runs per set keeps a batch small
    runs.chunks(40)
        .map(|c| Set {
            stream: "case".into(),
            templates: t(&[("case.txt", "{{ s | upper }}|{{ s | lower }}|{% filter lower %}{{ s | upper }}{% endfilter %}")]),
            delims: D::default(),
            suffixes: default_suffixes(),
            prefixes: vec![],
            entries: vec![e("case.txt", None)],
            runs: c.to_vec(),
        })
        .collect()
}

/// whitespace-control variants of existing sets (default delimiters): `-` markers on tag starts and
/// ends, ASCII / Unicode whitespace and line breaks around tags, comments with and without
/// markers, raw blocks with every marker combination — what the whitespace filter and the raw /
/// comment scanning of the lexer decide (C08), end to end
fn wsmark_sets(rng: &mut Rng, base: &[Set], n: usize) -> Vec<Set> {
    let mut out = Vec::new();
    if base.is_empty() {
        return out;
    }
    let ws = [" ", "\n", "\t ", "\u{2003}", "\u{a0}\n", "  \r\n", "\u{85}", " \u{c} "];
    let comments = ["{# c #}", "{#- c -#}", "{#--#}", "{#-#}", "{# - #}", "{#- é -#}", "{# #}"];
    let raws = ["{% raw %}R{% endraw %}", "{%- raw -%} R {{ y }} {%- endraw -%}", "{% raw -%}  R  {%- endraw %}", "{% raw %}{% endraw %}", "{%raw%} {% x %} {%endraw%}", "{% raw %} \u{2003}é {%- endraw %}"];
    for _ in 0..n {
        let mut s = base[rng.below(base.len())].clone();
        if s.delims != D::default() {
            continue;
        }
        s.stream = format!("wsmarks.{}", s.stream.split('.').next().unwrap_or(""));
        for (_, src) in s.templates.iter_mut() {
            let chars: Vec<char> = src.chars().collect();
            let mut o = String::new();
            let mut i = 0;
            while i < chars.len() {
                let two: String = chars[i..(i + 2).min(chars.len())].iter().collect();
                if two == "{{" || two == "{%" {
                    if rng.chance(1, 3) {
                        o.push_str(*rng.pick(&ws));
                    }
                    if rng.chance(1, 8) {
                        o.push_str(*rng.pick(&comments));
                    }
                    if rng.chance(1, 12) {
                        o.push_str(*rng.pick(&raws));
                    }
                    if rng.chance(1, 4) {
                        o.push_str(*rng.pick(&ws));
                    }
                    o.push_str(&two);
                    if rng.chance(1, 4) && chars.get(i + 2) != Some(&'-') {
                        o.push('-');
                    }
                    i += 2;
                } else if two == "}}" || two == "%}" {
                    if rng.chance(1, 4) && !o.ends_with('-') {
                        o.push('-');
                    }
                    o.push_str(&two);
                    if rng.chance(1, 3) {
                        o.push_str(*rng.pick(&ws));
                    }
                    if rng.chance(1, 10) {
                        o.push_str(*rng.pick(&comments));
                    }
                    i += 2;
                } else {
                    o.push(chars[i]);
                    i += 1;
                }
            }
            *src = o;
        }
        s.runs.truncate(3);
        out.push(s);
    }
    out
}

/// truncations / deletions / duplications / delimiter injections of existing sets: what the add-time
/// error paths (lexer errors, syntax errors, dangling references) see
fn malformed_sets(rng: &mut Rng, base: &[Set], n: usize) -> Vec<Set> {
    let mut out = Vec::new();
    if base.is_empty() {
        return out;
    }
    let frags = ["{{", "}}", "{%", "%}", "{#", "#}", "\"", "'", "-", "{% raw %}", "{% endraw %}", "{% endif %}", "{% endfor %}", "(", "]", ".", "é", " ", "|", "1.", "99999999999999999999", "{% extends \"x\" %}", "{% include \"nowhere\" %}", "{{ super() }}", "{% break %}", "{% continue %}", "\u{2003}", "\u{a0}", "\u{85}", "{% filter upper %}", "{% endfilter %}", "{% set w %}", "{% endset %}", "\\"];
    for _ in 0..n {
        let mut s = base[rng.below(base.len())].clone();
        s.stream = format!("malformed.{}", s.stream.split('.').next().unwrap_or(""));
        let ti = rng.below(s.templates.len());
        let src = s.templates[ti].1.clone();
        let chars: Vec<char> = src.chars().collect();
        if chars.is_empty() {
            continue;
        }
        let cut = |rng: &mut Rng| rng.below(chars.len() + 1);
        let new: String = match rng.below(4) {
            0 => chars[..cut(rng)].iter().collect(),
            1 => {
                let a = cut(rng);
                let b = (a + 1 + rng.below(6)).min(chars.len());
                chars[..a].iter().chain(chars[b..].iter()).collect()
            }
            2 => {
                let a = cut(rng);
                let b = (a + 1 + rng.below(8)).min(chars.len());
                chars[..b].iter().chain(chars[a..].iter()).collect()
            }
            _ => {
                let a = cut(rng);
                let f = rng.pick(&frags);
                chars[..a].iter().collect::<String>() + f + &chars[a..].iter().collect::<String>()
            }
        };
        s.templates[ti].1 = new;
        s.runs.truncate(3);
        out.push(s);
    }
    out
}

// ------------------------------------------------------------------------------ the real engine

/// class of a render error, from its message (same classes as `showRErr` in Driver/Pipeline.lean)
fn classify(msg: &str) -> &'static str {
    let has = |s: &str| msg.contains(s);
    if msg.starts_with("Variable `") && has("is not defined") {
        "undefvar"
    } else if msg.starts_with("Field `") && has("is not defined") {
        "undeffield"
    } else if has("Tried to render a variable that is not defined") {
        "undefrender"
    } else if has("Cannot index into an undefined value") || has("Index expression is undefined") || has("index must be an integer, got") || has("Map keys must be strings") {
        "index"
    } else if has("Cannot slice an undefined value")
        || has("Slice start is undefined")
        || has("Slice end is undefined")
        || has("Slice step is undefined")
        || has("must be an integer, got")
        || has("Slicing can only be used")
        || has("Slicing step cannot be 0")
    {
        "slice"
    } else if has("Cannot compare `") {
        "notcomparable"
    } else if has("out of range for integer arithmetic") {
        "operandrange"
    } else if has("divide by 0") {
        "divzero"
    } else if has("Exponent") && has("out of range") {
        "exprange"
    } else if has("Unable to perform") || has("would overflow") {
        "overflow"
    } else if has("can only be done on numbers") || has("requires both operands to be numbers") || has("Only numbers can be") {
        "notnumber"
    } else if has("Iteration not possible") || has("Key/value iteration") {
        "iteration"
    } else if has("`in` cannot be used") {
        "incontainer"
    } else if has("Spread operator requires") {
        "spread"
    } else if has("Not a valid key type") {
        "mapkey"
    } else if has("super() called outside of a block") {
        "superoutside"
    } else if has("Tried to use super() in the top level block") {
        "supertop"
    } else if has("Unknown argument(s)") || (has("Argument `") && has("missing.")) || has("Component argument `") {
        "binding"
    } else if has("Maximum render recursion depth") {
        "recursion"
    } else if has("has no block lineage") {
        "nolineage"
    } else if msg.starts_with("Block `") && has("not found in template") {
        "blocknotfound"
    } else if has("Template") && has("not found") {
        "notfound"
    } else {
        "call"
    }
}

fn add_class(e: &tera::Error) -> String {
    match e.kind() {
        tera::ErrorKind::MissingParent { .. } => "registry missingparent".into(),
        tera::ErrorKind::CircularExtend { .. } => "registry circularextend".into(),
        tera::ErrorKind::CircularInclude { .. } => "registry circularinclude".into(),
        tera::ErrorKind::Msg(_) => "registry msg".into(),
        tera::ErrorKind::TemplateNotFound(_) => "registry notfound".into(),
        tera::ErrorKind::SyntaxError(_) => "syntax".into(),
        other => format!("other {}", format!("{other:?}").split([' ', '(', '{']).next().unwrap_or("")),
    }
}

/// `Ok(engine)` | `Err("config …" | "<add class>" | "panic …")`
fn build_engine(set: &Set) -> Result<Tera, String> {
    match catch(std::panic::AssertUnwindSafe(|| {
        let mut tera = Tera::default();
        if set.delims != D::default() {
            tera.set_delimiters(set.delims.to_delimiters()).map_err(|e| format!("config delimiters {e}"))?;
        }
        tera.autoescape_on(set.suffixes.clone());
        if !set.prefixes.is_empty() {
            tera.set_fallback_prefixes(set.prefixes.clone()).map_err(|e| format!("config prefixes {e}"))?;
        }
        tera.add_raw_templates(set.templates.clone()).map_err(|e| add_class(&e))?;
        Ok(tera)
    })) {
        Ok(r) => r,
        Err(p) => Err(format!("panic {}", p.replace('\n', " "))),
    }
}

/// registration of the set succeeds — asked of a child process (the set is one that did not come
/// back: nothing about it may run in this process)
fn real_accepts(set: &Set, id: usize) -> bool {
    let mut item = set.to_json();
    item["mode"] = serde_json::json!("addonly");
    let b = Batch { common: serde_json::json!({"limit_secs": 150}), items: vec![item] };
    let r = run_batch(CHILD_FLAG, 400_000 + id, &b, Duration::from_secs(170), 0);
    r.results.first().map(|(_, lines)| lines.iter().any(|l| l == "A ok")).unwrap_or(false)
}

fn context_of(v: &[(String, String)]) -> Result<Context, String> {
    let mut ctx = Context::new();
    for (k, w) in v {
        ctx.insert_value(k.clone(), decode(w).ok_or_else(|| format!("bad wire value {w}"))?);
    }
    Ok(ctx)
}

fn real_outcome(tera: &mut Tera, entry: &(String, Option<String>), run: &Run) -> (String, Option<(usize, usize, usize)>) {
    let ctx = match context_of(&run.ctx) {
        Ok(c) => c,
        Err(e) => return (format!("harness-error {e}"), None),
    };
    let glob = match context_of(&run.global) {
        Ok(c) => c,
        Err(e) => return (format!("harness-error {e}"), None),
    };
    *tera.global_context() = glob;
    let _ = hooks::take_final_stacks();
    let tera: &Tera = tera;
    let r = catch(std::panic::AssertUnwindSafe(|| match &entry.1 {
        None => tera.render(&entry.0, &ctx),
        Some(b) => tera.render_block(&entry.0, b, &ctx),
    }));
    let stacks = hooks::take_final_stacks();
    match r {
        Err(p) => (format!("panic {}", p.replace(['\n', ';'], " ")), None),
        Ok(Ok(text)) => (format!("ok {}", hex(text.as_bytes())), stacks),
        Ok(Err(e)) => {
            let msg = match e.kind() {
                tera::ErrorKind::RenderingError(r) => r.message().to_string(),
                _ => e.to_string(),
            };
            (format!("err {}", classify(&msg)), None)
        }
    }
}

fn name_tok(s: &str) -> String {
    format!("n:{}", hex(s.as_bytes()))
}

fn names_wire(tag: &str, v: &[String]) -> String {
    let mut s = format!("{tag}{}", v.len());
    for n in v {
        s.push(' ');
        s.push_str(&name_tok(n));
    }
    s
}

fn bindings_wire(tag: &str, v: &[(String, String)]) -> String {
    let mut s = format!("{tag}{}", v.len());
    for (k, w) in v {
        s.push_str(&format!(" {} {}", name_tok(k), w));
    }
    s
}

fn delims_wire(d: &D) -> String {
    let mut s = String::from("D");
    for f in d.fields() {
        s.push_str(&format!(" h:{}", hex(f.as_bytes())));
    }
    s
}

fn builtin_names() -> (Vec<String>, Vec<String>, Vec<String>) {
    hooks::registered_builtins(&Tera::default())
}

fn config_wire(set: &Set, reg: &(Vec<String>, Vec<String>, Vec<String>)) -> String {
    format!(
        "{} {} {} {} {} {}",
        delims_wire(&set.delims),
        names_wire("AE", &set.suffixes),
        names_wire("PF", &set.prefixes),
        names_wire("F", &reg.0),
        names_wire("TS", &reg.1),
        names_wire("FN", &reg.2)
    )
}

fn pipe_request(set: &Set, reg: &(Vec<String>, Vec<String>, Vec<String>), entries: &[(String, Option<String>)], runs: &[Run]) -> String {
    let mut s = format!("pipe {} S{}", config_wire(set, reg), set.templates.len());
    for (n, src) in &set.templates {
        s.push_str(&format!(" {} h:{}", name_tok(n), hex(src.as_bytes())));
    }
    s.push_str(&format!(" E{}", entries.len()));
    for (n, b) in entries {
        match b {
            None => s.push_str(&format!(" {} B0", name_tok(n))),
            Some(b) => s.push_str(&format!(" {} B1 {}", name_tok(n), name_tok(b))),
        }
    }
    s.push_str(&format!(" R{}", runs.len()));
    for r in runs {
        s.push(' ');
        s.push_str(&bindings_wire("X", &r.ctx));
        s.push(' ');
        s.push_str(&bindings_wire("G", &r.global));
    }
    s
}

/// every span of an instruction word `Kind:arg@sp;sp;…` replaced by `s` (presence and count kept)
fn norm_spans(word: &str) -> String {
    match word.rsplit_once('@') {
        Some((head, spans)) if head.contains(':') => {
            let n = if spans.is_empty() { 0 } else { spans.split(';').count() };
            format!("{head}@{}", vec!["s"; n].join(";"))
        }
        _ => word.to_string(),
    }
}

fn norm_env(wire: &str) -> String {
    wire.split_whitespace().map(norm_spans).collect::<Vec<_>>().join(" ")
}

/// the payload of `LoadConst` dropped (raw listings print it as `Debug` text)
fn norm_raw_word(word: &str) -> String {
    let w = norm_spans(word);
    if let Some(rest) = w.strip_prefix("LoadConst:") {
        let spans = rest.rsplit_once('@').map(|x| x.1).unwrap_or("");
        format!("LoadConst:@{spans}")
    } else {
        w
    }
}

/// child side, one set: "A <add outcome>", "V <env wire>", per (entry, run) "O <e> <r> <stacks> <outcome>"
fn child_each(item: &serde_json::Value) -> Vec<String> {
    if item["mode"].as_str() == Some("stages") {
        return child_stages(item);
    }
    let set = Set::from_json(item);
    let mut tera = match build_engine(&set) {
        Ok(t) => t,
        Err(e) => return vec![format!("A {}", e.lines().next().unwrap_or(""))],
    };
    if item["mode"].as_str() == Some("addonly") {
        return vec!["A ok".to_string()];
    }
    let env_wire = match catch(std::panic::AssertUnwindSafe(|| hooks::vm_env_wire(&tera))) {
        Ok(w) => w,
        Err(p) => return vec![format!("A hook-panic {p}")],
    };
    let mut out = vec!["A ok".to_string(), format!("V {}", norm_env(&env_wire))];
    for (ei, entry) in set.entries.iter().enumerate() {
        for (ri, run) in set.runs.iter().enumerate() {
            let (o, st) = real_outcome(&mut tera, entry, run);
            let st = match st {
                Some((a, b, c)) => format!("{a},{b},{c}"),
                None => "-".to_string(),
            };
            out.push(format!("O {ei} {ri} {st} {o}"));
        }
    }
    out
}

/// child side, stage outputs of the REAL engine for one source:
/// "TOK …", "AST ok … | err", "RAW …"
fn child_stages(item: &serde_json::Value) -> Vec<String> {
    let d = D::from_json(&item["delims"]).unwrap_or_default();
    let src = item["src"].as_str().unwrap_or("").to_string();
    let name = item["name"].as_str().unwrap_or("").to_string();
    let mut out = Vec::new();
    match catch(std::panic::AssertUnwindSafe(|| hooks::tokens_wire(&src, d.to_delimiters()))) {
        Ok(toks) => out.push(format!("TOK {}", toks.join(" "))),
        Err(p) => out.push(format!("TOK panic {p}")),
    }
    match catch(std::panic::AssertUnwindSafe(|| hooks::template_wire(&src, d.to_delimiters()))) {
        Ok(Ok(w)) => out.push(format!("AST ok {w}")),
        Ok(Err(_)) => out.push("AST err".to_string()),
        Err(p) => out.push(format!("AST panic {p}")),
    }
    match catch(std::panic::AssertUnwindSafe(|| hooks::raw_chunks_wire(&name, &src, d.to_delimiters()))) {
        Ok(Ok(chunks)) => {
            let txt: Vec<String> = chunks.iter().map(|(n, c)| format!("{} {}", chunk_label(n), c.iter().map(|w| norm_raw_word(w)).collect::<Vec<_>>().join(" ")).trim().to_string()).collect();
            out.push(format!("RAW {}", txt.join(" ; ")));
        }
        Ok(Err(_)) => out.push("RAW -".to_string()),
        Err(p) => out.push(format!("RAW panic {p}")),
    }
    out
}

/// `block:<name>` → `block:<hex name>` (the model driver's labels)
fn chunk_label(n: &str) -> String {
    if let Some(b) = n.strip_prefix("block:") {
        format!("block:{}", hex(b.as_bytes()))
    } else if let Some(c) = n.strip_prefix("component:") {
        format!("component:{}", hex(c.as_bytes()))
    } else {
        n.to_string()
    }
}

// ------------------------------------------------------------------------------ comparison

fn show(o: &str) -> String {
    match o.strip_prefix("ok ") {
        Some(h) => format!("ok {:?}", String::from_utf8_lossy(&unhex(h).unwrap_or_default())),
        None => o.to_string(),
    }
}

/// `str`'s `{:?}` (strings inside arrays / maps) escapes non-ASCII characters that are not printable
/// (Unicode spaces such as U+00A0, U+2003, format characters …) as `\u{..}`; Model/Format.lean
/// documents that it models `{:?}` only up to U+009F and prints everything above as is.  Rendered
/// text with such escapes undone (any number of backslashes before `u{hex}`, value ≥ U+00A0), for
/// telling that documented limit of the value-formatting model from a real disagreement.
fn undo_debug_unicode_escapes(hex_text: &str) -> Option<String> {
    let bytes = unhex(hex_text)?;
    let text = String::from_utf8(bytes).ok()?;
    let chars: Vec<char> = text.chars().collect();
    let mut out = String::new();
    let mut i = 0;
    while i < chars.len() {
        if chars[i] == '\\' {
            let mut j = i;
            while j < chars.len() && chars[j] == '\\' {
                j += 1;
            }
            if j + 2 < chars.len() && chars[j] == 'u' && chars[j + 1] == '{' {
                let mut k = j + 2;
                let mut v: u32 = 0;
                while k < chars.len() && chars[k].is_ascii_hexdigit() && k - (j + 2) < 6 {
                    v = v * 16 + chars[k].to_digit(16).unwrap_or(0);
                    k += 1;
                }
                if k < chars.len() && chars[k] == '}' && k > j + 2 && v >= 0xa0 {
                    if let Some(c) = char::from_u32(v) {
                        out.push(c);
                        i = k + 1;
                        continue;
                    }
                }
            }
            for _ in i..j {
                out.push('\\');
            }
            i = j;
        } else {
            out.push(chars[i]);
            i += 1;
        }
    }
    Some(out)
}

/// equal once the `\u{..}` escapes of non-printable non-ASCII characters are undone on both sides
fn agree_modulo_debug_escapes(real: &str, model: &str) -> bool {
    match (real.strip_prefix("ok "), model.strip_prefix("ok ")) {
        (Some(r), Some(m)) => match (undo_debug_unicode_escapes(r), undo_debug_unicode_escapes(m)) {
            (Some(a), Some(b)) => a == b && r != m,
            _ => false,
        },
        _ => false,
    }
}

fn comparable(model: &str) -> bool {
    !(model.starts_with("unmodelled") || model == "fuel")
}

struct ModelAnswer {
    add: String,
    env: String,
    outs: Vec<String>,
}

fn parse_answer(a: &str) -> Option<ModelAnswer> {
    let mut parts = a.splitn(3, " | ");
    let add = parts.next()?.strip_prefix("A ")?.to_string();
    let env = parts.next()?.strip_prefix("ENV ")?.to_string();
    let o = parts.next()?;
    let o = o.strip_prefix("O").unwrap_or(o).trim();
    let outs = if o.is_empty() { vec![] } else { o.split(';').map(|s| s.trim().to_string()).collect() };
    Some(ModelAnswer { add, env, outs })
}

/// the class part of the model's add outcome, in the vocabulary of `add_class`
fn model_add_class(add: &str) -> String {
    if add.starts_with("syntax") { "syntax".to_string() } else { add.to_string() }
}

#[derive(Default)]
struct RealObs {
    add: String,
    env: String,
    /// (entry, run) → (outcome, stacks)
    outs: BTreeMap<(usize, usize), (String, String)>,
}

fn parse_real(lines: &[String]) -> RealObs {
    let mut r = RealObs::default();
    for l in lines {
        if let Some(a) = l.strip_prefix("A ") {
            r.add = a.to_string();
        } else if let Some(v) = l.strip_prefix("V ") {
            r.env = v.to_string();
        } else if let Some(rest) = l.strip_prefix("O ") {
            let mut it = rest.splitn(4, ' ');
            let e: usize = it.next().unwrap_or("0").parse().unwrap_or(0);
            let ri: usize = it.next().unwrap_or("0").parse().unwrap_or(0);
            let stacks = it.next().unwrap_or("-").to_string();
            let real = it.next().unwrap_or("").trim().to_string();
            r.outs.insert((e, ri), (real, stacks));
        }
    }
    r
}

/// a call with two or more keyword arguments somewhere in the set: `compile_kwargs` iterates a
/// `HashMap`, so the order of the kwarg code inside the chunk is not determined by the source
fn has_multi_kwargs(real_ast: &str) -> bool {
    real_ast.split_whitespace().any(|w| w.strip_prefix('K').and_then(|n| n.parse::<u32>().ok()).map(|n| n >= 2).unwrap_or(false))
}

/// some template of the set (all of them parsed in the child already) has such a call
fn set_has_multi_kwargs(set: &Set) -> bool {
    set.templates.iter().any(|(_, src)| match catch(std::panic::AssertUnwindSafe(|| hooks::template_wire(src, set.delims.to_delimiters()))) {
        Ok(Ok(w)) => has_multi_kwargs(&w),
        _ => false,
    })
}

/// one set on both sides, in this process (replay / localisation / shrinking)
fn eval_set(set: &Set, exe: &std::path::Path, reg: &(Vec<String>, Vec<String>, Vec<String>)) -> Result<(RealObs, ModelAnswer), String> {
    let real = parse_real(&child_each(&set.to_json()));
    let req = pipe_request(set, reg, &set.entries, &set.runs);
    let ans = driver::run_batch(exe, std::slice::from_ref(&req))?.pop().unwrap_or_default();
    let model = parse_answer(&ans).ok_or_else(|| format!("model answered: {}", ans.chars().take(200).collect::<String>()))?;
    Ok((real, model))
}

/// first difference between two word lists, for messages
fn first_diff(a: &str, b: &str) -> String {
    let (wa, wb): (Vec<&str>, Vec<&str>) = (a.split_whitespace().collect(), b.split_whitespace().collect());
    for i in 0..wa.len().max(wb.len()) {
        let (x, y) = (wa.get(i).copied().unwrap_or("<end>"), wb.get(i).copied().unwrap_or("<end>"));
        if x != y {
            let ctx = |w: &Vec<&str>| w[i.saturating_sub(3)..(i + 1).min(w.len())].join(" ");
            return format!("word {i}: real …{} / model …{}", ctx(&wa), ctx(&wb));
        }
    }
    "no difference".to_string()
}

struct Located {
    stage: String,
    detail: String,
    tolerated_kwargs: bool,
}

/// ask both sides for their stage outputs, template by template, and name the first stage that
/// differs (the engine side runs in a child process)
fn localise(set: &Set, exe: &std::path::Path, id: usize) -> Located {
    let mut multi_kwargs = false;
    for (name, src) in &set.templates {
        let item = serde_json::json!({"mode": "stages", "delims": set.delims.to_json(), "src": src, "name": name});
        let b = Batch { common: serde_json::json!({"limit_secs": 60}), items: vec![item] };
        let r = run_batch(CHILD_FLAG, 300_000 + id, &b, Duration::from_secs(90), 0);
        let Some((_, lines)) = r.results.first() else {
            return Located { stage: "real-stage-hooks".into(), detail: format!("the stage hooks did not come back on template {name:?}"), tolerated_kwargs: false };
        };
        let get = |p: &str| lines.iter().find_map(|l| l.strip_prefix(p)).unwrap_or("").trim().to_string();
        let (rtok, rast, rraw) = (get("TOK "), get("AST "), get("RAW "));
        if has_multi_kwargs(&rast) {
            multi_kwargs = true;
        }
        let req = format!("stages {} h:{}", delims_wire(&set.delims), hex(src.as_bytes()));
        let ans = match driver::run_batch(exe, std::slice::from_ref(&req)) {
            Ok(mut v) => v.pop().unwrap_or_default(),
            Err(e) => return Located { stage: "driver".into(), detail: e, tolerated_kwargs: false },
        };
        let sect = |p: &str| ans.split(" | ").find_map(|s| s.strip_prefix(p)).unwrap_or("").trim().to_string();
        let (mtok, mast, mraw) = (sect("TOK "), sect("AST "), sect("RAW "));
        if sect("SHAPED ") == "0" {
            return Located { stage: "lexer→parser adapter (token stream not `shaped`)".into(), detail: format!("template {name:?}"), tolerated_kwargs: false };
        }
        if rtok != mtok {
            return Located { stage: "lexer+whitespace-filter (tokens)".into(), detail: format!("template {name:?}: {}", first_diff(&rtok, &mtok)), tolerated_kwargs: false };
        }
        let rast_c = if rast.starts_with("ok") { rast.clone() } else { rast.split(' ').next().unwrap_or("").to_string() };
        let mast_c = if mast.starts_with("ok") { mast.clone() } else { mast.split(' ').next().unwrap_or("").to_string() };
        if rast_c != mast_c {
            return Located { stage: "parser (AST)".into(), detail: format!("template {name:?}: {}", first_diff(&rast_c, &mast_c)), tolerated_kwargs: false };
        }
        if sect("SCOPED ") == "0" {
            return Located { stage: "parser→compiler bridge (AST not `templateScoped`)".into(), detail: format!("template {name:?}"), tolerated_kwargs: false };
        }
        if rast.starts_with("ok") {
            // model RAW: chunks then call tables; compare the chunk sections only
            let mchunks: Vec<String> = mraw
                .split(" ; ")
                .filter(|s| s.starts_with("main") || s.starts_with("block:") || s.starts_with("component:"))
                .map(|s| s.split_whitespace().map(norm_raw_word).collect::<Vec<_>>().join(" "))
                .collect();
            let mtxt = mchunks.join(" ; ");
            if rraw != mtxt {
                if multi_kwargs {
                    continue;
                }
                return Located { stage: "compiler (raw chunks)".into(), detail: format!("template {name:?}: {}", first_diff(&rraw, &mtxt)), tolerated_kwargs: false };
            }
        }
    }
    Located { stage: "after-compile".into(), detail: String::new(), tolerated_kwargs: multi_kwargs }
}

/// the distinct chunks (`CH n:<name> I<k> <instr>*k`) of an environment wire
fn chunk_set(env: &str) -> std::collections::BTreeSet<String> {
    let w: Vec<&str> = env.split_whitespace().collect();
    let mut out = std::collections::BTreeSet::new();
    let mut i = 0;
    while i < w.len() {
        if w[i] == "CH" && i + 2 < w.len() {
            let k: usize = w[i + 2].strip_prefix('I').and_then(|n| n.parse().ok()).unwrap_or(0);
            let end = (i + 3 + k).min(w.len());
            out.insert(w[i..end].join(" "));
            i = end;
        } else {
            i += 1;
        }
    }
    out
}

/// raw chunks agree but the environments differ: the optimiser (some stored chunk differs) or
/// finalize (same chunks, different parents / lineage / tables / flags)
fn after_compile_stage(real_env: &str, model_env: &str) -> &'static str {
    if chunk_set(real_env) != chunk_set(model_env) {
        "optimiser (a stored chunk differs; raw chunks agree)"
    } else {
        "finalize (same stored chunks; parents / lineage / component table / flags differ)"
    }
}

fn replay_json(set: &Set, stage: &str, real: &str, model: &str) -> serde_json::Value {
    serde_json::json!({
        "property": property(),
        "harness_bin": "cpipe",
        "detail": {"stage": stage},
        "case": set.to_json(),
        "real": real,
        "model": model,
        "rerun": "harness/target/release/cpipe --replay <this file>",
    })
}

fn replay_case(case: &serde_json::Value, exe: &std::path::Path, reg: &(Vec<String>, Vec<String>, Vec<String>)) {
    let set = Set::from_json(case);
    for (n, s) in &set.templates {
        println!("template {n:?}: {s}");
    }
    println!("delimiters {:?} autoescape suffixes {:?} prefixes {:?}", set.delims.fields(), set.suffixes, set.prefixes);
    match eval_set(&set, exe, reg) {
        Err(e) => println!("could not evaluate: {e}"),
        Ok((real, model)) => {
            println!("add: real {} / model {}  {}", real.add, model.add, if real.add == model_add_class(&model.add) { "AGREE" } else { "DISAGREE" });
            if real.add == "ok" && model.add == "ok" {
                println!("environment: {}", if real.env == model.env { "EQUAL".to_string() } else { format!("DIFFERENT — {}", first_diff(&real.env, &model.env)) });
                for (ei, entry) in set.entries.iter().enumerate() {
                    for (ri, run) in set.runs.iter().enumerate() {
                        let r = real.outs.get(&(ei, ri)).map(|x| x.0.clone()).unwrap_or_default();
                        let m = model.outs.get(ei * set.runs.len() + ri).cloned().unwrap_or_default();
                        println!("entry {entry:?} ctx {:?} global {:?}", run.ctx, run.global);
                        println!("  real : {}", show(&r));
                        println!("  model: {}", show(&m));
                        println!("  {}", if !comparable(&m) { "NOT COMPARED (outside the model)" } else if r == m { "AGREE" } else { "DISAGREE" });
                    }
                }
            }
            let loc = localise(&set, exe, 0);
            let stage = if loc.stage == "after-compile" && real.env != model.env { after_compile_stage(&real.env, &model.env).to_string() } else { loc.stage.clone() };
            println!("stage localisation: {stage} {}", loc.detail);
        }
    }
}

fn run_replay(path: &str, exe: &std::path::Path, reg: &(Vec<String>, Vec<String>, Vec<String>)) {
    let text = std::fs::read_to_string(path).expect("replay file");
    let j: serde_json::Value = serde_json::from_str(&text).expect("replay json");
    let mut cases: Vec<&serde_json::Value> = Vec::new();
    if j["case"].is_object() {
        cases.push(&j["case"]);
    }
    if j["replay"]["case"].is_object() {
        cases.push(&j["replay"]["case"]);
    }
    if let Some(l) = j["no_longer_checks"].as_array() {
        for x in l {
            if x["case"]["case"].is_object() {
                cases.push(&x["case"]["case"]);
            }
        }
    }
    if cases.is_empty() {
        println!("no cpipe case in {path}");
        return;
    }
    for case in cases {
        replay_case(case, exe, reg);
    }
}

fn main() {
    quiet_panics();
    let args: Vec<String> = std::env::args().collect();
    if let Some(i) = args.iter().position(|a| a == CHILD_FLAG) {
        child_main(&args[i + 1], &args[i + 2], 20, |_| (), |_, item| child_each(item));
    }
    // the few engine calls of the parent (parsing a source that a child already parsed, to look
    // for multi-kwarg calls) run on a generous stack
    let h = std::thread::Builder::new().stack_size(1 << 30).spawn(parent_main).expect("spawn");
    let _ = h.join();
}

fn parent_main() {
    let args: Vec<String> = std::env::args().collect();
    let env = Env::from_env();
    let exe = driver::driver_path(&env.verif_dir, "drv_pipeline");
    let reg = builtin_names();
    if let Some(p) = replay_path() {
        run_replay(&p, &exe, &reg);
        cleanup();
        return;
    }
    let t0 = Instant::now();
    let threads = std::thread::available_parallelism().map(|n| n.get()).unwrap_or(4).min(16);
    let mut report = Report::new(property());
    report.rule = "a (template set, entry, context) that the whole-engine model took from SOURCE TEXT to a comparable render outcome (not `unmodelled`), or a set both sides refuse at add time".into();
    let mut rng = Rng::new(env.seed ^ 0x7069_7065);

    // ---- cases
    let mut ev_hist = BTreeMap::new();
    let mut sets = fixed_sets(&mut rng, env.budget(6, 20));
    sets.extend(delimiter_sets(&mut rng, env.budget(4, 10)));
    sets.extend(repo_sets(&mut report));
    sets.extend(registry_sets(&mut rng, env.budget(3000, 40000)));
    sets.extend(bcgen_sets(&mut rng, env.budget(6, 30), env.budget(3000, 40000), env.budget(3, 6), env.budget(3, 8)));
    sets.extend(evgen_sets(&mut rng, env.budget(14000, 250000), env.budget(2, 5), &mut ev_hist));
    // the known finding F5b once (B: x{include A}; A extends B: x{super()}); it is a finding of C07
    // / C11 (the RENDER does not come back; registering is fine), so not when run for C06
    if property() == "C07" {
    sets.push(Set {
        stream: "known.F5b".into(),
        templates: t(&[("B", "{% block x %}{% include \"A\" %}{% endblock %}"), ("A", "{% extends \"B\" %}{% block x %}{{ super() }}{% endblock %}")]),
        delims: D::default(),
        suffixes: default_suffixes(),
        prefixes: vec![],
        entries: vec![e("A", None)],
        runs: vec![Run { ctx: vec![], global: vec![], kind: "empty".into() }],
    });
    }
    let n_base = sets.len() - if property() == "C07" { 1 } else { 0 };
    let malformed = malformed_sets(&mut rng, &sets[..n_base], env.budget(12000, 200000));
    let wsmarks = wsmark_sets(&mut rng, &sets[..n_base], env.budget(5000, 80000));
    sets.extend(malformed);
    sets.extend(wsmarks);
    sets.extend(case_sets());
    for s in &sets {
        report.count(&format!("sets.{}", s.stream.split('.').take(2).collect::<Vec<_>>().join(".")));
    }
    report.count_n("sets.total", sets.len() as u64);

    // ---- real engine, in child processes
    let per_batch = 32;
    let batches: Vec<Batch> = sets
        .chunks(per_batch)
        .map(|c| Batch { common: serde_json::json!({}), items: c.iter().map(|s| s.to_json()).collect() })
        .collect();
    let results = run_batches(CHILD_FLAG, &batches, Duration::from_secs(240), threads);
    let mut real_of: BTreeMap<usize, RealObs> = BTreeMap::new();
    let mut suspects: Vec<(usize, String)> = Vec::new();
    for (bi, br) in results.iter().enumerate() {
        for (ii, lines) in &br.results {
            real_of.insert(bi * per_batch + ii, parse_real(lines));
        }
        for (ii, why) in &br.culprits {
            suspects.push((bi * per_batch + ii, why.clone()));
        }
        if br.abandoned > 0 {
            report.count_n("sets.abandoned_after_culprits", br.abandoned as u64);
        }
    }
    for (si, why) in suspects.iter().take(4) {
        let b = Batch { common: serde_json::json!({"limit_secs": 150}), items: vec![sets[*si].to_json()] };
        let r = run_batch(CHILD_FLAG, 100_000 + si, &b, Duration::from_secs(170), 0);
        if r.results.is_empty() {
            report.oracle_checks += 1;
            report.oracle_failures += 1;
            let known_f5b = extends_include_cycle(&sets[*si]) && real_accepts(&sets[*si], *si);
            if known_f5b && property() != "C07" {
                // registering succeeded; the render of this shape is C07's / C11's known finding
                report.oracle_failures -= 1;
                report.count("known.F5b.shape_seen_while_checking_another_property");
                continue;
            }
            report.violation(
                "property",
                format!(
                    "{}registering / rendering did not come back ({why}; confirmed alone with a 150 s cap): {:?}",
                    if known_f5b { "F5b (accepted set with an extends+include cycle): " } else { "" },
                    sets[*si].templates
                ),
                replay_json(&sets[*si], "real-engine", why, "-"),
            );
            if known_f5b {
                if let Some(v) = report.violations.last_mut() {
                    v.known = Some("F5b".to_string());
                }
                report.count("known.F5b.reproduced");
            }
        } else {
            report.count("sets.slow_under_load_only");
            real_of.insert(*si, parse_real(&r.results[0].1));
        }
    }

    // ---- direct oracle on the implementation's own results
    for (si, r) in &real_of {
        let set = &sets[*si];
        report.oracle_checks += 1;
        if r.add.starts_with("panic") || r.add.starts_with("hook-panic") {
            report.oracle_failures += 1;
            report.violation("property", format!("registering panicked: {} — {:?}", r.add, set.templates), replay_json(set, "real-add", &r.add, "-"));
        }
        report.count(&format!("real.add.{}", r.add.split(' ').take(2).collect::<Vec<_>>().join(".")));
        for ((ei, ri), (o, stacks)) in &r.outs {
            report.evaluations += 1;
            report.oracle_checks += 1;
            let bad_panic = o.starts_with("panic");
            let bad_stacks = o.starts_with("ok ") && stacks != "0,0,0";
            if bad_panic || bad_stacks {
                report.oracle_failures += 1;
                if report.oracle_failures > 6 {
                    continue;
                }
                let mut one = set.clone();
                one.entries = vec![set.entries[*ei].clone()];
                one.runs = vec![set.runs[*ri].clone()];
                let what = if bad_panic { "the real render panicked" } else { "stacks not empty after a successful render" };
                report.violation("property", format!("{what}: {} stacks {stacks} — {:?} entry {:?}", show(o), set.templates, set.entries[*ei]), replay_json(&one, "real-render", o, "-"));
            }
            report.count(&format!("real.render.{}", o.split(' ').take(if o.starts_with("err") { 2 } else { 1 }).collect::<Vec<_>>().join(".")));
        }
    }

    // ---- the whole-engine model on the SOURCES
    let order: Vec<usize> = real_of.keys().copied().collect();
    let requests: Vec<String> = order.iter().map(|si| pipe_request(&sets[*si], &reg, &sets[*si].entries, &sets[*si].runs)).collect();
    let t_model = Instant::now();
    let answers = match driver::run_batch_parallel(&exe, &requests, threads) {
        Ok(a) => a,
        Err(e) => {
            report.violation("model-mismatch", format!("model driver could not be run: {e}"), serde_json::json!({"detail": {"stage": "driver", "error": e}}));
            report.write(&out_path());
            cleanup();
            return;
        }
    };
    let model_secs = t_model.elapsed().as_secs_f64();

    let mut nontrivial = 0u64;
    let mut bad_sets: Vec<(usize, String, String, String)> = Vec::new(); // (set, what, real, model)
    let mut sample_count: BTreeMap<String, u64> = BTreeMap::new();
    for (k, a) in answers.iter().enumerate() {
        let si = order[k];
        let set = &sets[si];
        let real = &real_of[&si];
        let stream2 = set.stream.split('.').take(2).collect::<Vec<_>>().join(".");
        if real.add.starts_with("config") {
            report.count("sets.config_refused");
            continue;
        }
        let Some(m) = parse_answer(a) else {
            report.model_comparisons += 1;
            report.model_disagreements += 1;
            bad_sets.push((si, "driver-answer".into(), real.add.clone(), a.chars().take(200).collect()));
            continue;
        };
        // add-time outcome
        report.model_comparisons += 1;
        report.count(&format!("model.add.{}", model_add_class(&m.add).split(' ').take(2).collect::<Vec<_>>().join(".")));
        if real.add != model_add_class(&m.add) {
            report.model_disagreements += 1;
            bad_sets.push((si, "add-outcome".into(), real.add.clone(), m.add.clone()));
            continue;
        }
        if real.add != "ok" {
            nontrivial += 1;
            report.count("compare.add_error_agreed");
            continue;
        }
        // environment
        report.model_comparisons += 1;
        if real.env == m.env {
            report.count("compare.env_equal");
        } else {
            bad_sets.push((si, "environment".into(), String::new(), String::new()));
        }
        // render outcomes
        let mut set_bad = false;
        for ((ei, ri), (o, _)) in &real.outs {
            let mo = m.outs.get(ei * set.runs.len() + ri).cloned().unwrap_or_default();
            if !comparable(&mo) {
                report.count(&format!("unmodelled.{}", mo.split(' ').nth(1).unwrap_or(&mo)));
                report.count("compare.skipped_unmodelled");
                // diagnostic: CPIPE_SHOW_UNMODELLED=1 prints the case (which inputs the model leaves out)
                if std::env::var("CPIPE_SHOW_UNMODELLED").is_ok() {
                    eprintln!("unmodelled {mo}: templates {:?} entry {:?} ctx {:?} real {o}", set.templates, set.entries.get(*ei), set.runs.get(*ri).map(|r| &r.ctx));
                }
                continue;
            }
            report.model_comparisons += 1;
            report.count("compare.render_modelled");
            nontrivial += 1;
            if *o != mo && o.starts_with("err ") && mo.starts_with("err ") && set_has_multi_kwargs(set) {
                // two kwargs of one call fail differently: which error surfaces depends on the
                // HashMap order `compile_kwargs` saw
                report.count("compare.error_class_differs_with_multi_kwargs_tolerated");
                continue;
            }
            if agree_modulo_debug_escapes(o, &mo) {
                report.count("compare.agree_modulo_debug_escape_of_nonprintable_unicode(Format.lean_limit)");
                continue;
            }
            if *o == mo {
                let key = format!("sampled.{stream2}");
                if report.samples.len() < 12 && sample_count.get(&key).copied().unwrap_or(0) < 2 && (ri % 3 == 1 || o.starts_with("err")) {
                    *sample_count.entry(key).or_insert(0) += 1;
                    report.sample(serde_json::json!({"templates": set.templates, "delims": set.delims.to_json(), "suffixes": set.suffixes, "entry": set.entries[*ei], "ctx": set.runs[*ri].ctx, "real": show(o), "model": show(&mo)}));
                }
            } else {
                report.model_disagreements += 1;
                if !set_bad {
                    set_bad = true;
                    let mut one = set.clone();
                    one.entries = vec![set.entries[*ei].clone()];
                    one.runs = vec![set.runs[*ri].clone()];
                    bad_sets.push((si, format!("render entry {:?} ctx {:?}", set.entries[*ei], set.runs[*ri].ctx), o.clone(), mo.clone()));
                }
            }
        }
    }
    report.distinct_nontrivial = nontrivial;
    for (k, v) in ev_hist.iter() {
        report.count_n(&format!("evgen.{k}"), *v);
    }

    // ---- disagreements: name the first stage that differs
    let mut reported = 0;
    for (si, what, real, model) in bad_sets.iter() {
        let set = &sets[*si];
        if what == "environment" && set_has_multi_kwargs(set) {
            // kwarg code order inside a chunk follows a HashMap on the real side: the listings
            // may differ inside the kwarg code (render outcomes are still compared)
            report.count("compare.env_differs_with_multi_kwargs_tolerated");
            continue;
        }
        let loc = if reported < 8 { localise(set, &exe, *si) } else { Located { stage: "not-localised".into(), detail: String::new(), tolerated_kwargs: false } };
        if what == "environment" {
            report.model_disagreements += 1;
        }
        reported += 1;
        let model_env = parse_answer(&answers[order.iter().position(|x| x == si).unwrap_or(0)]).map(|m| m.env).unwrap_or_default();
        let stage = if loc.stage == "after-compile" {
            match what.as_str() {
                "environment" => after_compile_stage(&real_of[si].env, &model_env).to_string(),
                "add-outcome" => "finalize (add-time outcome)".to_string(),
                _ if real_of[si].env != model_env && !set_has_multi_kwargs(set) => format!("{} — seen at render", after_compile_stage(&real_of[si].env, &model_env)),
                _ => "vm (render) — tokens, AST, raw chunks, environment agree".to_string(),
            }
        } else {
            loc.stage.clone()
        };
        let (real_s, model_s) = if what == "environment" {
            let m = parse_answer(&answers[order.iter().position(|x| x == si).unwrap_or(0)]).map(|m| m.env).unwrap_or_default();
            let d = first_diff(&real_of[si].env, &m);
            (d.clone(), d)
        } else {
            (show(real), show(model))
        };
        report.violation(
            "model-mismatch",
            format!("whole-engine model and real engine disagree ({what}); first differing stage: {stage} {} — templates {:?}: real {real_s} / model {model_s}", loc.detail, set.templates.iter().map(|(n, s)| (n.clone(), s.chars().take(160).collect::<String>())).collect::<Vec<_>>()),
            replay_json(set, &stage, &real_s, &model_s),
        );
    }
    let modelled = report.histogram.get("compare.render_modelled").copied().unwrap_or(0);
    let skipped = report.histogram.get("compare.skipped_unmodelled").copied().unwrap_or(0);
    report.notes.push(format!(
        "fully modelled from source text: {} of {} (entry, context) render cases = {:.1} %; environments equal {} (kwarg-order-only differences {}); add-time errors agreed {}; disagreements {}; model driver {:.1} s; wall {:.1} s",
        modelled,
        (modelled + skipped).max(1),
        100.0 * modelled as f64 / (modelled + skipped).max(1) as f64,
        report.histogram.get("compare.env_equal").copied().unwrap_or(0),
        report.histogram.get("compare.env_differs_with_multi_kwargs_tolerated").copied().unwrap_or(0),
        report.histogram.get("compare.add_error_agreed").copied().unwrap_or(0),
        report.model_disagreements,
        model_secs,
        t0.elapsed().as_secs_f64()
    ));
    report.write(&out_path());
    cleanup();
}
