//! C06 (parser side) — the whole-template parser model against the real parser.
//!
//! For every source: real token stream (`verif_hooks::tokens_wire`) → Lean model parser
//! (`drv_parser parse`, Model/TemplateParser.lean) vs the real `verif_hooks::template_wire`
//! (parent, nodes, component definitions): exact equality, or both reject.  A `panic` / `fuel`
//! answer of the model, or a panic of the engine, is a disagreement / violation.
//! Direct oracle (independent of the model) on generator-made cases whose verdict is known by
//! construction: well-formed templates must be accepted; `break`/`continue` outside a loop or
//! under a capture inside the loop, duplicate blocks, blocks in for/if/component definitions,
//! `extends` not first / nested / twice, reserved names, wrong end tags, unterminated tags, bad
//! component signatures must be rejected; nesting is accepted up to the documented limit.
use std::collections::HashSet;
use tera::Delimiters;
use tera_verif_harness::report::{out_path, replay_path, Report};
use tera_verif_harness::rng::Rng;
use tera_verif_harness::{bcgen, catch, driver, quiet_panics, Env};

struct Case {
    stream: &'static str,
    src: String,
    /// Some(true): must be accepted, Some(false): must be rejected (known by construction)
    expect: Option<bool>,
    label: String,
}

fn engine_tpl(src: &str) -> String {
    match catch(std::panic::AssertUnwindSafe(|| tera::verif_hooks::template_wire(src, Delimiters::default()))) {
        Err(p) => format!("panic {p}"),
        Ok(Ok(w)) => format!("ok {w}"),
        Ok(Err(_)) => "err".into(),
    }
}

fn model_request(src: &str) -> String {
    match catch(std::panic::AssertUnwindSafe(|| tera::verif_hooks::tokens_wire(src, Delimiters::default()))) {
        Ok(t) => format!("parse {}", t.join(" ")),
        Err(_) => "parse ERR".into(),
    }
}

fn walk(dir: &std::path::Path, out: &mut Vec<std::path::PathBuf>) {
    if let Ok(rd) = std::fs::read_dir(dir) {
        for e in rd.flatten() {
            let p = e.path();
            if p.is_dir() {
                walk(&p, out);
            } else if p.extension().map(|x| x == "txt").unwrap_or(false) {
                out.push(p);
            }
        }
    }
}

// ------------------------------------------------------------------ statement generator

const EXPRS: [&str; 14] = [
    "a", "1", "a + 1", "x.y[0]", "a | upper", "a is defined", "not a and b", "[1, 2]", "{\"k\": a}", "f(x=1)", "a if b else c",
    "xs | length > 0", "loop.index", "\"s\" ~ a",
];

struct Gen<'a> {
    rng: &'a mut Rng,
    block_id: usize,
}

impl<'a> Gen<'a> {
    fn e(&mut self) -> String {
        if self.rng.chance(1, 4) {
            bcgen::gen_expr(self.rng, 2, &[]).replace("@@HI@@", "hi").replace("@@HB@@", "hb")
        } else {
            (*self.rng.pick(&EXPRS)).to_string()
        }
    }
    fn ws(&mut self) -> &'static str {
        *self.rng.pick(&["", "", "", "-"])
    }
    fn tag(&mut self, inner: &str) -> String {
        let (a, b) = (self.ws(), self.ws());
        format!("{{%{a} {inner} {b}%}}")
    }
    fn body(&mut self, d: usize, in_loop: bool, in_capture: bool, blocks_ok: bool) -> String {
        let n = self.rng.below(3);
        (0..=n).map(|_| self.stmt(d, in_loop, in_capture, blocks_ok)).collect()
    }
    /// a well-formed statement (accepted by construction)
    fn stmt(&mut self, d: usize, in_loop: bool, in_capture: bool, blocks_ok: bool) -> String {
        if d == 0 {
            return match self.rng.below(5) {
                0 => "text ".into(),
                1 => " \n ".into(),
                2 => "{# comment #}".into(),
                3 => "{% raw %}{{ raw }}{% endraw %}".into(),
                _ => format!("{{{{ {} }}}}", self.e()),
            };
        }
        let d1 = d - 1;
        match self.rng.below(17) {
            0 => format!("{{{{ {} }}}}", self.e()),
            1 => {
                let mut s = ({ let __t = format!("if {}", self.e_owned()); self.tag(&__t) }) + &self.body(d1, in_loop, in_capture, false);
                for _ in 0..self.rng.below(4) {
                    s += &({ let __t = format!("elif {}", self.e_owned()); self.tag(&__t) });
                    s += &self.body(d1, in_loop, in_capture, false);
                }
                if self.rng.chance(1, 2) {
                    s += &self.tag("else");
                    s += &self.body(d1, in_loop, in_capture, false);
                }
                s + &self.tag("endif")
            }
            2 => {
                let head = match self.rng.below(3) {
                    0 => format!("for k, v in {}", self.e_owned()),
                    _ => format!("for item in {}", self.e_owned()),
                };
                let mut s = self.tag(&head) + &self.body(d1, true, false, false);
                if self.rng.chance(1, 3) {
                    s += &self.tag("else");
                    s += &self.body(d1, in_loop, in_capture, false);
                }
                s + &self.tag("endfor")
            }
            3 => {
                let kw = if self.rng.chance(1, 3) { "set_global" } else { "set" };
                ({ let __t = format!("{kw} v = {}", self.e_owned()); self.tag(&__t) })
            }
            4 => {
                let filters = match self.rng.below(3) {
                    0 => String::new(),
                    1 => " | upper".into(),
                    _ => format!(" | trim | replace(from=\"a\", to={})", self.e_owned()),
                };
                self.tag(&format!("set v{filters}")) + &self.body(d1, in_loop, true, blocks_ok) + &self.tag("endset")
            }
            5 => {
                let f = match self.rng.below(3) {
                    0 => "upper".to_string(),
                    1 => "trim()".to_string(),
                    _ => format!("replace(from=\"a\", to={}, )", self.e_owned()),
                };
                self.tag(&format!("filter {f}")) + &self.body(d1, in_loop, true, blocks_ok) + &self.tag("endfilter")
            }
            6 => ({ let __t = format!("include \"{}\"", self.rng.pick(&["a.html", "b", "x/y.txt"])); self.tag(&__t) }),
            7 if blocks_ok => {
                self.block_id += 1;
                let name = format!("blk{}", self.block_id);
                let end = if self.rng.chance(1, 2) { format!("endblock {name}") } else { "endblock".into() };
                self.tag(&format!("block {name}")) + &self.body(d1, in_loop, in_capture, true) + &self.tag(&end)
            }
            8 if in_loop && !in_capture => ({ let __t: String = (self.rng.pick(&["break", "continue"])).to_string(); self.tag(&__t) }),
            9 if in_loop && !in_capture => ({ let __t = format!("if {}", self.e_owned()); self.tag(&__t) }) + &self.tag("break") + &self.tag("else") + &self.tag("continue") + &self.tag("endif"),
            10 => {
                let name = *self.rng.pick(&["card", "ui.button", "a.b.c"]);
                let attrs = match self.rng.below(5) {
                    0 => String::new(),
                    1 => " title=\"t\"".into(),
                    2 => format!(" n={{{}}} flag", self.e_owned()),
                    3 => " {...m} a=\"1\"".into(),
                    _ => format!(" a={{x}} {{...{}}}", self.e_owned()),
                };
                self.tag(&format!("<{name}{attrs}>")) + &self.body(d1, in_loop, true, blocks_ok) + &self.tag(&format!("</{name}>"))
            }
            11 => format!("{{{{ <card title=\"x\" n={{{}}}/> }}}}", self.e_owned()),
            12 => bcgen::gen_stmt(self.rng, 1 + d1 as u32, &[], in_loop, in_capture).replace("@@HI@@", "hi").replace("@@HB@@", "hb").replace("@@I@@", "inc"),
            _ => "txt".into(),
        }
    }
    fn e_owned(&mut self) -> String {
        self.e()
    }
    fn component_def(&mut self) -> String {
        self.block_id += 1;
        let name = format!("{}{}", self.rng.pick(&["comp", "ui.card", "x.y.z"]), self.block_id);
        let mut args: Vec<String> = Vec::new();
        let n = self.rng.below(4);
        for i in 0..n {
            let ty = *self.rng.pick(&["", ": string", ": Integer", ": bool", ": ARRAY", ": map", ": float", ": number", ": bytes"]);
            let dv = *self.rng.pick(&["", "", " = 1", " = \"s\"", " = true", " = none", " = [1, [2]]", " = {\"k\": 1, 2: [3]}", " = 1.5", " = []"]);
            args.push(format!("a{i}{ty}{dv}"));
        }
        if self.rng.chance(1, 4) {
            args.push("...rest".into());
        }
        let trail = if !args.is_empty() && !args.last().unwrap().starts_with("...") && self.rng.chance(1, 4) { "," } else { "" };
        let meta = match self.rng.below(4) {
            0 => " {\"doc\": \"x\", \"n\": 1}".to_string(),
            1 => " {}".into(),
            _ => String::new(),
        };
        let end = if self.rng.chance(1, 2) { format!("endcomponent {name}") } else { "endcomponent".into() };
        self.tag(&format!("component {name}({}{trail}){meta}", args.join(", "))) + &self.body(2, false, false, false) + &self.tag(&end)
    }
    /// a well-formed template
    fn template(&mut self) -> String {
        let mut s = String::new();
        if self.rng.chance(1, 4) {
            s += *self.rng.pick(&["", " \n", "{# c #}", "\u{a0}\u{2003}"]);
            s += &self.tag("extends \"base.html\"");
        }
        for _ in 0..1 + self.rng.below(4) {
            if self.rng.chance(1, 6) {
                s += &self.component_def();
            } else {
                let d = 1 + self.rng.below(4);
                s += &self.stmt(d, false, false, true);
            }
        }
        s
    }
}

fn main() {
    quiet_panics();
    let env = Env::from_env();
    let mut report = Report::new("C06");
    let exe = driver::driver_path(&env.verif_dir, "drv_parser");

    if let Some(path) = replay_path() {
        let text = std::fs::read_to_string(&path).expect("replay file");
        let j: serde_json::Value = serde_json::from_str(&text).expect("replay json");
        let j = if j.get("src").is_some() { j } else { j["replay"].clone() };
        let src = j["src"].as_str().expect("replay file without `src`").to_string();
        let h = std::thread::Builder::new().stack_size(512 << 20).spawn(move || {
            println!("source:        {src}");
            println!("engine parse:  {}", engine_tpl(&src));
            model_request(&src)
        });
        let req = h.unwrap().join().unwrap();
        let m = driver::run_batch(&exe, &[req]).map(|v| v[0].clone()).unwrap_or_else(|e| e);
        println!("model parse:   {m}");
        return;
    }

    let mut rng = Rng::new(env.seed ^ 0xc06);
    let mut cases: Vec<Case> = Vec::new();

    // ---- the repository's own inputs
    let mut files = Vec::new();
    for d in ["parser_inputs", "rendering_inputs", "compiler_inputs", "lexer_inputs"] {
        walk(&std::path::Path::new("/repo/tera/src/snapshot_tests").join(d), &mut files);
    }
    files.sort();
    for f in &files {
        if let Ok(text) = std::fs::read_to_string(f) {
            cases.push(Case { stream: "repo-inputs", src: text.replace("\r\n", "\n"), expect: None, label: f.display().to_string() });
        }
    }

    // ---- generated well-formed templates (accepted by construction)
    let n_good = env.budget(4000, 400_000);
    let mut good: Vec<String> = Vec::new();
    for _ in 0..n_good {
        let mut g = Gen { rng: &mut rng, block_id: 0 };
        let src = g.template();
        good.push(src.clone());
        cases.push(Case { stream: "generated", src, expect: None, label: "well-formed".into() });
    }
    // bytecode generator's statements
    for _ in 0..env.budget(1500, 100_000) {
        let d = 1 + rng.below(4) as u32;
        let src: String = (0..1 + rng.below(3))
            .map(|_| bcgen::gen_stmt(&mut rng, d, &[], false, false))
            .collect::<String>()
            .replace("@@HI@@", "hi")
            .replace("@@HB@@", "hb")
            .replace("@@I@@", "inc");
        cases.push(Case { stream: "bcgen", src, expect: None, label: "bcgen".into() });
    }

    // ---- malformed by construction: the verdict is known
    let rejects: Vec<(&str, String)> = vec![
        ("break outside loop", "{% break %}".into()),
        ("continue outside loop", "{% if a %}{% continue %}{% endif %}".into()),
        ("break in else of for", "{% for x in xs %}a{% else %}{% break %}{% endfor %}".into()),
        ("break under capture in loop", "{% for x in xs %}{% filter upper %}{% break %}{% endfilter %}{% endfor %}".into()),
        ("break under if under capture in loop", "{% for i in xs %}{% filter upper %}a{% if i == 2 %}{% break %}{% endif %}b{% endfilter %}{% endfor %}".into()),
        ("continue under set block in loop", "{% for x in xs %}{% set v %}{% if x %}{% continue %}{% endif %}{% endset %}{% endfor %}".into()),
        ("break under component body in loop", "{% for x in xs %}{% <c> %}{% if x %}{% break %}{% endif %}{% </c> %}{% endfor %}".into()),
        ("break under elif under capture", "{% for x in xs %}{% filter trim %}{% if a %}{% elif b %}{% break %}{% endif %}{% endfilter %}{% endfor %}".into()),
        ("duplicate block", "{% block a %}{% endblock %}{% block a %}{% endblock %}".into()),
        ("duplicate nested block", "{% block a %}{% block a %}{% endblock %}{% endblock %}".into()),
        ("block in for", "{% for x in xs %}{% block a %}{% endblock %}{% endfor %}".into()),
        ("block in if", "{% if a %}{% block a %}{% endblock %}{% endif %}".into()),
        ("block in if in block", "{% block o %}{% if a %}{% block a %}{% endblock %}{% endif %}{% endblock %}".into()),
        ("block in component definition", "{% component c() %}{% block a %}{% endblock %}{% endcomponent %}".into()),
        ("wrong endblock name", "{% block a %}{% endblock b %}".into()),
        ("extends not first", "x{% extends \"b\" %}".into()),
        ("extends after tag", "{% set a = 1 %}{% extends \"b\" %}".into()),
        ("extends after expression", "{{ a }}{% extends \"b\" %}".into()),
        ("extends twice", "{% extends \"a\" %}{% extends \"b\" %}".into()),
        ("extends nested", "{% if a %}{% extends \"b\" %}{% endif %}".into()),
        ("extends non-string", "{% extends base %}".into()),
        ("include non-string", "{% include 1 %}".into()),
        ("set reserved", "{% set loop = 1 %}".into()),
        ("set reserved true", "{% set True = 1 %}".into()),
        ("for reserved", "{% for self in xs %}{% endfor %}".into()),
        ("for reserved value", "{% for k, not in xs %}{% endfor %}".into()),
        ("unterminated if", "{% if a %}x".into()),
        ("unterminated for", "{% for x in xs %}x".into()),
        ("unterminated block", "{% block a %}x".into()),
        ("unterminated filter", "{% filter upper %}x".into()),
        ("unterminated set", "{% set v %}x".into()),
        ("unterminated component", "{% <c> %}x".into()),
        ("unterminated component def", "{% component c() %}x".into()),
        ("unterminated tag", "{% if a ".into()),
        ("unterminated variable", "{{ a ".into()),
        ("else without if", "{% else %}".into()),
        ("elif without if", "{% elif a %}".into()),
        ("endif without if", "{% endif %}".into()),
        ("endfor for if", "{% if a %}{% endfor %}".into()),
        ("endif for for", "{% for x in xs %}{% endif %}".into()),
        ("elif after else", "{% if a %}{% else %}{% elif b %}{% endif %}".into()),
        ("two else", "{% if a %}{% else %}{% else %}{% endif %}".into()),
        ("else with condition", "{% if a %}{% else b %}{% endif %}".into()),
        ("for two else", "{% for x in xs %}{% else %}{% else %}{% endfor %}".into()),
        ("elif in for", "{% for x in xs %}{% elif a %}{% endfor %}".into()),
        ("unknown tag", "{% frobnicate %}".into()),
        ("empty tag", "{% %}".into()),
        ("set without value", "{% set a = %}".into()),
        ("set bad", "{% set a b %}".into()),
        ("set block filter missing name", "{% set v | %}{% endset %}".into()),
        ("component def nested", "{% if a %}{% component c() %}{% endcomponent %}{% endif %}".into()),
        ("component def in component def", "{% component c() %}{% component d() %}{% endcomponent %}{% endcomponent %}".into()),
        ("component def twice", "{% component c() %}{% endcomponent %}{% component c() %}{% endcomponent %}".into()),
        ("component def dup arg", "{% component c(a, a) %}{% endcomponent %}".into()),
        ("component def body arg", "{% component c(body) %}{% endcomponent %}".into()),
        ("component def rest body", "{% component c(...body) %}{% endcomponent %}".into()),
        ("component def rest not last", "{% component c(...r, a) %}{% endcomponent %}".into()),
        ("component def rest conflicts", "{% component c(a, ...a) %}{% endcomponent %}".into()),
        ("component def bad type", "{% component c(a: strng) %}{% endcomponent %}".into()),
        ("component def type not ident", "{% component c(a: 1) %}{% endcomponent %}".into()),
        ("component def default expr", "{% component c(a = b) %}{% endcomponent %}".into()),
        ("component def default non-literal array", "{% component c(a = [b]) %}{% endcomponent %}".into()),
        ("component def default non-literal map", "{% component c(a = {\"k\": b}) %}{% endcomponent %}".into()),
        ("component def metadata non-literal", "{% component c() {\"k\": b} %}{% endcomponent %}".into()),
        ("component def wrong end name", "{% component c() %}{% endcomponent d %}".into()),
        ("component def missing comma", "{% component c(a b) %}{% endcomponent %}".into()),
        ("component def no parens", "{% component c %}{% endcomponent %}".into()),
        ("component call wrong end", "{% <c> %}{% </d> %}".into()),
        ("component call self closing in tag", "{% <c/> %}".into()),
        ("component call attr bad value", "{% <c a=1> %}{% </c> %}".into()),
        ("component call body in variable", "{{ <c> }}".into()),
        ("component call unclosed brace", "{% <c a={x> %}{% </c> %}".into()),
        ("closing tag alone", "{% </c> %}".into()),
        ("filter section no name", "{% filter %}{% endfilter %}".into()),
        ("filter section dup kwarg", "{% filter f(a=1, a=2) %}{% endfilter %}".into()),
        ("for missing in", "{% for x xs %}{% endfor %}".into()),
        ("for missing target", "{% for x in %}{% endfor %}".into()),
        ("if missing condition", "{% if %}{% endif %}".into()),
        ("variable empty", "{{ }}".into()),
        ("variable two expr", "{{ a b }}".into()),
        ("tag end in variable", "{{ a %}".into()),
    ];
    for (label, src) in &rejects {
        cases.push(Case { stream: "malformed-known", src: src.clone(), expect: Some(false), label: label.to_string() });
        // the same behind / inside well-formed material
        let pre = &good[rng.below(good.len())];
        if !pre.contains("extends") && !label.starts_with("extends") {
            cases.push(Case { stream: "malformed-known", src: format!("{pre}{src}"), expect: Some(false), label: format!("{label} (after well-formed)") });
        }
    }
    let accepts: Vec<(&str, String)> = vec![
        ("break in loop", "{% for x in xs %}{% break %}{% endfor %}".into()),
        ("continue under if/elif/else in loop", "{% for x in xs %}{% if a %}{% elif b %}{% continue %}{% else %}{% break %}{% endif %}{% endfor %}".into()),
        ("break in loop inside capture", "{% filter upper %}{% for x in xs %}{% break %}{% endfor %}{% endfilter %}".into()),
        ("break in inner loop under capture in outer loop", "{% for y in ys %}{% set v %}{% for x in xs %}{% if x %}{% break %}{% endif %}{% endfor %}{% endset %}{% endfor %}".into()),
        ("break in loop in block", "{% block b %}{% for x in xs %}{% continue %}{% endfor %}{% endblock %}".into()),
        ("nested blocks", "{% block a %}{% block b %}{% block c %}{% endblock c %}{% endblock %}{% endblock a %}".into()),
        ("block in filter section and set block", "{% filter upper %}{% block a %}{% endblock %}{% endfilter %}{% set v %}{% block b %}{% endblock %}{% endset %}".into()),
        ("block in component body", "{% <c> %}{% block a %}x{% endblock %}{% </c> %}".into()),
        ("extends after whitespace and comment", " \n{# c #}\t{% extends \"b\" %}{% block a %}{% endblock %}".into()),
        ("extends after unicode whitespace", "\u{a0}\u{2003}\u{3000}{% extends \"b\" %}".into()),
        ("component def full", "{% component ui.c(a: string = \"x\", b = [1, [2]], c: map, d = none, ...rest) {\"doc\": 1} %}{{ a }}{% endcomponent ui.c %}".into()),
        ("component def types case", "{% component c(a: STRING, b: Bool, c: iNtEgEr) %}{% endcomponent %}".into()),
        ("set block filters", "{% set v | upper | replace(from=\"a\", to=b) %}x{% endset %}".into()),
        ("set_global in loop", "{% for x in xs %}{% set_global v = loop.index %}{% endfor %}".into()),
        ("for key value else", "{% for k, v in m %}{{ k }}{% else %}none{% endfor %}".into()),
        ("component call attrs", "{% <a.b t=\"s\" n={x + 1} flag {...m}> %}body{% </a.b> %}".into()),
        ("keywords as variables", "{{ endif }}{{ else_ }}{% set endfor = 1 %}".into()),
        ("endblock name on non-name", "{% block a %}{% endblock %}".into()),
    ];
    for (label, src) in &accepts {
        cases.push(Case { stream: "wellformed-known", src: src.clone(), expect: Some(true), label: label.to_string() });
    }
    // nesting at the limit: n nested tags, then an expression of depth m
    for n in 30usize..=44 {
        for (kind, open, close) in [("if", "{% if a %}", "{% endif %}"), ("for", "{% for x in xs %}", "{% endfor %}"), ("filter", "{% filter upper %}", "{% endfilter %}"), ("set", "{% set v %}", "{% endset %}"),
            ("for-else", "{% for x in xs %}y{% else %}", "{% endfor %}"), ("if-else", "{% if a %}y{% else %}", "{% endif %}"), ("component-call", "{% <c> %}", "{% </c> %}")] {
            // parse() -> parse_until is level 1; each tag body one more; the innermost body may hold text only
            let src = format!("{}x{}", open.repeat(n), close.repeat(n));
            cases.push(Case { stream: "nesting", src, expect: Some(n + 1 <= 40), label: format!("{kind} x{n}") });
            let src = format!("{}{{{{ a }}}}{}", open.repeat(n), close.repeat(n));
            cases.push(Case { stream: "nesting", src, expect: Some(n + 2 <= 40), label: format!("{kind} x{n} + expr") });
        }
        let src = format!("{}{{{{ {}a{} }}}}{}", "{% if a %}".repeat(n / 2), "(".repeat(n - n / 2), ")".repeat(n - n / 2), "{% endif %}".repeat(n / 2));
        cases.push(Case { stream: "nesting", src, expect: Some(n + 2 <= 40), label: format!("if x{} + parens x{}", n / 2, n - n / 2) });
    }
    // the for-else hole (finding: parse_for_loop pops its context before the else body, so extends /
    // block / component definition are accepted there): model and engine are compared, no verdict pinned
    for src in [
        "hello{% for x in y %}a{% else %}{% extends \"p\" %}{% endfor %}",
        "{% for x in y %}{% else %}{% extends \"p\" %}{% endfor %}{% extends \"q\" %}",
        "{% for x in y %}a{% else %}{% block b %}z{% endblock %}{% endfor %}",
        "{% for x in y %}a{% else %}{% component c() %}z{% endcomponent %}{% endfor %}",
        "{% if a %}{% for x in y %}a{% else %}{% extends \"p\" %}{% endfor %}{% endif %}",
        "{% for x in y %}{% for x in y %}a{% else %}{% break %}{% endfor %}{% endfor %}",
        "{% for x in y %}a{% else %}{% break %}{% endfor %}",
    ] {
        cases.push(Case { stream: "nesting", src: src.to_string(), expect: None, label: "for-else body context".into() });
    }
    // nested blocks (distinct names)
    for n in 30usize..=44 {
        let open: String = (0..n).map(|i| format!("{{% block b{i} %}}")).collect();
        let src = format!("{open}x{}", "{% endblock %}".repeat(n));
        cases.push(Case { stream: "nesting", src, expect: Some(n + 1 <= 40), label: format!("block x{n}") });
    }
    // expression nesting that IS counted: right-nested `**`, parentheses, unary, kwargs, ternary, maps
    for (n, ok) in [(5usize, true), (15, true), (60, false), (200, false)] {
        let ex: Vec<(&str, String)> = vec![
            ("pow chain", format!("1{}", " ** 1".repeat(n))),
            ("parens", format!("{}a{}", "(".repeat(n), ")".repeat(n))),
            ("unary minus parens", format!("{}a{}", "-(".repeat(n), ")".repeat(n))),
            ("not parens", format!("{}a{}", "not (".repeat(n), ")".repeat(n))),
            ("kwargs", format!("{}a{}", "f(x=".repeat(n), ")".repeat(n))),
            ("filter kwargs", format!("{}a{}", "a | f(x=".repeat(n), ")".repeat(n))),
            ("ternary", format!("{}a{}", "a if b else (".repeat(n), ")".repeat(n))),
            ("maps", format!("{}a{}", "{\"k\": ".repeat(n), " }".repeat(n))),
            ("binary right operand", format!("{}a{}", "1 + (".repeat(n), ")".repeat(n))),
        ];
        for (kind, e) in ex {
            cases.push(Case { stream: "nesting", src: format!("{{{{ {e} }}}}"), expect: Some(ok), label: format!("expr {kind} x{n}") });
            cases.push(Case { stream: "nesting", src: format!("{{% if {e} %}}{{% endif %}}"), expect: Some(ok), label: format!("expr {kind} x{n} in tag") });
        }
    }
    // exact boundary of the counted expression nesting: model and engine must agree (no expectation)
    for n in 30usize..=44 {
        cases.push(Case { stream: "nesting", src: format!("{{{{ 1{} }}}}", " ** 1".repeat(n)), expect: None, label: format!("pow chain x{n}") });
        cases.push(Case { stream: "nesting", src: format!("{{{{ {}a{} }}}}", "-(".repeat(n), ")".repeat(n)), expect: None, label: format!("unary parens x{n}") });
    }
    // chains that are NOT bounded by the depth counter (known finding F1): elif, operators, postfix
    for n in [1usize, 2, 10, 39, 40, 41, 100, 400, env.budget(800, 3000)] {
        let src = format!("{{% if a %}}{}{{% endif %}}", "{% elif a %}x".repeat(n));
        cases.push(Case { stream: "chains", src, expect: Some(true), label: format!("elif x{n}") });
        cases.push(Case { stream: "chains", src: format!("{{{{ 1{} }}}}", " + 1".repeat(n)), expect: Some(true), label: format!("plus x{n}") });
        cases.push(Case { stream: "chains", src: format!("{{{{ a{} }}}}", ".b".repeat(n)), expect: Some(true), label: format!("attr x{n}") });
        cases.push(Case { stream: "chains", src: format!("{{{{ a{} }}}}", " | f".repeat(n)), expect: Some(true), label: format!("filter x{n}") });
        cases.push(Case { stream: "chains", src: format!("{{{{ a{} }}}}", "[0]".repeat(n)), expect: Some(true), label: format!("index x{n}") });
    }

    // ---- mutated: tag-level mutations of well-formed templates (verdict unknown)
    for _ in 0..env.budget(6000, 500_000) {
        let src = &good[rng.below(good.len())];
        // split at delimiters keeping them
        let mut parts: Vec<String> = Vec::new();
        let mut rest = src.as_str();
        while let Some(i) = rest.find("{%").into_iter().chain(rest.find("{{")).min() {
            if i > 0 {
                parts.push(rest[..i].to_string());
            }
            let close = if rest[i..].starts_with("{%") { "%}" } else { "}}" };
            match rest[i..].find(close) {
                Some(j) => {
                    parts.push(rest[i..i + j + 2].to_string());
                    rest = &rest[i + j + 2..];
                }
                None => {
                    parts.push(rest[i..].to_string());
                    rest = "";
                }
            }
        }
        if !rest.is_empty() {
            parts.push(rest.to_string());
        }
        if parts.is_empty() {
            continue;
        }
        let junk = ["{% endif %}", "{% else %}", "{% elif a %}", "{% endfor %}", "{% break %}", "{% continue %}", "{% endblock %}", "{% endset %}", "{% endfilter %}", "{% endcomponent %}", "{% block blk1 %}", "{% extends \"x\" %}", "{% for x in xs %}", "{% if a %}", "{% filter upper %}", "{% set v %}", "{% </card> %}", "{% component c(a) %}", "{{", "}}", "{%", "%}", "{% set loop = 1 %}"];
        for _ in 0..1 + rng.below(2) {
            let i = rng.below(parts.len());
            match rng.below(6) {
                0 => {
                    parts.remove(i);
                }
                1 => {
                    let t = parts[i].clone();
                    parts.insert(i, t);
                }
                2 => parts.insert(i, (*rng.pick(&junk)).to_string()),
                3 => parts[i] = (*rng.pick(&junk)).to_string(),
                4 => {
                    let j = rng.below(parts.len());
                    parts.swap(i, j);
                }
                _ => {
                    // truncate inside the part
                    let cut = rng.below(parts[i].len().max(1));
                    if parts[i].is_char_boundary(cut) {
                        parts[i].truncate(cut);
                    }
                }
            }
            if parts.is_empty() {
                break;
            }
        }
        cases.push(Case { stream: "mutated", src: parts.concat(), expect: None, label: "mutation".into() });
    }

    // ---- run (engine in threads with a large stack: parse_if and the operator chains recurse
    // without a bound, known finding F1)
    let threads = std::thread::available_parallelism().map(|n| n.get()).unwrap_or(4).min(16);
    let per = cases.len().div_ceil(threads).max(1);
    let eng_req: Vec<(String, String)> = std::thread::scope(|s| {
        let hs: Vec<_> = cases
            .chunks(per)
            .map(|cs| {
                std::thread::Builder::new()
                    .stack_size(1 << 30)
                    .spawn_scoped(s, move || cs.iter().map(|c| (engine_tpl(&c.src), model_request(&c.src))).collect::<Vec<_>>())
                    .unwrap()
            })
            .collect();
        hs.into_iter().flat_map(|h| h.join().unwrap()).collect()
    });
    let reqs: Vec<String> = eng_req.iter().map(|(_, r)| r.clone()).collect();
    let model = match driver::run_batch_parallel(&exe, &reqs, threads) {
        Ok(m) => m,
        Err(e) => {
            report.notes.push(format!("model driver unavailable: {e}"));
            report.violation("model-mismatch", format!("model driver could not be run: {e}"), serde_json::json!({"stage": "driver", "error": e}));
            Vec::new()
        }
    };

    // the hypothesis of `parser_total_no_panic` on every real token stream
    let shape_reqs: Vec<String> = reqs.iter().map(|r| r.replacen("parse", "shape", 1)).collect();
    let mut shape_bad: Vec<usize> = Vec::new();
    match driver::run_batch_parallel(&exe, &shape_reqs, threads) {
        Ok(ans) => {
            for (i, a) in ans.iter().enumerate() {
                report.count(&format!("lexer-shape.{a}"));
                if a != "1" {
                    shape_bad.push(i);
                }
            }
        }
        Err(e) => report.notes.push(format!("shape stage not run: {e}")),
    }
    let mut distinct: HashSet<&str> = HashSet::new();
    let mut oracle_fail: Vec<(usize, String)> = Vec::new();
    let mut mismatches: Vec<usize> = Vec::new();
    for (i, c) in cases.iter().enumerate() {
        report.evaluations += 1;
        let e = &eng_req[i].0;
        let class = e.split(' ').next().unwrap_or("");
        report.count(&format!("{}.parse.{}", c.stream, class));
        if class == "ok" && distinct.insert(c.src.as_str()) {
            report.distinct_nontrivial += 1;
        }
        if std::env::var("C06P_DEBUG").is_ok() && c.stream == "generated" && class != "ok" {
            eprintln!("REJECTED generated: {}", c.src);
        }
        if class == "panic" {
            oracle_fail.push((i, format!("the parser panicked on `{}`: {e}", c.src.chars().take(200).collect::<String>())));
        }
        if let Some(exp) = c.expect {
            report.oracle_checks += 1;
            if (class == "ok") != exp {
                oracle_fail.push((i, format!("{}: `{}` must be {} but the parser answered {class}", c.label, c.src.chars().take(300).collect::<String>(), if exp { "accepted" } else { "rejected" })));
            }
        }
        if !model.is_empty() {
            report.model_comparisons += 1;
            if &model[i] != e {
                report.model_disagreements += 1;
                mismatches.push(i);
            }
        }
    }
    report.oracle_failures = oracle_fail.len() as u64;
    oracle_fail.sort_by_key(|(i, _)| cases[*i].src.len());
    for (i, d) in oracle_fail.iter().take(5) {
        let c = &cases[*i];
        report.violation("property", d.clone(), serde_json::json!({"src": c.src, "stream": c.stream, "label": c.label, "engine": eng_req[*i].0, "model": model.get(*i),
            "rerun": "harness/target/release/c06p --replay <this file>"}));
    }
    if oracle_fail.is_empty() {
        mismatches.sort_by_key(|i| cases[*i].src.len());
        for i in mismatches.iter().take(5) {
            let c = &cases[*i];
            let m: String = model[*i].chars().take(600).collect();
            let e: String = eng_req[*i].0.chars().take(600).collect();
            report.violation(
                "model-mismatch",
                format!("model `{m}` vs implementation `{e}` on `{}`", c.src.chars().take(300).collect::<String>()),
                serde_json::json!({"src": c.src, "stream": c.stream, "label": c.label, "stage": "correspondence:tokens->ParserOutput", "model": model[*i], "implementation": eng_req[*i].0,
                    "rerun": "harness/target/release/c06p --replay <this file>"}),
            );
        }
    }
    for i in shape_bad.iter().take(3) {
        let c = &cases[*i];
        report.model_disagreements += 1;
        report.violation("model-mismatch", format!("the real token stream of `{}` does not have the shape the totality theorem assumes", c.src.chars().take(300).collect::<String>()),
            serde_json::json!({"src": c.src, "stage": "lexer-shape (hypothesis of parser_total_no_panic)", "tokens": reqs[*i]}));
    }
    for i in [0usize, cases.len() / 3, cases.len() / 2, cases.len() - 1] {
        let c = &cases[i];
        report.sample(serde_json::json!({"stream": c.stream, "label": c.label, "src": c.src.chars().take(400).collect::<String>(), "engine": eng_req[i].0.chars().take(400).collect::<String>(), "model": model.get(i).map(|m| m.chars().take(400).collect::<String>())}));
    }
    report.rule = "a case is a whole template source; non-trivial = the real parser accepts it; distinct by source text. Streams: repo-inputs (parser / rendering / compiler / lexer snapshot inputs), generated (statement-level generator: every tag, component definitions and calls, blocks, extends), bcgen (the bytecode generator's statements), malformed-known / wellformed-known (verdict known by construction: direct oracle), nesting (depths 30..44 around MAX_RECURSION_DEPTH), chains (elif / operator / postfix chains, not bounded by the depth counter), mutated (tag-level mutations of well-formed templates)".into();
    report.write(&out_path());
}
