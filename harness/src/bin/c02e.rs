//! C02, evaluation half — and/or/ternary laziness, one level of undefined, optional chaining,
//! operand kinds: the evaluation-rule streams of the shared evaluator harness
//! (`tera_verif_harness::evalh`, model driver `drv_c03`), reported under property C02.
fn main() {
    tera_verif_harness::evalh::run("C02");
}
